"""C24 - keyed durable stores (Suber, IoSuber, IoSetSuber) match a dictionary model for all keys.

Monitor shape: reference model run in lock-step (vf.models.store.DictModel / ListModel / OSetModel:
dict of values / of lists / of insertion-ordered sets, keyed by the database key bytes the documented
key rule gives: str -> utf-8, bytes as is, tuple -> parts joined with the key separator '_').
For every operation of a history the real return value must equal the model's, and after EVERY
operation a sweep over ALL keys of the key universe - get, cnt, getFirst, getLast where they exist,
plus getItemIter('') grouped by key, one prefix-filtered getItemIter and cntAll - must equal the
model.  The sweep is what catches cross-key interference: an operation on key A that changes what
key B returns is seen at once, and attributed to the operation that caused it.

Key universes are built to collide: keys that are prefixes of each other, keys containing the ordinal
separator '.', the key separator '_', tuple / bytes / memoryview forms that alias a str key, keys whose
tail after a '.' is made of hex digits (1, 2, 31, 32, 33 of them, upper case, with a further tail).
A universe is `clean` when no key's hidden insertion-ordered keys (`key.%032x`) can sort inside another
key's ordinal range [key.000..0, key.fff..f], `hostile` when some do; which one is written into the case.

When a mismatch is seen the monitor looks - with its own plain LMDB cursor - whether a FOREIGN hidden key
currently lies inside the ordinal range of the key that answered wrongly.  If so the violation is
keyed `cross-key:foreign-iokey-interleaved:<reader>` / `cross-key:foreign-iokey-after-last:<reader>` (mechanism: the scans in Duror assume a
key's hidden keys are contiguous / alone in that range); otherwise it is a plain model mismatch
(`ret-mismatch:...`, `own-key-mismatch:...`, `other-key-changed:...`).
"""
import atexit
import os
import random
import shutil

from hio.base.during import Duror, Suber, IoSuber, IoSetSuber, DomSuber, DomIoSuber, DomIoSetSuber
from hio.base.hier import Bag

from vf.models import store

ID = "C24"
LEVEL = "exploration"
RULE = ("random op histories (<= 80 ops) over put/pin/add/get/getIter/getFirst/getLast/pop/rem/rem-value/cnt on a universe of "
        "5..11 keys drawn from a collision family around a short base token: base, base+base, base+'.', base+'.'+base, "
        "base+'_'+base and the tuple (base,base) that aliases it, (base,''), bytes / memoryview aliases, base+'.'+hex tails of "
        "1/2/31/32/33 digits, upper-case and non-hex 32-char tails, 32-hex tails followed by more text, chars adjacent to '.' "
        "in byte order ('-', '/', '0'); values from 5 short strings plus '' ; 15% of cases use the RegDom-serialising variants. "
        "Each case says whether its universe is clean or hostile (some hidden key can sort inside another key's ordinal range). "
        "Non-trivial = at least two different keys held values at the same time, some operation changed the store and some "
        "operation was refused/empty (False/None/[]); distinct = by (store class, sequence of (op, key index, outcome)).")
ASSUMPTIONS = ["a key is identified by the key bytes the documented rule produces (str utf-8, bytes as is, tuple joined with '_'): "
               "'a_b' and ('a','b') are the same key by design",
               "default separators (key sep '_', ordinal sep '.'); keys are non-empty utf-8 text far below LMDB's 511-byte limit",
               "documented booleans are judged by truth value; the result of put/pin with nothing to add is not fixed and only recorded",
               "getItemIter prefix filters are judged only where 'starts with the key' means the same for the key with and "
               "without its hidden suffix",
               "one process, one environment; scratch LMDB directories live on tmpfs (/dev/shm) when available"]
TECHNIQUE = ("lock-step reference model (dict / dict of lists / dict of ordered sets) with a full key-universe sweep after every "
             "operation; mismatch attribution by an independent raw LMDB cursor")
LEVEL_TEXT = ("Every return value and, after every operation, what every key of a collision-built universe returns are compared with "
              "a dictionary model over thousands of random histories per store class. Held on what was observed (sampled histories "
              "over a finite key family), not a proof for all keys.")
LEVEL_NOTE = "trusted: the 120-line dict/list/ordered-set models, py-lmdb raw cursors"
NSHARDS = {"quick": 16, "thorough": 16}
TIMEOUT_S = {"quick": 300, "thorough": 1500}
BUDGET_S = {"quick": 60, "thorough": 400}
REQUIRE = {
    "quick": {"ops_checked": 20000, "sweep_reads": 300000, "neighbour_populated_ops": 5000, "histories_clean_completed": 300,
              "store:Suber": 50, "store:IoSuber": 100, "store:IoSetSuber": 100},
    "thorough": {"ops_checked": 400000, "sweep_reads": 6000000, "neighbour_populated_ops": 100000,
                 "histories_clean_completed": 6000, "store:Suber": 1000, "store:IoSuber": 2000, "store:IoSetSuber": 2000},
}

VALUES = ["v0", "v1", "v2", "v3", "v4", ""]
H = lambda n: "%032x" % n


# --------------------------------------------------------------------------
# key forms
# --------------------------------------------------------------------------
def canon(form):
    t, p = form
    if t == "s":
        return p.encode("utf-8")
    if t in ("b", "m"):
        return p.encode("utf-8")
    if t == "t":
        return "_".join(p).encode("utf-8")
    raise AssertionError(form)


def real_key(form):
    t, p = form
    if t == "s":
        return p
    if t == "b":
        return p.encode("utf-8")
    if t == "m":
        return memoryview(p.encode("utf-8"))
    return tuple(p)


def in_range(other, key):
    """can a hidden key of `other` sort inside the ordinal range of `key`?"""
    lo = key + b"." + b"0" * 32
    hi = key + b"." + b"f" * 32
    return other != key and any(lo <= other + b"." + t * 32 <= hi for t in (b"0", b"f"))


def is_hostile(canons):
    return any(in_range(a, b) for a in canons for b in canons)


def family(b):
    """collision family around base token b: (form, tag)"""
    return [
        (["s", b], "base"),
        (["s", b + b], "ext"),
        (["s", b + "."], "dot"),
        (["s", b + "." + b], "dot-word"),
        (["s", b + ".."], "dotdot"),
        (["s", b + "_" + b], "usc"),
        (["t", [b, b]], "tuple-alias"),
        (["t", [b]], "tuple1"),
        (["t", [b, ""]], "tuple-top"),
        (["t", [b, b, b]], "tuple3"),
        (["b", b], "bytes-alias"),
        (["m", b], "mview-alias"),
        (["s", b + "-"], "minus"),
        (["s", b + "/"], "slash"),
        (["s", b + "0"], "zero"),
        (["s", b + ".0"], "hex1-0"),
        (["s", b + ".00"], "hex2-0"),
        (["s", b + "." + "0" * 31], "hex31"),
        (["s", b + ".g"], "nonhex1"),
        (["s", b + "." + "g" * 32], "nonhex32"),
        (["s", b + ".z." + H(0)], "nested-hex32"),
        (["s", H(0)], "bare-hex32"),
        (["s", b + "é"], "utf8"),
        # members below can sort inside the ordinal range of `b` (hostile)
        (["s", b + ".1"], "hex1-1"),
        (["s", b + ".a"], "hex1-a"),
        (["s", b + ".5x"], "hex1-5x"),
        (["s", b + "." + H(0)], "hex32-0"),
        (["s", b + "." + H(1)], "hex32-1"),
        (["s", b + "." + H(2)], "hex32-2"),
        (["s", b + "." + H(0) + "x"], "hex32-0+x"),
        (["s", b + "." + H(1) + "." + b], "hex32-1+dot"),
        (["t", [b + "." + H(0), b]], "hex32-0+tuple"),
        (["s", b + "." + "0" * 33], "hex33"),
        (["s", b + "." + "0" * 31 + "G"], "hex31+G"),
        (["s", b + "." + "F" * 32], "HEX32"),
    ]


def gen_case(rng, tier):
    kind = rng.choice(["suber", "io", "io", "ioset", "ioset"])
    dom = rng.random() < 0.15
    b = rng.choice(["k", "ab", "q", "7", "e"])
    fam = family(b)
    want_hostile = kind != "suber" and rng.random() < 0.4
    n = rng.randint(4, 10)
    forms = [fam[0][0]]
    pool = fam[1:]
    rng.shuffle(pool)
    for f, tag in pool:
        if len(forms) >= n + 1:
            break
        cs = [canon(x) for x in forms] + [canon(f)]
        if not want_hostile and is_hostile(cs):
            continue
        forms.append(f)
    canons = [canon(f) for f in forms]
    hostile = is_hostile(canons)
    if want_hostile and not hostile:
        f = rng.choice([x for x, t in fam if t.startswith("hex32") or t in ("hex1-1", "hex33")])
        forms.append(f)
        hostile = is_hostile([canon(x) for x in forms])
    nops = rng.randint(8, 80)
    vals = VALUES if not dom else VALUES[:5]
    ops = []
    for _ in range(nops):
        ki = rng.randrange(len(forms))
        r = rng.random()
        if kind == "suber":
            if r < 0.35:
                op = ["put", ki, rng.choice(vals)]
            elif r < 0.55:
                op = ["pin", ki, rng.choice(vals)]
            elif r < 0.8:
                op = ["rem", ki]
            else:
                op = ["get", ki]
        else:
            if r < 0.30:
                op = ["add", ki, rng.choice(vals)]
            elif r < 0.42:
                op = ["put", ki, [rng.choice(vals) for _ in range(rng.randint(0, 4))]]
            elif r < 0.50:
                op = ["pin", ki, [rng.choice(vals) for _ in range(rng.randint(0, 3))]]
            elif r < 0.68:
                op = ["pop", ki]
            elif r < 0.75:
                op = ["rem", ki]
            elif r < 0.83 and kind == "ioset":
                op = ["remval", ki, rng.choice(vals[:5])]
            else:
                op = [rng.choice(["get", "getIter", "getFirst", "getLast", "cnt"]), ki]
        ops.append(op)
    return {"kind": kind, "dom": dom, "base": b, "hostile": hostile, "universe": forms, "ops": ops}


def cases(tier, seed, shard, nshards):
    rng = random.Random(f"{seed}:C24:{shard}")
    n = (2400 if tier == "quick" else 64000) // nshards
    for _ in range(n):
        yield gen_case(rng, tier)


# --------------------------------------------------------------------------
# shard state: one LMDB environment, six named sub-databases, emptied before every history
# --------------------------------------------------------------------------
_S = {"root": None, "db": None, "subs": None, "pid": None}
CLASSES = {("suber", False): (Suber, "docs."), ("io", False): (IoSuber, "ios."), ("ioset", False): (IoSetSuber, "iosets."),
           ("suber", True): (DomSuber, "dcans."), ("io", True): (DomIoSuber, "ddrqs."), ("ioset", True): (DomIoSetSuber, "ddsqs.")}
MODELS = {"suber": store.DictModel, "io": store.ListModel, "ioset": store.OSetModel}


def _cleanup():
    if _S["pid"] != os.getpid():
        return
    db = _S["db"]
    _S["db"] = None
    _S["subs"] = None
    if db is not None:
        try:
            db.close()
        except Exception:
            pass
    if _S["root"]:
        shutil.rmtree(_S["root"], ignore_errors=True)
        _S["root"] = None


def setup(ctx):
    if _S["root"] is None:
        _S["root"] = store.scratch_root("vf-c24")
        _S["pid"] = os.getpid()
        atexit.register(_cleanup)


def teardown(ctx):
    _cleanup()


def _store(kind, dom):
    if _S["root"] is None:
        setup(None)
    if _S["db"] is None or not _S["db"].opened:
        _S["db"] = Duror(name="main", headDirPath=_S["root"], temp=False, reopen=True)
        _S["subs"] = {}
    subs = _S["subs"]
    if (kind, dom) not in subs:
        cls, subkey = CLASSES[(kind, dom)]
        subs[(kind, dom)] = cls(db=_S["db"], subkey=subkey)
    sub = subs[(kind, dom)]
    store.raw_drop(_S["db"].env, sub.sdb)
    return _S["db"], sub


# --------------------------------------------------------------------------
def enc(v, dom):
    return Bag(value=v) if dom else v


def dec(v, dom):
    if v is None:
        return None
    if dom:
        return v.value if isinstance(v, Bag) else ("?", repr(v))
    return v


def call(sub, kind, dom, name, key, arg=None):
    """-> ("ret", plain value) | ("raise", ExcTypeName, exc)"""
    try:
        if name in ("put", "pin") and kind != "suber":
            r = getattr(sub, name)(key, [enc(v, dom) for v in arg])
        elif name in ("put", "pin", "add"):
            r = getattr(sub, name)(key, enc(arg, dom))
        elif name == "remval":
            r = sub.rem(key, enc(arg, dom))
        elif name == "get" and kind == "suber":
            r = dec(sub.get(key), dom)
        elif name in ("get", "getIter"):
            r = [dec(v, dom) for v in getattr(sub, name)(key)]
        elif name in ("getFirst", "getLast", "pop"):
            r = dec(getattr(sub, name)(key), dom)
        elif name in ("rem", "cnt"):
            r = getattr(sub, name)(key)
        else:
            raise AssertionError(name)
    except AssertionError:
        raise
    except Exception as ex:
        return ("raise", type(ex).__name__, ex)
    return ("ret", r)


def attribute(ctx, db, sub, kind, ckey, base_key, msg):
    """violation with the key naming the mechanism as far as the monitor can tell"""
    if kind != "suber":
        foreign = store.foreign_inside_ion_range(db.env, sub.sdb, ckey)
        if foreign:
            reader = base_key.split(":")[-1]
            own = [k for k, _ in store.raw_items(db.env, sub.sdb) if store.split_iokey(k)[0] == ckey]
            # interleaved: a foreign hidden key sorts before one of the key's own entries (forward scans meet it first);
            # after-last: foreign hidden keys only follow the key's last entry (only the walk back from the maximum meets them)
            how = "interleaved" if own and min(foreign) < max(own) else "after-last"
            if not (ctx.case or {}).get("hostile", True):
                how = "UNPREDICTED-" + how     # the generator called this universe clean: never to be filed under a known finding
            ctx.violation(f"cross-key:foreign-iokey-{how}:{reader}",
                          f"{msg}; hidden keys of OTHER keys lie inside the ordinal range of {ckey!r}: {foreign[:4]}; "
                          f"raw sub-db keys: {[k for k, _ in store.raw_items(db.env, sub.sdb)][:24]}")
            return
    ctx.violation(base_key, msg + f"; raw sub-db keys: {[k for k, _ in store.raw_items(db.env, sub.sdb)][:24]}")


def sweep(ctx, db, sub, kind, dom, model, firstform, canons, opdesc, opkey, step_no, forms):
    """every key of the universe answers like the model.  True when it does."""
    cls = type(sub).__name__.replace("Dom", "")   # the RegDom-serialising variants share all key/scan code
    order = [opkey] + [c for c in canons if c != opkey]
    for c in order:
        form = firstform[c]
        rk = real_key(form)
        readers = [("get", model.get(c))] if kind == "suber" else [
            ("get", model.get(c)), ("cnt", len(model.get(c))),
            ("getFirst", model.get(c)[0] if model.get(c) else None),
            ("getLast", model.get(c)[-1] if model.get(c) else None)]
        for rname, want in readers:
            ctx.count("sweep_reads")
            out = call(sub, kind, dom, rname, rk)
            if out[0] == "raise" or out[1] != want or (out[1] is None) != (want is None):
                which = "own-key-mismatch" if c == opkey else "other-key-changed"
                got = f"raised {out[2]!r}" if out[0] == "raise" else repr(out[1])
                attribute(ctx, db, sub, kind, c, f"{which}:{cls}.{opdesc[0]}:{rname}",
                          f"after step {step_no} {opdesc} on key {opkey!r}: {rname}({c!r}) gives {got}, model {want!r}")
                return False
    # all items, grouped by key (order across keys is LMDB's business; order within a key is insertion order)
    ctx.count("sweep_reads")
    try:
        items = list(sub.getItemIter())
        total = sub.cntAll()
    except Exception as ex:
        ctx.violation(f"escape:{type(ex).__name__}:{cls}.getItemIter", f"after step {step_no} {opdesc}: getItemIter() raised {ex!r}")
        return False
    got = {}
    for keys, val in items:
        got.setdefault(tuple(keys), []).append(dec(val, dom))
    want = {tuple(c.decode("utf-8").split("_")): model.items_of(c) for c in model.keys()}
    if got != want or total != model.cnt_all():
        bad = next((k for k in set(got) | set(want) if got.get(k) != want.get(k)), None)
        ck = "_".join(bad).encode("utf-8") if bad is not None else opkey
        attribute(ctx, db, sub, kind, ck, f"items-mismatch:{cls}.{opdesc[0]}:getItemIter",
                  f"after step {step_no} {opdesc}: getItemIter('') grouped = {got}, cntAll={total}; model {want}")
        return False
    # one prefix-filtered iteration (rotating through the universe)
    form = forms[step_no % len(forms)]
    top = canon(form)
    topive = form[0] == "t" and step_no % 2 == 0
    if topive and form[1][-1]:
        top = top + b"_"
    a = {c for c in model.keys() if c.startswith(top)}
    # 'whose effective key starts with the key made from keys': for a key whose hidden-suffixed form starts with `top`
    # although the key itself does not (top = key + '.' + hex digits) the documentation can be read both ways: skip
    ambiguous = kind != "suber" and any(
        (not c.startswith(top)) and top.startswith(c + b".") and len(top) - len(c) - 1 <= 32
        and all(ch in b"0123456789abcdef" for ch in top[len(c) + 1:]) for c in model.keys())
    if not ambiguous:
        ctx.count("sweep_reads")
        ctx.count("filtered_iterations")
        try:
            items = list(sub.getItemIter(real_key(form), topive=topive))
        except Exception as ex:
            ctx.violation(f"escape:{type(ex).__name__}:{cls}.getItemIter",
                          f"getItemIter({real_key(form)!r}, topive={topive}) raised {ex!r}")
            return False
        got = {}
        for keys, val in items:
            got.setdefault(tuple(keys), []).append(dec(val, dom))
        want = {tuple(c.decode("utf-8").split("_")): model.items_of(c) for c in a}
        if got != want:
            attribute(ctx, db, sub, kind, opkey, f"items-mismatch:{cls}.{opdesc[0]}:getItemIter-filtered",
                      f"after step {step_no} {opdesc}: getItemIter({real_key(form)!r}, topive={topive}) grouped = {got}; "
                      f"model {want}")
            return False
    else:
        ctx.count("filtered_iterations_ambiguous_skipped")
    return True


def run_case(case, ctx):
    kind, dom = case["kind"], case["dom"]
    db, sub = _store(kind, dom)
    cls = type(sub).__name__.replace("Dom", "")
    model = MODELS[kind]()
    forms = case["universe"]
    canons = []
    firstform = {}
    for f in forms:
        c = canon(f)
        if c not in firstform:
            firstform[c] = f
            canons.append(c)
    related = {c: [o for o in canons if o != c and (o.startswith(c) or c.startswith(o))] for c in canons}
    outcomes = []
    changed = refused = False
    multi = False
    for i, op in enumerate(case["ops"]):
        name, ki = op[0], op[1]
        arg = op[2] if len(op) > 2 else None
        form = forms[ki]
        c = canon(form)
        if any(model.items_of(o) for o in related[c]):
            ctx.count("neighbour_populated_ops")
        before = (model.cnt_all(), model.items_of(c))
        exp = model.apply(name, c, arg)
        out = call(sub, kind, dom, name, real_key(form), arg)
        ctx.count("ops_checked")
        ctx.count(f"op:{name}")
        opdesc = [name, form, arg] if arg is not None else [name, form]
        if out[0] == "raise":
            attribute(ctx, db, sub, kind, c, f"escape:{out[1]}:{cls}.{name}",
                      f"step {i} {opdesc} raised {out[2]!r}; model: {exp}")
            return
        why = store.judge(exp, out[:2])
        if why:
            attribute(ctx, db, sub, kind, c, f"ret-mismatch:{cls}.{name}:{name}",
                      f"step {i} {opdesc} (key bytes {c!r}, held {before[1]!r} before): {why}")
            return
        if exp[0] == "any":
            ctx.seen("unjudged_return_values", [cls, name, repr(out[1])])
        if not sweep(ctx, db, sub, kind, dom, model, firstform, canons, opdesc, c, i, forms):
            return
        after = (model.cnt_all(), model.items_of(c))
        if after != before:
            changed = True
        if out[1] in (False, None, [], 0) and name not in ("cnt",):
            refused = True
        if len(model.keys()) >= 2:
            multi = True
        ctx.peak("peak_keys_populated", len(model.keys()))
        outcomes.append([name, ki, repr(out[1])[:40]])
    ctx.count("histories_completed")
    ctx.count("histories_hostile_completed" if case["hostile"] else "histories_clean_completed")
    ctx.count(f"store:{cls}")
    if dom:
        ctx.count("store_dom_variants")
    ctx.seen("universes", sorted(c.decode("utf-8") for c in canons))
    if changed and refused and multi:
        ctx.nontrivial([cls, outcomes])
    ctx.sample({"case": {k: case[k] for k in ("kind", "dom", "hostile", "universe")}, "n_ops": len(case["ops"]),
                "first_outcomes": outcomes[:12], "final": {k.decode(): model.items_of(k) for k in model.keys()}})


PEAK_COUNTERS = ("peak_keys_populated",)
