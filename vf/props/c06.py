"""C06 - runtime extend/remove take effect exactly and preserve membership.

Monitor shape: reference membership model in lock-step with the recorded trace.
Doers running inside a Doist / DoDoer(always=True) call scheduler.extend(...) and
scheduler.remove(...) at scripted steps (the harness records call / return / raise
events with the scheduler's .doers before and after).  Judged per call:
  extend:  every genuinely new doer gets its `enter` between call and return, does not recur in the cycle
           of the call, first recurs in a later cycle, and is appended to .doers in call order; a doer that
           is already present causes no event and no change; the call does not raise
  remove:  every present, still-running, non-calling doer gets cease then exit between call and return and
           never recurs again; a doer removing itself leaves .doers at once but keeps recurring until it
           returns on its own (clean); absent or already-completed doers only leave the list; no raise
  always:  scheduler.doers == the reference list (added and not removed, insertion order) after every call
           and at the end of the run
"""
import random

from vf import sched, gen_sched

ID = "C06"
LEVEL = "exploration"
TECHNIQUE = "lock-step reference membership model + per-call trace oracle over extend/remove histories issued from inside running doers"
RULE = ("random histories of extend/remove calls issued by running doers at chosen cycles against the Doist or a "
        "DoDoer(always=True): targets = self, earlier sibling (already ran this cycle), later sibling (not yet run), "
        "not-yet-due doer, completed doer, absent doer, duplicates across calls and within one call, extend+remove of the "
        "same doer in one cycle, remove of a doer extended earlier. Non-trivial = the history has >= 2 calls that changed "
        "membership incl. >= 1 remove of a running doer or self; distinct = by (program, act scripts).")
LEVEL_TEXT = ("Each extend/remove call of each generated history is judged from the events recorded between its call and return "
              "and from the scheduler's doer list; thousands of histories per run. Held on the histories observed.")
LEVEL_NOTE = "trusted: vf/sched.py hooks; the 40-line membership model in this module"
ASSUMPTIONS = ["ancestors of the calling doer are never removed (outside the quantifier)",
               "targets are the Doist or DoDoer(always=True) (the statement's scope)"]
NSHARDS = {"quick": 8, "thorough": 16}
REQUIRE = {"constructor_list_updated_by_caller_before_call": 300, "own_list_object_as_argument": 100, "fresh_equal_bound_methods_passed": 100, "extend_calls_judged": 1500, "remove_calls_judged": 1500, "new_doers_entered": 1000, "running_doers_removed": 500,
           "self_removals": 150, "already_present_extends": 200, "absent_or_completed_removes": 200,
           "duplicate_within_call": 100, "dodoer_always_targets": 300}


def gen_case(rng):
    ids = gen_sched.Ids()
    tock = rng.choice([0.25, 0.5, 1.0])
    nested = rng.random() < 0.45
    leaf_kw = dict(forever_p=0.45, enter_finish_p=0.05, max_steps=8)
    members = [gen_sched.gen_leaf(rng, ids, tock, **leaf_kw) for _ in range(rng.randint(2, 6))]
    pool = [gen_sched.gen_leaf(rng, ids, tock, **leaf_kw) for _ in range(rng.randint(1, 4))]
    if nested:
        gid = ids.group()
        group = {"id": gid, "kind": "dodoer", "tock": 0.0, "always": True, "doers": members}
        outer = [gen_sched.gen_leaf(rng, ids, tock, **leaf_kw) for _ in range(rng.randint(0, 2))]
        doers = outer[:1] + [group] + outer[1:]
        target = gid
    else:
        doers = members
        target = "doist"
    callers = [m for m in members if m.get("enter") == "ok"]
    universe = [m["id"] for m in members] + [p["id"] for p in pool]
    nacts = rng.randint(1, 6)
    for _ in range(nacts):
        if not callers:
            break
        caller = rng.choice(callers)
        last = caller["end"][0] if caller.get("end") else 7
        k = rng.randint(1, last)
        op = rng.choice(["extend", "remove"])
        n = rng.randint(1, 3)
        ids_ = [rng.choice(universe) for _ in range(n)]
        if rng.random() < 0.15 and ids_:
            ids_.append(ids_[0])          # duplicate within one call
        if op == "remove" and rng.random() < 0.25:
            ids_.append(caller["id"])    # self removal
        if rng.random() < 0.08:
            ids_ = ["*"]                  # the scheduler's own member list object as the argument
        fresh = rng.random() < 0.35       # bound-method doers named afresh (equal, not identical)
        registry = rng.random() < 0.25    # the caller first updates the list it gave to the scheduler's constructor
        caller.setdefault("acts", {}).setdefault(str(k), []).append([op, target, ids_, False, fresh, registry])
    prog = {"tock": tock, "tyme": rng.choice([0.0, 3.0]), "limit": tock * rng.choice([6, 9, 12]), "runner": "do",
            "doers": doers, "pool": pool, "dyadic": True}
    return {"prog": prog, "target": target}


def cases(tier, seed, shard, nshards):
    rng = random.Random(f"{seed}:C06:{shard}")
    n = (3200 if tier == "quick" else 100000) // nshards
    for _ in range(n):
        yield gen_case(rng)


def run_case(case, ctx):
    prog, target = case["prog"], case["target"]
    run = sched.execute(prog, max_cycles=sched.cycle_budget(prog))
    tr = sched.compact(run)
    trace = run.trace
    if run.result[0] == "runaway":
        ctx.violation("non-termination:logical-cycle-budget-exceeded",
                      f"run exceeded the cycle budget {run.max_cycles} derived from its own limit/scripts "
                      f"(cycles={run.cycles}, recur steps={run.total_steps})", trace=sched.compact(run)[-60:])
        return
    if target != "doist":
        ctx.count("dodoer_always_targets")
    # reference membership list of the target scheduler
    spec_members = prog["doers"] if target == "doist" else \
        next(g for g in gen_sched.groups_of(prog["doers"]) if g["id"] == target)["doers"]
    model = [m["id"] for m in spec_members]
    # scan the trace
    cyc = 0
    alive, entered, exited = set(), set(), set()
    recur_cycles = {}
    changed_calls = 0
    interesting = False
    bad = False
    i = 0
    n = len(trace)
    added_cycle = {}     # doer added by extend -> target-scheduler cycle of the call
    closed = set()
    last_recur_cycle = {}
    tcycle = 0
    while i < n:
        kind, did, t, info = trace[i]
        if kind == "cycle":
            cyc += 1
            if target == "doist":
                tcycle += 1
        elif kind == "recur":
            if did == target:
                tcycle += 1
            if did != target:
                if last_recur_cycle.get(did) == (cyc, tcycle):
                    ctx.violation("recur-twice-in-one-cycle", f"{did} recurred twice in cycle {cyc}", trace=tr[-80:])
                    return
                last_recur_cycle[did] = (cyc, tcycle)
            if did in closed:
                ctx.violation("recur-after-exit", f"{did} recurred after it was force-closed/exited", trace=tr)
                return
            if did in added_cycle:
                if tcycle <= added_cycle[did]:
                    ctx.violation("extended-doer-recurred-in-the-cycle-it-was-added",
                                  f"{did} added in scheduler cycle {added_cycle[did]}, first recur in cycle {tcycle}",
                                  trace=tr)
                    return
                ctx.count("first_recur_of_extended_doer_in_later_cycle")
                del added_cycle[did]
        elif kind == "enter":
            entered.add(did); alive.add(did); closed.discard(did)
        elif kind == "exit":
            exited.add(did); alive.discard(did); closed.add(did)
        elif kind in ("ext-call", "rem-call") and info["sched"] == target:
            op = "extend" if kind == "ext-call" else "remove"
            ids_ = info["ids"]
            caller = did
            # find the matching return/raise
            j = i + 1
            closing = ("ext-ret", "ext-raise") if op == "extend" else ("rem-ret", "rem-raise")
            while j < n and not (trace[j][0] in closing and trace[j][1] == caller):
                j += 1
            if j >= n:
                ctx.violation(f"{op}-never-returned", f"{op}({ids_}) by {caller}", trace=tr)
                return
            inner = trace[i + 1:j]
            before = list(info["before"])
            after = list(trace[j][3]["after"])
            raised = trace[j][0].endswith("raise")
            if before != model:
                ctx.violation("doers-list-differs-from-model-before-call",
                              f"before {op}({ids_}) by {caller}: scheduler.doers={before} model={model}", trace=tr)
                return
            if len(set(ids_)) < len(ids_):
                ctx.count("duplicate_within_call")
            if info.get("own_list"):
                ctx.count("own_list_object_as_argument")
            if info.get("fresh"):
                ctx.count("fresh_equal_bound_methods_passed", info["fresh"])
            if info.get("registry"):
                ctx.count("constructor_list_updated_by_caller_before_call")
            if op == "extend":
                ctx.count("extend_calls_judged")
                new = []
                for x in ids_:
                    if x not in model and x not in new:
                        new.append(x)
                if len(new) < len(set(ids_)):
                    ctx.count("already_present_extends")
                want = model + new
                enters = [e[1] for e in inner if e[0] == "enter"]
                dup = len(set(ids_)) < len(ids_) and any(ids_.count(x) > 1 and x in new for x in ids_)
                key = None
                if raised:
                    key = "extend-raised" + (":duplicate-in-one-call" if dup else "")
                    msg = f"extend({ids_}) by {caller} raised {trace[j][3].get('exc')}"
                elif enters != new:
                    key = "extend-enter-events-wrong" + (":duplicate-in-one-call-entered-twice" if dup else "")
                    msg = f"extend({ids_}) by {caller}: new doers {new}, enter events inside the call {enters}"
                elif after != want:
                    key = "extend-doers-list-wrong" + (":duplicate-in-one-call-listed-twice" if dup else "")
                    msg = f"extend({ids_}) by {caller}: scheduler.doers after={after}, model={want}"
                elif any(e[0] in ("recur", "exit", "cease") and e[1] in model for e in inner):
                    key = "extend-disturbed-present-doers"
                    msg = f"extend({ids_}) by {caller}: events inside the call {[(e[0], e[1]) for e in inner]}"
                if any(x in alive for x in new):
                    # re-adding a doer that removed itself and is still running would start a second generator of
                    # the same doer object next to the first: a misuse outside the quantifier; not judged
                    ctx.count("skipped_readd_of_still_running_self_removed_doer")
                    return
                if key:
                    ctx.violation(key, msg, trace=tr)
                    return      # the rest of this history runs on a polluted scheduler: not judged
                ctx.count("new_doers_entered", len(new))
                for x in new:
                    added_cycle[x] = tcycle
                model = want
                if new:
                    changed_calls += 1
            else:
                ctx.count("remove_calls_judged")
                present = []
                for x in ids_:
                    if x in model and x not in present:
                        present.append(x)
                if len(present) < len(set(ids_)):
                    ctx.count("absent_or_completed_removes")
                want = [x for x in model if x not in present]
                victims = [x for x in present if x in alive and x != caller]
                if caller in present:
                    ctx.count("self_removals")
                    interesting = True
                ctx.count("running_doers_removed", len(victims))
                if victims:
                    interesting = True
                ceases = [e[1] for e in inner if e[0] == "cease"]
                exits = [e[1] for e in inner if e[0] == "exit"]
                dup = len(set(ids_)) < len(ids_) and any(ids_.count(x) > 1 and x in present for x in ids_)
                key = None
                if raised:
                    key = "remove-raised" + (":duplicate-in-one-call" if dup else "")
                    msg = f"remove({ids_}) by {caller} raised {trace[j][3].get('exc')}; doers after={after}"
                elif sorted(ceases) != sorted(victims) or sorted(exits) != sorted(victims):
                    key = "remove-did-not-force-close-exactly-the-removed-running-doers"
                    msg = (f"remove({ids_}) by {caller}: running victims {victims}; inside the call cease={ceases} "
                           f"exit={exits}")
                elif any(e[0] == "exit" and e[1] in victims and
                         not any(c[0] == "cease" and c[1] == e[1] for c in inner[:k]) for k, e in enumerate(inner)):
                    key = "remove-exit-without-preceding-cease"
                    msg = f"remove({ids_}) by {caller}: {[(e[0], e[1]) for e in inner]}"
                elif after != want:
                    key = "remove-doers-list-wrong"
                    msg = f"remove({ids_}) by {caller}: scheduler.doers after={after}, model={want}"
                if key:
                    ctx.violation(key, msg, trace=tr)
                    return
                model = want
                if present:
                    changed_calls += 1
            # replay the inner events for alive bookkeeping, then continue after the return
            for e in inner:
                if e[0] == "enter":
                    entered.add(e[1]); alive.add(e[1]); closed.discard(e[1])
                elif e[0] == "exit":
                    exited.add(e[1]); alive.discard(e[1]); closed.add(e[1])
            i = j
        i += 1
    # a doer that removed itself (even when that empties the member list) keeps running until it returns: the run may
    # stop before its limit only when nothing is running any more
    ncyc = sum(1 for e in run.trace if e[0] == "cycle")
    xb = next((e for e in run.trace if e[0] == "sched-exit-begin" and e[1] == "doist"), None)
    if run.result[0] == "return" and xb is not None:
        ctx.count("run_ends_judged")
        if ncyc * prog["tock"] < prog["limit"] and xb[3].get("alive"):
            ctx.violation("run-ended-before-its-limit-with-doers-still-running",
                          f"do() returned after {ncyc} cycles (limit {prog['limit']} = {prog['limit'] / prog['tock']} cycles) "
                          f"and force-closed {xb[3].get('alive')}; scheduler.doers at the end={[run.name_of(d) for d in run.doist.doers]}",
                          trace=tr)
            return
        if not run.doist.doers and xb[3].get("alive"):
            ctx.count("runs_stopped_at_limit_with_empty_member_list_and_a_running_self_removed_doer")
    final = [run.name_of(d) for d in run.sched(target).doers]
    if final != model:
        ctx.violation("doers-list-differs-from-model-at-end", f"scheduler.doers={final} model={model}", trace=tr)
        return
    for did, st in run.state.items():
        if st.outcome == "returned" and did in entered:
            word = [e[0] for e in trace if e[1] == did and e[0] in sched.LIFE]
            if "clean" not in word and "cease" not in word:
                ctx.violation("self-completing-doer-without-clean", f"{did}: {word}", trace=tr)
                return
    ctx.seen("final_membership_sizes", len(model))
    if changed_calls >= 2 and interesting:
        acts = {lf["id"]: lf.get("acts") for lf in gen_sched.leaves_of(prog["doers"]) if lf.get("acts")}
        ctx.nontrivial([gen_sched.shape_sig(prog["doers"]), acts, prog["limit"], prog["tock"]])
        ctx.sample({"target": target, "acts": acts, "final_doers": model,
                    "calls": [(e[0], e[1], e[3].get("ids")) for e in trace if e[0] in ("ext-call", "rem-call")]})
