"""C05 - run termination and done flags are exact.

Monitor shape: oracle over the recorded trace (cycle, tick, clean/cease events,
flag values read inside the doers' own enter callbacks) + the reference model of
vf/models/cycle.py for the completion cycle.  Judged, per run:
  D1 no limit: do() returns with done True, and the number of cycles == (cycle in which the last doer
     completed) + 1 (at least 1)
  D2 limit L>0: the run stops right after the first cycle whose end tyme >= start + L (unless everything
     completed earlier); done is True iff no doer was alive at that moment
  D3 every doer's done flag reads False inside its own enter (stale True from an earlier run is pre-set)
  D4 a doer that finished on its own has done == the value it returned (a returned None leaves a falsy flag);
     a doer that was force-closed never has a truthy flag
L = 0 is not generated: the code documents a falsy limit as "no limit" and the statement speaks of "limit L".
"""
import random

from vf import sched, gen_sched
from vf.models import cycle

ID = "C05"
LEVEL = "exploration"
TECHNIQUE = "trace oracle (tick/cycle/terminal-context events + done flags read at hooks) cross-checked with a reference cycle model"
RULE = ("random static forests (5 leaf kinds, tock-0 DoDoers) with completion steps 1..10 or never, return values "
        "None/True/False/1/'x', limits incl. non-multiples of tock and limits shorter than one tock, start tymes and tocks "
        "from the dyadic set plus a non-dyadic set; done flags pre-set to a stale True before the run. Non-trivial = the run "
        "has a limit that fired with >= 1 doer alive and >= 1 doer completed on its own, or >= 3 doers completing in "
        "different cycles; distinct = by (leaf scripts, shape, tock, start, limit).")
LEVEL_TEXT = ("Termination cycle, Doist.done and every doer's done flag are judged on each generated run against the "
              "statement directly (from tick values) and against an independent model. Held on the runs observed.")
LEVEL_NOTE = "trusted: vf/sched.py recorder, vf/models/cycle.py; Python 3.12 generator.close() returns None (forced closes never carry a value)"
ASSUMPTIONS = ["static doer sets (plus runtime calls that leave the set unchanged); non-real-time mode except one family that runs real=True on a scripted wall clock and judges only the limit cycle; limit > 0 or None"]
NSHARDS = {"quick": 8, "thorough": 16}
REQUIRE = {"real_time_limit_runs_judged": 200, "float_limit_runs_judged": 1500, "float_limit_runs_with_an_end_tyme_one_ulp_from_the_limit": 150, "runs_with_membership_preserving_runtime_calls": 300, "membership_preserving_calls_made": 300, "runs_through_ado": 600, "runs_with_runtime_extend_flags_judged": 300, "stale_true_reset_seen_for_extended_doer": 300, "runs_judged": 2000, "limit_fired_with_alive": 300, "no_limit_runs": 500, "self_completed_flags_checked": 3000,
           "forced_closed_flags_checked": 800, "stale_true_reset_seen": 3000, "limit_not_multiple_of_tock": 100}


def float_tie_case(rng):
    """Non-dyadic (start, tock, L) with L nominally a multiple of tock and doers that run every cycle for ever: the only
    thing decided is the cycle in which the limit fires, judged literally on the float values the run itself produced
    (first cycle whose end tyme, as ticked, is >= float(start) + float(L))."""
    from decimal import Decimal
    tock = rng.choice([0.1, 0.2, 0.3, 0.7, 0.05, 0.6, 1.1])
    start = float(Decimal(str(tock)) * rng.randint(1, 40)) if rng.random() < 0.7 else rng.choice([0.3, 0.6, 1.2, 2.8, 0.1, 7.7])
    m = rng.randint(1, 30)
    limit = float(Decimal(str(tock)) * m)
    prog = gen_sched.gen_prog(rng, dyadic=False, nmax=3, depth=0, group_p=0.0, leaf_kw={"forever_p": 1.0})
    for lf in gen_sched.leaves_of(prog["doers"]):
        lf["enter"], lf["end"], lf["ys"] = "ok", None, [rng.choice([0.0, None])]
    prog.update(tock=tock, tyme=start, limit=limit, do_args=rng.random() < 0.5, ctor_tyme=rng.choice([0.0, start]),
                ctor_limit=None, runner=rng.choice(["do", "do", "ado"]), stale_done=True)
    return {"prog": prog, "kind": "float-limit-tie", "m": m}


def run_float_tie(case, ctx):
    prog = case["prog"]
    run = sched.execute(prog, max_cycles=case["m"] + 6)
    tr = sched.compact(run, 40)
    if run.result[0] != "return":
        ctx.violation("run-did-not-return:" + str(run.result[1]), f"{run.result}", trace=tr)
        return
    ticks = [info["after"] for kind, did, t, info in run.trace if kind == "tick"]
    ncyc = sum(1 for e in run.trace if e[0] == "cycle")
    stop = prog["tyme"] + prog["limit"]          # the two floats the caller gave, added once
    kfirst = next((i + 1 for i, a in enumerate(ticks) if a >= stop), None)
    ctx.count("float_limit_runs_judged")
    if any(a != stop and abs(a - stop) < 1e-9 for a in ticks):
        ctx.count("float_limit_runs_with_an_end_tyme_one_ulp_from_the_limit")
    if kfirst is None or ncyc != kfirst or run.doist.done is not False:
        ctx.violation("limit-run-wrong-end-cycle:non-dyadic-limit-multiple-of-tock",
                      f"start={prog['tyme']!r} L={prog['limit']!r} tock={prog['tock']!r}: start+L={stop!r}; cycle end tymes "
                      f"{ticks[-4:]}: first cycle with end tyme >= start+L is {kfirst}, run made {ncyc} cycles "
                      f"done={run.doist.done!r}", trace=tr)


def real_limit_case(rng):
    """real=True run on a scripted wall clock: the limit is virtual tyme, so however much wall-clock time one cycle's
    work consumes the run stops after the first cycle whose end tyme >= start + L."""
    tock = rng.choice([1 / 16, 1 / 8, 1 / 32])
    m = rng.randint(4, 10)
    return {"kind": "real-limit", "tock": tock, "m": m, "start": rng.choice([0.0, 3.0]),
            "stall_cycle": rng.randint(1, m - 1), "stall_tocks": rng.choice([2, 3, 5, 12]), "via_call": rng.random() < 0.5}


def run_real_limit(case, ctx):
    from hio.base import doing
    from hio.help import timing
    from vf.mon.fakeclock import FakeClock, Installed
    clock = FakeClock()
    tock, m, start = case["tock"], case["m"], case["start"]

    class Staller(doing.Doer):
        cycles = 0

        def recur(self, tyme):
            Staller.cycles += 1
            if Staller.cycles == case["stall_cycle"]:
                clock.work(case["stall_tocks"] * tock)      # this cycle's work takes several tocks of wall-clock time
            return False

    with Installed(clock, [timing, doing]):
        limit = m * tock
        doist = doing.Doist(real=True, tock=tock, doers=[Staller()], tyme=start, **({} if case["via_call"] else {"limit": limit}))
        clock.arm()
        try:
            doist.do(**({"limit": limit} if case["via_call"] else {}))
        finally:
            clock.disarm()
    ctx.count("real_time_limit_runs_judged")
    if Staller.cycles != m or doist.tyme != start + m * tock or doist.done is not False:
        ctx.violation("limit-run-wrong-end-cycle:real-time-mode",
                      f"real=True tock={tock} start={start} L={m * tock} (= {m} cycles), cycle {case['stall_cycle']} consumed "
                      f"{case['stall_tocks']} tocks of wall-clock time: run made {Staller.cycles} cycles, end tyme {doist.tyme}, "
                      f"done={doist.done!r}")


def cases(tier, seed, shard, nshards):
    rng = random.Random(f"{seed}:C05:{shard}")
    n = (4000 if tier == "quick" else 150000) // nshards
    for _ in range(max(40, n // 40)):
        yield real_limit_case(rng)
    for _ in range(n // 2):
        yield float_tie_case(rng)
    for _ in range(n):
        dyadic = rng.random() < 0.85
        prog = gen_sched.gen_prog(rng, dyadic=dyadic, nmax=7, depth=2, group_p=rng.choice([0.0, 0.3]),
                                  limit_p=0.5, leaf_kw={"forever_p": 0.2})
        prog["stale_done"] = True
        prog["runner"] = rng.choice(["do", "do", "ado"])     # the termination clauses hold for both entry points
        r0 = rng.random()
        if r0 < 0.06:
            # an idle DoDoer(always=True) (own flag True) extended from outside with function / bound-method doers that
            # finish with a bare return at enter or in their first recur: their flag must stay falsy
            from vf import faults
            case = faults.make_extend_idle_always(rng)
            while case["fault"]["stop"] not in ("limit-later", "limit-same-cycle"):
                case = faults.make_extend_idle_always(rng)
            p2 = case["prog"]
            for n_ in p2["pool"]:
                n_["kind"] = rng.choice(["doify", "method", "doize", "redoer"])
                if rng.random() < 0.5:
                    n_["enter"], n_["fin"], n_["end"] = "finish", rng.choice([None, None, False]), None
                else:
                    n_["enter"], n_["end"], n_["ys"] = "ok", [1, "return", rng.choice([None, None, False, 0])], [0.0]
            p2["limit"] = p2["limit"] + 4 * p2["tock"]
            p2["stale_done"] = True
            yield {"prog": p2}
            continue
        if r0 < 0.26:
            # doers with a stale True flag that are entered at RUNTIME through extend() (Doist or nested DoDoer):
            # only the flag clauses D3/D4 are judged for these runs (the termination model has no extend)
            callers = [lf for lf in gen_sched.leaves_of(prog["doers"]) if lf.get("enter") == "ok"]
            if callers:
                ids = gen_sched.Ids()
                ids.n = 600
                caller = rng.choice(callers)
                news = [gen_sched.gen_leaf(rng, ids, prog["tock"], dyadic=dyadic, forever_p=0.4)
                        for _ in range(rng.randint(1, 3))]
                scheds = ["doist"] + [g["id"] for g in gen_sched.groups_of(prog["doers"])
                                      if any(c is caller or (c.get("doers") and caller in list(gen_sched.leaves_of([c])))
                                             for c in g["doers"])]
                last = caller["end"][0] if caller.get("end") else 4
                caller.setdefault("acts", {})[str(rng.randint(1, last))] = \
                    [["extend", rng.choice(scheds), [n_["id"] for n_ in news], False]]
                prog["pool"] = news
                if prog["limit"] is None and gen_sched.needs_limit(prog["doers"] + news):
                    prog["limit"] = prog["tock"] * 10 if dyadic else 2.05
        elif r0 < 0.42:
            # runtime calls that leave the doer set as it is (remove of nothing / of already completed doers / of the
            # caller itself, extend of nothing / of present doers): the run must end exactly as the static run does
            callers = [lf for lf in gen_sched.leaves_of(prog["doers"]) if lf.get("enter") == "ok"]
            top_ids = {n_["id"] for n_ in prog["doers"]}
            for _ in range(rng.randint(1, 2)):
                if not callers:
                    break
                caller = rng.choice(callers)
                last = caller["end"][0] if caller.get("end") else 4
                k = rng.randint(1, last)
                what = rng.choice(["rem-empty", "rem-completed", "rem-completed", "ext-empty", "ext-members", "rem-self"])
                if what == "rem-self" and (caller["id"] not in top_ids or caller.get("end") is None):
                    what = "rem-completed"       # a top-level doer that removes itself keeps running until it returns
                act = {"rem-empty": ["remove", "doist", ["@empty"], False],
                       "rem-completed": ["remove", "doist", ["@completed"], False],
                       "rem-self": ["remove", "doist", ["@self", "@completed"], False],
                       "ext-empty": ["extend", "doist", ["@empty"], False],
                       "ext-members": ["extend", "doist", ["@members"], False]}[what]
                caller.setdefault("acts", {}).setdefault(str(k), []).append(act)
                prog["noop_acts"] = prog.get("noop_acts", 0) + 1
        yield {"prog": prog}


def preset_stale(run):
    for did, obj in run.objs.items():
        try:
            obj.done = True
        except AttributeError:
            obj.__func__.done = True


def run_flags_only(case, ctx):
    """Runs whose doer set changes at runtime: judge D3 (False inside enter, also for doers entered by extend()) and
    D4 (flag == returned value after self-completion; never truthy after a forced close)."""
    prog = case["prog"]
    orig_build = sched.build

    def build_with_stale(p):
        r = orig_build(p)
        preset_stale(r)
        return r
    sched.build = build_with_stale
    try:
        run = sched.execute(prog, max_cycles=sched.cycle_budget(prog))
    finally:
        sched.build = orig_build
    tr = sched.compact(run)
    if run.result[0] != "return":
        ctx.violation("run-did-not-return:" + str(run.result[1]), f"{run.result}", trace=tr)
        return
    terminal = {}
    for kind, did, t, info in run.trace:
        if kind in ("clean", "cease", "abort"):
            terminal[did] = kind
    pool_ids = {n["id"] for n in prog["pool"]}
    for did, st in run.state.items():
        if st.enters == 0:
            continue
        where = "extended-at-runtime" if did in pool_ids else "initial"
        if st.flag_at_enter is not False:
            ctx.violation("done-not-false-at-enter:" + where, f"{did} ({run.specs[did]['kind']}) read done="
                          f"{st.flag_at_enter!r} inside its enter", trace=tr)
            return
        if did in pool_ids:
            ctx.count("stale_true_reset_seen_for_extended_doer")
        flag = run.done_of(did)
        if terminal.get(did) == "clean":
            v = st.value
            ok = (flag is None or flag is False) if v is None else (flag == v and type(flag) is type(v))
            if not ok:
                ctx.violation("done-flag-not-returned-value", f"{did} ({run.specs[did]['kind']}, {where}) returned {v!r}, "
                              f"done flag is {flag!r}", trace=tr)
                return
        elif flag:
            key = "done-truthy-after-forced-close"
            if run.specs[did]["kind"] == "dodoer" and run.specs[did].get("always"):
                key += ":idle-always-dodoer"     # its own recur() returned True (no deeds left) while it keeps running
            ctx.violation(key, f"{did} ({run.specs[did]['kind']}, {where}) ended by "
                          f"{terminal.get(did)} but done={flag!r}", trace=tr)
            if key.endswith("idle-always-dodoer"):
                continue
            return
    ctx.count("runs_with_runtime_extend_flags_judged")


def run_case(case, ctx):
    if case.get("kind") == "float-limit-tie":
        return run_float_tie(case, ctx)
    if case.get("kind") == "real-limit":
        return run_real_limit(case, ctx)
    prog = case["prog"]
    dyadic = prog.get("dyadic", True)
    if prog.get("runner") == "ado":
        ctx.count("runs_through_ado")
    dynamic = bool(prog.get("pool"))
    if dynamic:
        return run_flags_only(case, ctx)
    try:
        model = cycle.Model(prog, "own", dyadic).run()   # literal asap reading: completion cycle of nested runs
        model2 = cycle.Model(prog, "next", dyadic).run()
    except cycle.Ambiguous:
        ctx.count("ambiguous_skipped")
        return
    if model.done == "runaway" or model2.done == "runaway":
        ctx.count("model_runaway_skipped")
        return
    # build, pre-set stale flags, run (execute() builds internally, so replicate its steps)
    orig_build = sched.build

    def build_with_stale(p):
        r = orig_build(p)
        if p.get("stale_done"):
            preset_stale(r)
        return r
    sched.build = build_with_stale
    try:
        run = sched.execute(prog, max_cycles=max(model.ncycles, model2.ncycles) + 8)
    finally:
        sched.build = orig_build
    tr = sched.compact(run)
    if run.result[0] != "return":
        ctx.violation("run-did-not-return:" + str(run.result[1]), f"{run.result}", trace=tr)
        return
    ctx.count("runs_judged")
    if prog.get("noop_acts"):
        ctx.count("runs_with_membership_preserving_runtime_calls")
        ctx.count("membership_preserving_calls_made", sum(1 for e in run.trace if e[0] in ("ext-ret", "rem-ret")))
    start, tock, limit = prog["tyme"], prog["tock"], prog["limit"]
    # ---- reconstruct from the trace ------------------------------------------
    ncyc = 0
    last_completion_cycle = None
    tick_after = []
    alive = set()
    alive_at_end = None
    for kind, did, t, info in run.trace:
        if kind == "cycle":
            ncyc += 1
        elif kind == "tick":
            tick_after.append(info["after"])
        elif kind == "enter" and did != "doist":
            alive.add(did)
        elif kind == "exit" and did != "doist":
            alive.discard(did)
        elif kind == "clean":
            last_completion_cycle = ncyc
        elif kind == "sched-exit-begin":
            alive_at_end = set(alive)
    if alive_at_end is None:
        ctx.violation("no-scheduler-exit", "Doist.exit was never called by do()", trace=tr)
        return
    done = run.doist.done
    # ---- D1 / D2 --------------------------------------------------------------------
    if not limit:
        ctx.count("no_limit_runs")
        if done is not True:
            ctx.violation("no-limit-run-not-done", f"done={done!r}", trace=tr)
            return
        want = max(1, last_completion_cycle or 1)
        if ncyc != want:
            ctx.violation("no-limit-run-wrong-end-cycle",
                          f"last doer completed in cycle {last_completion_cycle}, run made {ncyc} cycles", trace=tr)
            return
        if alive_at_end:
            ctx.violation("no-limit-run-ended-with-alive-doers", f"{sorted(alive_at_end)}", trace=tr)
            return
    else:
        stop = start + limit
        # first cycle (1-based) whose end tyme >= start + L, judged on the real tick values
        if dyadic:
            kfirst = next((i + 1 for i, a in enumerate(tick_after) if a >= stop), None)
        else:
            kfirst = next((i + 1 for i, a in enumerate(tick_after) if a >= stop - 1e-9), None)
            near = any(abs(a - stop) < 1e-9 for a in tick_after)
            if near and not any(a == stop for a in tick_after):
                ctx.count("ambiguous_skipped")
                return
        completed_first = last_completion_cycle is not None and not alive_at_end and \
            (kfirst is None or max(1, last_completion_cycle) <= kfirst)
        if (limit / tock) % 1:
            ctx.count("limit_not_multiple_of_tock")
        if completed_first:
            want = max(1, last_completion_cycle)
            if ncyc != want or done is not True:
                ctx.violation("limit-run-completed-early-wrong-end",
                              f"all doers completed by cycle {last_completion_cycle} (limit cycle {kfirst}); "
                              f"run made {ncyc} cycles done={done!r}", trace=tr)
                return
        else:
            if kfirst is None or ncyc != kfirst:
                ctx.violation("limit-run-wrong-end-cycle",
                              f"start={start} L={limit} tock={tock}: first cycle with end tyme >= start+L is {kfirst}, "
                              f"run made {ncyc} cycles (tick values tail {tick_after[-3:]})", trace=tr)
                return
            if alive_at_end:
                ctx.count("limit_fired_with_alive")
                if done is not False:
                    ctx.violation("limit-run-done-true-with-alive-doers",
                                  f"alive at limit: {sorted(alive_at_end)}, done={done!r}", trace=tr)
                    return
            elif done is not True:
                ctx.violation("limit-run-done-false-all-completed", f"done={done!r}", trace=tr)
                return
    # model cross-check (completion cycle, done)
    if (ncyc, done) not in ((model.ncycles, model.done), (model2.ncycles, model2.done)):
        ctx.violation("end-differs-from-model", f"real cycles={ncyc} done={done!r}; model {model.ncycles} {model.done} "
                      f"(or {model2.ncycles} {model2.done})", trace=tr)
        return
    # ---- D3 / D4 flags -------------------------------------------------------------------
    terminal = {}
    for kind, did, t, info in run.trace:
        if kind in ("clean", "cease", "abort"):
            terminal[did] = kind
    completed = 0
    for did, st in run.state.items():
        if st.enters == 0:
            continue
        if st.flag_at_enter is not False:
            ctx.violation("done-not-false-at-enter", f"{did} ({run.specs[did]['kind']}) read done={st.flag_at_enter!r} "
                          f"inside its enter", trace=tr)
            return
        ctx.count("stale_true_reset_seen")
        flag = run.done_of(did)
        if terminal.get(did) == "clean":
            completed += 1
            ctx.count("self_completed_flags_checked")
            v = st.value
            ok = (flag is None or flag is False) if v is None else (flag == v and type(flag) is type(v))
            if not ok:
                ctx.violation("done-flag-not-returned-value", f"{did} ({run.specs[did]['kind']}) returned {v!r}, "
                              f"done flag is {flag!r}", trace=tr)
                return
        else:
            ctx.count("forced_closed_flags_checked")
            if flag:
                ctx.violation("done-truthy-after-forced-close", f"{did} ({run.specs[did]['kind']}) ended by "
                              f"{terminal.get(did)} but done={flag!r}", trace=tr)
                return
    ctx.seen("end_cycles", ncyc)
    ctx.seen("limit_over_tock", (limit / tock) if limit else None)
    if (limit and alive_at_end and completed) or completed >= 3:
        ctx.nontrivial([[(lf["kind"], lf.get("ys"), lf.get("end"), lf.get("enter"), lf.get("fin"))
                         for lf in gen_sched.leaves_of(prog["doers"])],
                        gen_sched.shape_sig(prog["doers"]), tock, start, limit])
        ctx.sample({"tock": tock, "start": start, "limit": limit, "cycles": ncyc, "done": done,
                    "alive_at_end": sorted(alive_at_end),
                    "flags": {d: repr(run.done_of(d)) for d in run.objs},
                    "returned": {d: repr(s.value) for d, s in run.state.items() if s.outcome == "returned"}})
