"""C30 - running under asyncio gives the same schedule as the plain loop.

Monitor shape: differential comparison of two executions of the real code: the same
program spec (fresh doer instances) is run with Doist.do() and with
asyncio.run(Doist.ado()); the complete recorded traces (every lifecycle event of
every doer with the tyme it saw, every cycle and tick, the forced-exit order), the
way the run ended (return / exception type), Doist.done and all done flags must be
identical.  In half of the cases a foreign asyncio task runs concurrently to show
that other loop activity does not perturb the schedule.
"""
import random

from vf import sched, gen_sched

ID = "C30"
LEVEL = "exploration"
TECHNIQUE = "differential comparison of complete event traces of two real executions (Doist.do vs asyncio.run(Doist.ado)) of the same generated program"
RULE = ("random programs as in C03/C05 (5 leaf kinds, nested tock-0 and tock>0 DoDoers, per-step yields, completion/limit, "
        "dyadic and non-dyadic numbers) plus exits by an exception raised in a doer's recur or enter; each run twice (do, ado; "
        "ado with a concurrent foreign task in half of the cases). Non-trivial = >= 2 doers, >= 3 cycles and the run ended "
        "with forced exits or an exception, or >= 3 doers completing; distinct = by (program, exit path).")
LEVEL_TEXT = ("The two runners are compared event-for-event on every generated program; any divergence in order, tyme, "
              "completion cycle, flags or forced exits is a violation. Held on the program pairs observed.")
LEVEL_NOTE = "trusted: vf/sched.py recorder; asyncio's default event loop; non-real-time mode only"
ASSUMPTIONS = ["non-real-time mode (the statement's scope)", "a real SIGINT is not delivered (asyncio.run installs its own handler); a KeyboardInterrupt raised while a doer has control is compared"]
NSHARDS = {"quick": 8, "thorough": 16}
REQUIRE = {"pairs_with_temp_settings": 200, "temp_settings": 9, "zero_limit_pairs": 60, "second_runs_of_same_doist_compared": 150, "second_runs_ended_by_a_limit": 40, "kbint_in_doer_pairs": 60, "runtime_extend_remove_pairs": 200, "doers_passed_as_tuple_or_generator": 80, "pairs_compared": 1200, "events_compared": 50000, "exception_exits_compared": 150,
           "limit_exits_compared": 300, "with_foreign_task": 400}


def cases(tier, seed, shard, nshards):
    rng = random.Random(f"{seed}:C30:{shard}")
    n = (1600 if tier == "quick" else 40000) // nshards
    for _ in range(n):
        dyadic = rng.random() < 0.8
        prog = gen_sched.gen_prog(rng, dyadic=dyadic, nmax=7, depth=2, group_p=rng.choice([0.0, 0.35]),
                                  group_tocks=(0.0, 0.0, 0.5, 1.0) if dyadic else (0.0, 0.3), limit_p=0.4)
        fault = None
        r = rng.random()
        if r < 0.25:
            fault = gen_sched.add_fault(rng, prog)
        elif r < 0.35:
            # KeyboardInterrupt raised while a doer has control: both runners treat it as a forced shutdown and return
            fault = gen_sched.add_fault(rng, prog, kinds=("recur",), exc="KeyboardInterrupt")
        if prog.get("do_args"):
            prog["doers_as"] = rng.choice(["list", "tuple", "generator"])
        if rng.random() < 0.3:
            # runtime extend/remove issued by running doers against the Doist (same scripts for both runners)
            callers = [lf for lf in gen_sched.leaves_of(prog["doers"]) if lf.get("enter") == "ok"]
            members = [n_["id"] for n_ in prog["doers"]]
            if callers:
                ids = gen_sched.Ids()
                ids.n = 700
                pool = [gen_sched.gen_leaf(rng, ids, prog["tock"], dyadic=dyadic, forever_p=0.4) for _ in range(rng.randint(1, 2))]
                prog["pool"] = pool
                for _ in range(rng.randint(1, 3)):
                    caller = rng.choice(callers)
                    last = caller["end"][0] if caller.get("end") and caller["end"][1] == "return" else 4
                    k = rng.randint(1, max(1, last))
                    if rng.random() < 0.6:
                        act = ["extend", "doist", [rng.choice(pool)["id"]], False]
                    else:
                        act = ["remove", "doist", [rng.choice(members)], False]
                    caller.setdefault("acts", {}).setdefault(str(k), []).append(act)
                if prog["limit"] is None and gen_sched.needs_limit(prog["doers"] + pool):
                    prog["limit"] = prog["tock"] * 10 if dyadic else 2.05
        if prog["limit"] is None and not gen_sched.needs_limit(prog["doers"] + prog.get("pool", [])) and rng.random() < 0.5:
            prog["limit"] = rng.choice([0, 0.0, -0.0])      # a falsy limit means "no limit" for both runners
            prog["zero_limit"] = True
        if rng.random() < 0.25:
            # temp settings: Doist(temp=...) combined with do()/ado() called with or without temp=
            prog["temp_used"] = True
            prog["ctor_temp"] = rng.choice([None, True, False])
            if rng.random() < 0.7:
                prog["call_temp"] = rng.choice([None, True, False])
        second = None
        if fault is None and not prog.get("pool") and rng.random() < 0.35:
            # the same Doist object run a second time: what the first call left in it (a limit given in the call, the
            # tyme reached, the doers) governs the second call identically under both runners
            prog["do_args"] = True
            prog["doers_as"] = "list"
            if rng.random() < 0.7:
                prog["limit"] = prog["tock"] * rng.choice([2, 3, 5, 8])      # first call's own limit (often cuts run 1)
            prog["ctor_limit"] = rng.choice([None, None, prog["tock"] * 40])
            second = {}
            if rng.random() < 0.25:
                second["limit"] = prog["tock"] * rng.choice([4, 12])
            if rng.random() < 0.25:
                second["tyme"] = rng.choice([0.0, 8.0])
            if gen_sched.needs_limit(prog["doers"]) and prog["limit"] is None and prog["ctor_limit"] is None:
                prog["limit"] = prog["tock"] * 6
        yield {"prog": prog, "fault": fault, "foreign": rng.random() < 0.5, "second": second}


def canon(run):
    out = []
    for kind, did, t, info in run.trace:
        if kind == "post-gc":
            break
        out.append((kind, did, t, tuple(sorted((k, repr(v)) for k, v in info.items()))))
    return out


def differ(r1, r2, t1, t2):
    if r1.result != r2.result:
        return ("result", f"do: {r1.result} ado: {r2.result}")
    if t1 != t2:
        i = next((j for j, (a, b) in enumerate(zip(t1, t2)) if a != b), min(len(t1), len(t2)))
        return ("trace", f"first difference at event #{i}: do {t1[i:i+2]} ado {t2[i:i+2]} (lengths {len(t1)}/{len(t2)})")
    if r1.doist.done != r2.doist.done or r1.doist.tyme != r2.doist.tyme:
        return ("end-state", f"do done={r1.doist.done} tyme={r1.doist.tyme}; ado done={r2.doist.done} tyme={r2.doist.tyme}")
    f1 = {d: repr(r1.done_of(d)) for d in r1.objs}
    f2 = {d: repr(r2.done_of(d)) for d in r2.objs}
    if f1 != f2:
        return ("done-flags", f"do {f1} ado {f2}")
    return None


def run_case(case, ctx):
    prog = dict(case["prog"])
    budget = sched.cycle_budget(prog)
    p1 = dict(prog, runner="do")
    p2 = dict(prog, runner="ado")
    r1 = sched.execute(p1, max_cycles=budget)
    r2 = sched.execute(p2, max_cycles=budget, foreign_task=case.get("foreign", False))
    if r1.result[0] == "runaway" and r2.result[0] == "runaway":
        ctx.violation("non-termination:logical-cycle-budget-exceeded", f"both runners exceeded the cycle budget {budget}",
                      trace=sched.compact(r1)[-60:])
        return
    ctx.count("pairs_compared")
    if prog.get("temp_used"):
        ctx.count("pairs_with_temp_settings")
        ctx.seen("temp_settings", (prog.get("ctor_temp"), prog.get("call_temp", "absent")))
    if prog.get("zero_limit") and not prog.get("limit"):
        ctx.count("zero_limit_pairs")
    if (case.get("fault") or {}).get("exc") == "KeyboardInterrupt":
        ctx.count("kbint_in_doer_pairs")
    if prog.get("pool"):
        ctx.count("runtime_extend_remove_pairs")
    if prog.get("do_args") and prog.get("doers_as") in ("tuple", "generator"):
        ctx.count("doers_passed_as_tuple_or_generator")
    if case.get("foreign"):
        ctx.count("with_foreign_task")
        ctx.count("foreign_task_iterations", getattr(r2, "noise", 0))
    t1, t2 = canon(r1), canon(r2)
    ctx.count("events_compared", len(t1))
    if r1.result[0] == "raise":
        ctx.count("exception_exits_compared")
    elif prog.get("limit") and r1.doist.done is False:
        ctx.count("limit_exits_compared")
    bad = differ(r1, r2, t1, t2)
    if bad:
        ctx.violation("ado-differs-from-do:" + bad[0], bad[1],
                      trace=["DO"] + sched.compact(r1, 150) + ["ADO"] + sched.compact(r2, 150))
        return
    if case.get("second") is not None and r1.result[0] == "return":
        first = (sched.compact(r1, 60), sched.compact(r2, 60))
        kw = case["second"]
        r1 = sched.execute(p1, max_cycles=budget, again=r1, again_kwa=kw)
        r2 = sched.execute(p2, max_cycles=budget, again=r2, again_kwa=kw, foreign_task=case.get("foreign", False))
        ctx.evaluations += 1
        ctx.count("second_runs_of_same_doist_compared")
        if r1.result == ("return", False):
            ctx.count("second_runs_ended_by_a_limit")
        t1, t2 = canon(r1), canon(r2)
        ctx.count("events_compared", len(t1))
        bad = differ(r1, r2, t1, t2)
        if bad:
            ctx.violation("ado-differs-from-do:second-run-of-same-doist:" + bad[0], f"second call arguments {kw}: " + bad[1],
                          trace=["DO#1"] + first[0] + ["ADO#1"] + first[1] + ["DO#2"] + sched.compact(r1, 120) + ["ADO#2"] + sched.compact(r2, 120))
            return
    ncyc = sum(1 for e in r1.trace if e[0] == "cycle")
    doers = {e[1] for e in r1.trace if e[0] == "recur"}
    forced = [e[1] for e in r1.trace if e[0] == "cease"]
    cleans = [e[1] for e in r1.trace if e[0] == "clean"]
    ctx.seen("exit_paths", (r1.result[0], bool(forced), bool(prog.get("limit"))))
    if len(doers) >= 2 and ncyc >= 3 and (forced or r1.result[0] == "raise" or len(cleans) >= 3):
        ctx.nontrivial([prog["doers"], prog["tock"], prog["tyme"], prog["limit"], r1.result])
        ctx.sample({"prog_shape": gen_sched.shape_sig(prog["doers"]), "tock": prog["tock"], "limit": prog["limit"],
                    "fault": case.get("fault"), "result": r1.result, "cycles": ncyc, "forced_exit_order": forced,
                    "events": len(t1), "foreign_task": case.get("foreign")})
