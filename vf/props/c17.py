"""C17 - chunked transfer coding decodes exactly; chunk sizes that are not plain hex digits are rejected.

Monitor shape: reference model (vf.gen_http's chunked encoder / strict decoder) against the real code.
VALID class   body x division into chunks x extensions x trailers x size spelling (case, leading zeros) is encoded by the
              reference encoder and decoded by the real code along three paths: a loop over `httping.parseChunk` (fed whole
              and fragmented, with bytes of a next message behind it that must stay untouched), a `Respondent` and a
              `Requestant`.  Decoded (body, trailers) must equal what was encoded.  `packChunk(msg)` output must decode to
              msg through parseChunk and through the reference decoder.  (Chunk parms are compared as an observation only.)
INVALID class a chunk-size token that, after trimming spaces/tabs, is empty or has any non-HEXDIG must never give a
              `(size, ...)` result from parseChunk nor a decoded, non-errored body from Respondent/Requestant: it must raise
              or set `errored`.  So that a re-interpretation cannot hide behind a later "chunk end" error, the bytes after
              the size line are laid out to fit every size a lenient reader could make of the token (int(x,16), int(x,0),
              the hex digits alone; negative sizes too).  Tokens that are pure hex with surrounding blanks are not judged.
Violation keys (mechanisms):
  invalid-size-accepted:<sign-plus|sign-minus|0x-prefix|underscore|other>   an invalid size token was given a size
  valid:escape:<Exc>:<hio function>     decoding a valid encoding raised
  valid:<body|trailers|not-ended|rest>-mismatch:<path>    decoded value differs
  valid:size-misread                    a pure-hex size token decoded to another size
  packchunk:<what>                      packChunk output does not decode to its input
  stale-trailers-after-reuse            a REUSED Respondent/Requestant (keep-alive: makeParser(), with or without reinit())
                                        reports the trailers of an earlier message for a later message that has none
REUSE class   sequences of 2-4 messages on ONE parser object, as Client/Server reuse it: a chunked message with trailers
              followed by chunked-without-trailers, non-chunked, and chunked-with-other-trailers messages; delivered
              pipelined in one read and one message per read; body and `.trails` are judged PER MESSAGE.
"""
import itertools
import random

from hio.core.http import httping

from vf import gen_http as G
from vf.mon import http_parse as H

ID = "C17"
LEVEL = "exploration"
TECHNIQUE = "reference chunked encoder/decoder in lock-step with the real decoder paths; exhaustive enumeration of short chunk-size strings"
RULE = ("VALID: hostile bodies (CR, LF, last-chunk look-alikes, binary) x divisions into chunks (every division into <= 6 chunks "
        "for the listed short bodies, random divisions into 1-6 and occasionally up to 40 chunks otherwise) x extension sets "
        "(tokens, quoted strings with ';' '=') x trailer sets x size spellings; INVALID: every string of length <= 3 (quick) / "
        "<= 4 (thorough) over the alphabet 0-9 a f A F + - _ x X g . space, the statement's examples and random longer strings, "
        "as the chunk-size token; REUSE: keep-alive sequences of 2-4 messages on one reused Respondent/Requestant (chunked with "
        "trailers, then chunked without / non-chunked / chunked with other trailers), trailers judged per message. Non-trivial = a valid case with >= 2 chunks or extensions or trailers, or an invalid batch "
        "holding >= 1 invalid token; distinct = by (body length, chunk sizes, extension/trailer shape) or batch content.")
ASSUMPTIONS = [
    "valid encodings use CRLF framing, 1*HEXDIG sizes without surrounding blanks, token or quoted-string extension values, "
    "'Name: value' trailers with unique names",
    "invalid = after trimming SP/HTAB the size token is empty or has a non-HEXDIG; rejected = exception out of the decoder or errored set",
    "pure-hex tokens with surrounding blanks are neither required nor forbidden by the statement: not judged",
]
LEVEL_TEXT = ("All short size strings over a 22-character alphabet are enumerated completely and every listed short body in every "
              "division into <= 6 chunks; larger bodies/divisions/extension sets are sampled. Held on what was enumerated and sampled.")
LEVEL_NOTE = "trusted: vf.gen_http.chunk_encode / chunk_decode (each checks the other on every valid case)"
NSHARDS = {"quick": 16, "thorough": 16}
BUDGET_S = {"quick": 25, "thorough": 450}
_REQ = {"valid_encodings": 2500, "valid_decodes:parseChunk": 2500, "valid_decodes:Respondent": 1200,
        "valid_decodes:Requestant": 1200, "valid_with_extensions": 500, "valid_with_trailers": 500,
        "packchunk_roundtrips": 300, "invalid_tokens_judged": 8000, "invalid_rejected": 1000,
        "reference_decoder_crosschecks": 2500}
_REQ.update({"reuse_sequences": 150, "reuse_messages_judged": 400, "reuse_chunked_without_trailers_after_trailers": 100,
             "reuse_nonchunked_after_trailers": 100, "reuse_with_reinit": 40})
# the enumeration must be complete for the EXHAUSTIVE claim: 22 + 22^2 + 22^3 (+ 22^4) strings
REQUIRE = {"quick": dict(_REQ, size_tokens_enumerated=11154), "thorough": dict(_REQ, size_tokens_enumerated=245410)}
EXHAUSTIVE = {"quick": "all 11154 chunk-size strings of length 1-3 over the 22-character alphabet; all divisions into <= 6 chunks of 12 hostile bodies of length <= 7",
              "thorough": "all 245410 chunk-size strings of length 1-4 over the 22-character alphabet; all divisions into <= 6 chunks of 14 hostile bodies of length <= 9"}

ALPHABET = "0123456789afAF+-_xXg. "
EXAMPLES = ["-1", "+1", "-0", "+0", "0x1f", "0X1F", "1_000", "1_0", "-a", "+a", "0x10", "0x", "x10", "_1", "1_", "1__0", " +1", "+ 1",
            "1 0", "0b1", "0o7", "1e2", "1L", "1.0", "", " ", "\t", "\t1", "1\t", "\x0b1", "1\x0c", "\xd9\xa1", "\xb2", "g", "0g",
            "--1", "+-1", "0x-1", "-0x1", "+0x1", "0_1", "0x_1", "1,0", "0x1_0", "ffffffffffffffffffff_0", "-ffffffff"]
SHORT_BODIES = [b"a", b"\r\n", b"0\r\n", b"ab\r\ncd", b"0\r\n\r\n", b"\n\n\r\r", b"\x00\xff\r\n0", b"5\r\nhi\r\n", b"\r\n\r\n0\r\n", b";=;=",
                b"abcdefg", b"0000000", b"\r\n0\r\n\r\n\r\n", b"1\r\nX\r\n0\r\n"]
HEX = set("0123456789abcdefABCDEF")


def classify(tok):
    """'valid' | 'blank-padded' (not judged) | 'invalid'"""
    t = tok.strip(" \t")
    if t and all(c in HEX for c in t):
        return "valid" if t == tok else "blank-padded"
    return "invalid"


def form(tok):
    t = tok.strip(" \t\x0b\x0c")
    if t.startswith("+"):
        return "sign-plus"
    if t.startswith("-"):
        return "sign-minus"
    if t[:2].lower() == "0x":
        return "0x-prefix"
    if "_" in t:
        return "underscore"
    return "other"


def lenient_sizes(tok):
    """sizes a lenient reader might make of tok (test-layout heuristic only, never an oracle)"""
    out = []
    t = tok.strip()
    for f in (lambda: int(t, 16), lambda: int(t, 0), lambda: int(t, 10),
              lambda: int("".join(c for c in t if c in HEX), 16)):
        try:
            v = f()
        except (ValueError, TypeError):
            continue
        if v not in out and -70000 <= v <= 70000:
            out.append(v)
    return out


def layouts(tok):
    """byte strings `tok CRLF ...` in which a reader that accepts tok as size n finds a well-formed chunk"""
    t = G.s2b(tok)
    outs = [t + b"\r\n" + b"\r\n" * 8 + b"0\r\n\r\n"]          # fits every even size <= 14 and size 0
    for n in lenient_sizes(tok):
        if n > 0:
            outs.append(t + b"\r\n" + b"x" * n + b"\r\n0\r\n\r\n")
        elif n == 0:
            outs.append(t + b"\r\n\r\n")
        elif n <= -2:   # raw[:n] leaves the last |n| bytes: they must start with CRLF for the chunk to be "well-formed"
            outs.append(t + b"\r\nabc\r\n" + b"y" * (-n - 2))
    return outs


def cases(tier, seed, shard, nshards):
    rng = random.Random(f"{seed}:C17:{shard}")
    # ---- invalid class: exhaustive enumeration in batches, dealt round-robin to the shards
    maxlen = 3 if tier == "quick" else 4
    batch, b = [], 0
    for ln in range(1, maxlen + 1):
        for tup in itertools.product(ALPHABET, repeat=ln):
            batch.append("".join(tup))
            if len(batch) == 400:
                if b % nshards == shard:
                    yield {"kind": "sizes", "enumerated": True, "tokens": batch}
                batch, b = [], b + 1
    if batch and b % nshards == shard:
        yield {"kind": "sizes", "enumerated": True, "tokens": batch}
    if shard == 0:
        yield {"kind": "sizes", "enumerated": False, "tokens": EXAMPLES}
    nlong = (1600 if tier == "quick" else 48000) // nshards
    yield {"kind": "sizes", "enumerated": False,
           "tokens": ["".join(rng.choice(ALPHABET) for _ in range(rng.randint(5, 10))) for _ in range(nlong)]}
    # ---- valid class: every division of the short bodies
    bodies = [x for x in SHORT_BODIES if len(x) <= (7 if tier == "quick" else 9)]
    k = 0
    for body in bodies:
        for use_ext, use_tr in itertools.product([False, True], repeat=2):
            if k % nshards == shard:
                yield {"kind": "divisions", "body": G.b2s(body), "ext": use_ext, "tr": use_tr,
                       "seed": rng.randrange(1 << 30)}
            k += 1
    # ---- valid class: random
    nrand = (2400 if tier == "quick" else 64000) // nshards
    for _ in range(nrand):
        r = rng.random()
        maxlen_b = 40 if r < 0.6 else (300 if r < 0.95 else (1500 if tier == "quick" else 20000))
        body = G.gen_body(rng, maxlen_b)
        many = rng.random() < 0.1
        quoted = rng.random() < 0.3
        use_ext = rng.random() < 0.5
        use_tr = rng.random() < 0.5
        datas = G.split_body(rng, body, 40 if many else 6)
        chunks = [[G.size_token(rng, len(d)), G.gen_exts(rng, quoted) if use_ext else [], G.b2s(d)] for d in datas]
        last = [rng.choice(["0", "0", "00", "0000"]), G.gen_exts(rng, quoted) if use_ext else []]
        trailers = G.gen_trailers(rng) if use_tr else []
        enc = G.chunk_encode(chunks, last, trailers)
        yield {"kind": "valid", "body": G.b2s(body), "chunks": chunks, "last": last, "trailers": trailers,
               "cuts": G.random_cuts(rng, len(enc), rng.choice([1, 2, 5, 17, len(enc)])),
               "tail": rng.choice(["", "GET /next HTTP/1.1\r\n", "0\r\n\r\n", "5\r\n"])}
    # ---- reuse of one parser object over a keep-alive sequence
    nreuse = (320 if tier == "quick" else 3200) // nshards
    for j in range(nreuse):
        kind = rng.choice(["response", "request"])
        gen = G.gen_response if kind == "response" else G.gen_request
        shape = [["T", "c"], ["T", "n"], ["T", "c", "n", "T"], ["T", "n", "c"], ["T", "c", "T", "c"]][j % 5]
        msgs = []
        for what in shape:
            o = dict(version="1.1", persist=True, maxbody=rng.choice([0, 12, 60]), eol=rng.choice(["crlf", "crlf", "lf"]))
            if what == "T":
                d = gen(rng, framing="chunked", trailers=True, **o)
                if not d["trailers"]:
                    d["trailers"] = [["X-T" + str(len(msgs)), "v%d" % rng.randrange(1000)]]
                    d["raw"] = G.b2s(G.encode(d))
            elif what == "c":
                d = gen(rng, framing="chunked", trailers=False, **o)
            else:
                d = gen(rng, framing="length", **o)
            msgs.append(d)
        yield {"kind": "reuse", "role": kind, "msgs": msgs, "delivery": ["pipelined", "per-message"][j % 2],
               "reinit": j % 4 == 3}
    # ---- packChunk
    npack = (640 if tier == "quick" else 6400) // nshards
    for _ in range(npack):
        yield {"kind": "pack", "msgs": [G.b2s(G.gen_body(rng, rng.choice([1, 8, 40, 300, 5000]))) for _ in range(rng.randint(1, 4))]}


# --------------------------------------------------------------------------
# real decoder paths
# --------------------------------------------------------------------------
def decode_loop(data, cuts=()):
    """drive httping.parseChunk over data the way parseBody does -> dict(done, body, trails, parms, rest, raised)"""
    raw = bytearray()
    out = {"done": False, "body": bytearray(), "trails": None, "parms": {}, "raised": None, "results": 0}
    gen = httping.parseChunk(raw)
    try:
        for piece in G.pieces(bytes(data), list(cuts)):
            raw.extend(piece)
            if out["done"]:  # what follows the chunked body is not the decoder's
                continue
            for _ in range(len(data) + 4):
                r = next(gen)
                if r is None:
                    break
                gen.close()
                out["results"] += 1
                size, parms, trails, chunk = r
                out["parms"].update(parms)
                if not size:
                    out["done"] = True
                    out["trails"] = [[k, v] for k, v in trails.items()]
                    break
                out["body"].extend(chunk)
                gen = httping.parseChunk(raw)
    except Exception as ex:
        out["raised"] = [type(ex).__name__, H.hio_function(ex), str(ex)[:160]]
    out["rest"] = bytes(raw)
    out["body"] = bytes(out["body"])
    return out


RESP_HEAD = b"HTTP/1.1 200 OK\r\nTransfer-Encoding: chunked\r\n\r\n"
REQ_HEAD = b"POST /u HTTP/1.1\r\nHost: h\r\nTransfer-Encoding: chunked\r\n\r\n"


def first_token(data):
    return bytes(data).split(b"\r\n", 1)[0].split(b";", 1)[0]


def check_valid(ctx, body, trailers, enc, cuts, tail, has_ext, want_parms):
    """decode enc (a valid encoding of body/trailers) along the three real paths"""
    ref = G.chunk_decode(enc + tail)
    if ref[0] != body or ref[1] != [list(t) for t in trailers] or ref[3] != tail:
        raise AssertionError(f"reference decoder disagrees with reference encoder: {ref} vs {body!r} {trailers}")
    ctx.count("reference_decoder_crosschecks")
    ctx.count("valid_encodings")
    if has_ext:
        ctx.count("valid_with_extensions")
    if trailers:
        ctx.count("valid_with_trailers")
    ok = True
    for path in ("parseChunk", "parseChunk:fragmented", "Respondent", "Requestant"):
        if path.startswith("parseChunk"):
            d = decode_loop(enc + tail, cuts if path.endswith("fragmented") else ())
            got = {"raised": d["raised"], "ended": d["done"], "body": d["body"], "trails": d["trails"] or [], "rest": d["rest"]}
            parms = {H._txt(k): H._txt(v) for k, v in d["parms"].items()}
            ctx.count("valid_decodes:parseChunk")
        else:
            kind = "response" if path == "Respondent" else "request"
            res = H.feed(kind, [(RESP_HEAD if kind == "response" else REQ_HEAD) + enc], False, "GET")
            m = res["msgs"][0] if res["msgs"] else None
            got = {"raised": res["raised"], "ended": bool(m) and not m["errored"], "body": G.s2b(m["body"]) if m else None,
                   "trails": (m["trails"] or []) if m else None, "rest": G.s2b(res["left"])}
            if m and m["errored"]:
                got["raised"] = ["errored", "parseMessage", str(m["error"])]
            parms = (m["parms"] or {}) if m else {}
            ctx.count("valid_decodes:" + path)
        what = None
        if got["raised"]:
            ctx.violation(f"valid:escape:{got['raised'][0]}:{got['raised'][1]}",
                          f"{path}: decoding a valid chunked body raised {got['raised']}; encoding={enc[:300]!r}")
            ok = False
            continue
        if not got["ended"]:
            what = "not-ended"
        elif got["body"] != body:
            what = "body"
        elif got["trails"] != [list(t) for t in trailers]:
            what = "trailers"
        elif path.startswith("parseChunk") and got["rest"] != tail:
            what = "rest"
        elif not path.startswith("parseChunk") and got["rest"]:
            what = "rest"
        if what:
            ok = False
            ctx.violation(f"valid:{what}-mismatch:{path.split(':')[0]}",
                          f"{path}: decoded {what}={got.get(what if what != 'trailers' else 'trails')!r} ended={got['ended']} "
                          f"but encoded body={body[:120]!r} trailers={trailers}; encoding={enc[:300]!r} cuts={list(cuts)[:10]}")
        elif want_parms is not None:
            ctx.count("parms_as_encoded(observed-only)" if parms == want_parms else "parms_differ(observed-only)")
    return ok


def run_sizes(case, ctx):
    judged = 0
    for tok in case["tokens"]:
        if case["enumerated"]:
            ctx.count("size_tokens_enumerated")
        cls = classify(tok)
        ctx.count("size_tokens:" + cls)
        if cls == "blank-padded":
            continue
        if cls == "valid":
            n = int(tok, 16)
            if n > 70000:
                continue
            enc = G.s2b(tok) + b"\r\n" + (b"z" * n + b"\r\n0\r\n\r\n" if n else b"\r\n")
            d = decode_loop(enc)
            ctx.count("valid_size_tokens_decoded")
            if d["raised"] or not d["done"] or d["body"] != b"z" * n or d["rest"]:
                ctx.violation("valid:size-misread", f"size token {tok!r} (= {n}) followed by {n} bytes decoded to "
                                                    f"done={d['done']} len={len(d['body'])} raised={d['raised']} rest={d['rest'][:40]!r}")
            continue
        judged += 1
        ctx.count("invalid_tokens_judged")
        accepted = None
        for data in layouts(tok):
            d = decode_loop(data)
            ctx.count("invalid_decodes:parseChunk")
            if d["results"] and first_token(data) == G.s2b(tok):
                accepted = ("parseChunk", f"yielded {d['results']} chunk result(s), body={d['body'][:40]!r} done={d['done']}", data)
                break
            for kind, hd in (("response", RESP_HEAD), ("request", REQ_HEAD)):
                res = H.feed(kind, [hd + data], False, "GET")
                ctx.count("invalid_decodes:" + kind)
                m = res["msgs"][0] if res["msgs"] else None
                if m and not m["errored"]:
                    accepted = ("Respondent" if kind == "response" else "Requestant",
                                f"ended without error, body={m['body'][:40]!r}", data)
                    break
                if not m and not res["raised"] and res["open"] and res["open"]["body"]:
                    accepted = ("Respondent" if kind == "response" else "Requestant",
                                f"decoded body {res['open']['body'][:40]!r} and waits for more", data)
                    break
            if accepted:
                break
        if accepted:
            ctx.count("invalid_accepted")
            ctx.violation("invalid-size-accepted:" + form(tok),
                          f"chunk-size token {tok!r} is not 1*HEXDIG but {accepted[0]} {accepted[1]}; bytes={accepted[2][:80]!r}")
        else:
            ctx.count("invalid_rejected")
    if judged:
        ctx.nontrivial(["sizes", case["tokens"][0], case["tokens"][-1], len(case["tokens"])])
        ctx.seen("invalid_batches", case["tokens"][:3])
    if not case["enumerated"] and len(case["tokens"]) < 100:
        ctx.sample({"tokens": case["tokens"][:12], "judged_invalid": judged})


def run_reuse(case, ctx):
    """one parser object over a keep-alive sequence, driven as Client.serviceResponse / Server.serviceReps drive it"""
    role, msgs = case["role"], case["msgs"]
    raws = [G.s2b(d["raw"]) for d in msgs]
    p = H.new_parsent(role, "GET")
    pieces = [b"".join(raws)] if case["delivery"] == "pipelined" else raws
    snaps = []
    ctx.count("reuse_sequences")
    if case["reinit"]:
        ctx.count("reuse_with_reinit")
    try:
        for piece in pieces:
            p.msg.extend(piece)
            for _ in range(len(msgs) + 2):
                if p.parser is None:
                    if not p.msg:
                        break
                    if case["reinit"]:       # what Client.request does before the next exchange
                        p.reinit(method="GET") if role == "response" else p.reinit()
                    p.makeParser()
                p.parse()
                if p.parser is not None:
                    break
                snaps.append(H.snapshot(p, role))
    except Exception as ex:
        ctx.violation(f"valid:escape:{type(ex).__name__}:{H.hio_function(ex)}",
                      f"reuse sequence ({role}, {case['delivery']}): parse raised {ex!r} at message {len(snaps)}")
        return
    earlier = []
    who = "Respondent" if role == "response" else "Requestant"
    for i, d in enumerate(msgs):
        if i >= len(snaps):
            ctx.violation(f"valid:not-ended-mismatch:{who}-reuse",
                          f"message {i} of {len(msgs)} on a reused parser never ended; bytes={raws[i][:200]!r}")
            return
        s = snaps[i]
        ctx.count("reuse_messages_judged")
        want = [list(t) for t in d.get("trailers", [])] if d["framing"] == "chunked" else []
        got = s["trails"] or []
        if earlier and not want:
            ctx.count("reuse_chunked_without_trailers_after_trailers" if d["framing"] == "chunked" else "reuse_nonchunked_after_trailers")
        if s["errored"] or s["body"] != d["body"]:
            ctx.violation(f"valid:body-mismatch:{who}-reuse", f"message {i} on a reused {who}: body {s['body'][:60]!r} errored={s['errored']} "
                                                              f"error={s['error']!r}, encoded {d['body'][:60]!r}")
        elif got != want:
            if not want and got in earlier:
                ctx.violation("stale-trailers-after-reuse",
                              f"message {i} ({d['framing']}, no trailers) on a reused {who} ({case['delivery']}, reinit={case['reinit']}) "
                              f"reports .trails={got} - the trailers of message {earlier.index(got)} of the same connection; "
                              f"bytes of this message={raws[i][:160]!r}")
            else:
                ctx.violation(f"valid:trailers-mismatch:{who}-reuse", f"message {i} ({d['framing']}) on a reused {who}: .trails={got}, encoded {want}; "
                                                                      f"earlier trailers on this parser: {earlier}")
        if want:
            earlier.append(want)
    sig = ["reuse", role, case["delivery"], case["reinit"], [[d["framing"], bool(d.get("trailers"))] for d in msgs]]
    ctx.seen("valid_shapes", sig)
    ctx.nontrivial(sig)


def run_case(case, ctx):
    kind = case["kind"]
    if kind == "sizes":
        return run_sizes(case, ctx)
    if kind == "reuse":
        return run_reuse(case, ctx)
    if kind == "pack":
        msgs = [G.s2b(m) for m in case["msgs"]]
        try:
            enc = b"".join(httping.packChunk(m) for m in msgs if m) + httping.packChunk(b"")
        except Exception as ex:
            ctx.violation(f"packchunk:escape:{type(ex).__name__}", f"packChunk raised {ex!r}")
            return
        want = b"".join(msgs)
        ctx.count("packchunk_roundtrips")
        d = decode_loop(enc)
        if d["raised"] or not d["done"] or d["body"] != want or d["rest"]:
            ctx.violation("packchunk:parsechunk-roundtrip-mismatch",
                          f"packChunk of {len(msgs)} msgs decodes to done={d['done']} raised={d['raised']} "
                          f"body={d['body'][:80]!r} expected {want[:80]!r}")
        try:
            ref = G.chunk_decode(enc)
            if ref[0] != want or ref[3]:
                raise ValueError(f"decoded {ref[0][:60]!r}")
        except ValueError as ex:
            ctx.violation("packchunk:not-valid-chunked-coding", f"reference decoder on packChunk output: {ex}; enc={enc[:120]!r}")
        if len(msgs) > 1:
            ctx.nontrivial(["pack", [len(m) for m in msgs]])
        return
    if kind == "divisions":
        body = G.s2b(case["body"])
        rng = random.Random(case["seed"])
        maxparts = 6
        ndiv = 0
        for parts in G.compositions(len(body), maxparts):
            pos, chunks = 0, []
            for sz in parts:
                chunks.append([G.size_token(rng, sz), G.gen_exts(rng) if case["ext"] else [], G.b2s(body[pos:pos + sz])])
                pos += sz
            last = ["0", G.gen_exts(rng) if case["ext"] else []]
            trailers = G.gen_trailers(rng) if case["tr"] else []
            if case["tr"] and not trailers:
                trailers = [["X-T", "v"]]
            enc = G.chunk_encode(chunks, last, trailers)
            has_ext = any(c[1] for c in chunks) or bool(last[1])
            check_valid(ctx, body, trailers, enc, G.all_one_byte(len(enc)), b"", has_ext, None)
            ndiv += 1
            ctx.count("divisions_enumerated")
        ctx.nontrivial(["divisions", case["body"], case["ext"], case["tr"]])
        ctx.seen("valid_shapes", ["div", case["body"], case["ext"], case["tr"]])
        return
    # random valid
    body = G.s2b(case["body"])
    enc = G.chunk_encode(case["chunks"], case["last"], case["trailers"])
    has_ext = any(c[1] for c in case["chunks"]) or bool(case["last"][1])
    want_parms = {}
    for c in case["chunks"] + [[None] + [case["last"][1]]]:
        for n, v in c[1]:
            want_parms[n] = v
    simple = all('"' not in (v or "") for v in want_parms.values())
    ok = check_valid(ctx, body, case["trailers"], enc, case["cuts"], G.s2b(case["tail"]), has_ext,
                     want_parms if simple else None)
    shape = [len(body), [len(c[2]) for c in case["chunks"]][:8], has_ext, bool(case["trailers"])]
    ctx.seen("valid_shapes", shape)
    if len(case["chunks"]) >= 2 or has_ext or case["trailers"]:
        ctx.nontrivial(shape)
    if ok and has_ext and case["trailers"] and len(case["chunks"]) >= 2:
        ctx.sample({"encoding": enc[:300], "body": body[:80], "trailers": case["trailers"], "paths": 4})
