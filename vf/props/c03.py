"""C03 - virtual-time scheduling follows the documented cycle model.

Monitor shape: reference model in lock-step (offline over the recorded trace).
The real Doist/DoDoer/Doer code runs a generated static doer forest; every recur
step records (cycle, doer, tyme sent, tymth() seen), every Tymist.tick records
before/after.  vf/models/cycle.py predicts the same from the program spec in
exact rationals.  Judged:
  T1 every tick advances tyme by exactly one tock
  T2 per cycle the sequence of doers that recur equals the model's (due set, enter order, at most once each)
  T3 tyme sent == tymth() seen == start + k*tock
Dyadic domain (all numbers multiples of 1/64): equality is exact.  Non-dyadic
domain (0.1, 1/3, 0.7 ...): model in rationals with a float shadow; a case whose
deciding comparison is within 1e-9 of a tie is *ambiguous*: skipped and counted.
"""
import random

from vf import sched, gen_sched
from vf.models import cycle

ID = "C03"
LEVEL = "exploration"
TECHNIQUE = "lock-step reference model (exact-rational cycle scheduler) over recorded recur/tick traces of the real Doist/DoDoer"
RULE = ("random static doer forests (5 leaf kinds, tock-0 DoDoers nested to depth 3, <= 8 leaves) with per-step yielded "
        "tocks (0, None, fractions and multiples of the scheduler tock, non-dyadic floats), scheduler tock/start tyme from "
        "a dyadic and a non-dyadic set, completion by return or limit. Non-trivial = >= 2 doers recurred, >= 3 cycles and "
        "at least one positive yielded tock took effect; distinct = by (forest shape, yields, ends, tock, start, limit).")
LEVEL_TEXT = ("Every recorded recur step and tick of each generated run is compared with an independent reference scheduler; "
              "thousands of forests and yield scripts per run. Held on the executions observed; no claim beyond the bounds "
              "(<= 8 leaves, depth <= 3, <= ~150 cycles).")
LEVEL_NOTE = "trusted: the reference model in vf/models/cycle.py (its reading of 'runs again in the next cycle'), CPython float semantics"
ASSUMPTIONS = ["static doer sets (extend/remove are C06), except one family that removes running siblings once and judges only the within-cycle order and completeness of the survivors", "non-real-time mode",
               "non-dyadic cases closer than 1e-9 to a scheduling tie are skipped as ambiguous and counted"]
NSHARDS = {"quick": 8, "thorough": 16}
REQUIRE = {"runs_through_ado_with_call_tyme": 300, "runs_with_extend_of_present_doers_from_inside_a_recur": 150, "removal_order_cases": 150, "cycles_order_checked_around_removal": 800, "recur_steps_compared": 5000, "ticks_checked": 2000, "nested_cases": 100, "nondyadic_judged": 50,
           "positive_tock_steps": 500}


def removal_case(rng):
    """Every-cycle doers (yield 0/None for ever) under the Doist or under one tock-0 DoDoer; one of them removes a set of
    running siblings at step k.  Decided without a model: from then on every cycle runs exactly the survivors, once each,
    in enter order (the removal cycle itself: the survivors that had not run yet)."""
    prog = gen_sched.gen_prog(rng, dyadic=True, nmax=7, depth=0, group_p=0.0, leaf_kw={"forever_p": 1.0})
    leaves = list(gen_sched.leaves_of(prog["doers"]))
    while len(leaves) < 4:
        return None
    for lf in leaves:
        lf["enter"], lf["end"], lf["ys"] = "ok", None, [rng.choice([0.0, None])]
        lf.pop("acts", None)
    ctl = rng.choice(leaves)
    others = [lf["id"] for lf in leaves if lf is not ctl]
    victims = rng.sample(others, rng.randint(1, len(others) - 1))
    k = rng.randint(1, 4)
    sid = "doist"
    if rng.random() < 0.5:
        sid = "G90"
        prog["doers"] = [{"id": "G90", "kind": "dodoer", "tock": 0.0, "always": False, "doers": prog["doers"]}]
    ctl["acts"] = {str(k): [["remove", sid, victims, False]]}
    prog["limit"] = prog["tock"] * (k + rng.randint(3, 6))
    prog["pool"] = []
    return {"prog": prog, "kind": "order-after-removal", "order": [lf["id"] for lf in leaves], "victims": victims,
            "ctl": ctl["id"], "sched": sid}


def run_removal(case, ctx):
    prog = case["prog"]
    run = sched.execute(prog, max_cycles=sched.cycle_budget(prog))
    tr = sched.compact(run, 160)
    if run.result[0] != "return":
        ctx.violation("run-did-not-return:" + str(run.result[1]), f"{run.result}", trace=tr)
        return
    order, victims = case["order"], set(case["victims"])
    survivors = [i for i in order if i not in victims]
    cycles, removed_at = [], None
    for kind, did, t, info in run.trace:
        if kind == "cycle":
            cycles.append([])
        elif kind == "recur" and did in order and cycles:
            cycles[-1].append(did)
        elif kind == "rem-ret" and removed_at is None:
            removed_at = len(cycles) - 1
    if removed_at is None:
        ctx.harness_error("removal never happened")
        return
    ctx.count("removal_order_cases")
    for ci, ran in enumerate(cycles):
        if ci < removed_at:
            want = order
        elif ci == removed_at:
            pos = order.index(case["ctl"])
            want = order[:pos + 1] + [i for i in order[pos + 1:] if i not in victims]
        else:
            want = survivors
        ctx.count("cycles_order_checked_around_removal")
        if ran != want:
            ctx.violation("order-after-removal:" + ("removal-cycle" if ci == removed_at else "later-cycle" if ci > removed_at else "before"),
                          f"scheduler {case['sched']}: enter order {order}, {case['ctl']} removed {sorted(victims)} in cycle "
                          f"{removed_at + 1}; cycle {ci + 1} ran {ran}, expected {want}", trace=tr)
            return


def cases(tier, seed, shard, nshards):
    rng = random.Random(f"{seed}:C03:{shard}")
    n = (3200 if tier == "quick" else 100000) // nshards
    for _ in range(n // 8):
        c = removal_case(rng)
        if c:
            yield c
    for i in range(n):
        dyadic = rng.random() < 0.8
        prog = gen_sched.gen_prog(rng, dyadic=dyadic, nmax=8, depth=3,
                                  group_p=rng.choice([0.0, 0.3, 0.5]), group_tocks=(0.0,))
        r = rng.random()
        if r < 0.25:
            # the asyncio entry point with the start tyme given in the call and a different (stale) tyme on the Doist
            prog["runner"] = "ado"
            prog["do_args"] = True
            prog["ctor_tyme"] = rng.choice([0.0, prog["tyme"] + 4.0, 64.0])
        elif r < 0.40:
            # a top-level doer asks the Doist, from inside its own recur, to "keep these scheduled": every named doer is
            # present already (itself / all members), so the doer set and the schedule stay what the model predicts
            tops = [n_ for n_ in prog["doers"] if n_["kind"] != "dodoer" and n_.get("enter") == "ok"]
            if tops:
                caller = rng.choice(tops)
                last = caller["end"][0] if caller.get("end") else 4
                caller.setdefault("acts", {})[str(rng.randint(1, last))] = \
                    [["extend", "doist", [rng.choice(["@self", "@members"])], False]]
                prog["present_extend"] = True
        yield {"prog": prog}


def extract(run):
    """-> (recurs [(cycle, id, sent, seen)], ticks [(before, after)], ncycles)"""
    recurs, ticks = [], []
    cyc = -1
    for kind, did, t, info in run.trace:
        if kind == "cycle":
            cyc += 1
        elif kind == "recur":
            recurs.append((cyc, did, info["sent"], info["seen"]))
        elif kind == "tick":
            ticks.append((info["before"], info["after"]))
    return recurs, ticks, cyc + 1


def close(a, b, dyadic):
    if dyadic:
        return a == b
    return abs(float(a) - float(b)) <= 1e-9 * max(1.0, abs(float(b)))


def compare(run, model, dyadic):
    """None if the trace equals the model, else a short description of the first difference."""
    recurs, ticks, ncyc = extract(run)
    mrec = model.recurs
    for i, (c, did, sent, seen) in enumerate(recurs):
        if i >= len(mrec):
            return f"extra recur #{i}: cycle {c} {did}@{sent}; model has only {len(mrec)} steps"
        mk, mid, mt = mrec[i]
        if (c, did) != (mk, mid):
            return f"recur #{i}: real cycle {c} {did}@{sent}, model cycle {mk} {mid}@{float(mt)}"
        if not close(sent, mt, dyadic) or sent != seen:
            return f"recur #{i} {did}: sent={sent} seen={seen} model tyme={float(mt)}"
    if len(recurs) < len(mrec):
        mk, mid, mt = mrec[len(recurs)]
        return f"missing recur #{len(recurs)}: model cycle {mk} {mid}@{float(mt)} (real run had {len(recurs)} steps)"
    return None


def run_case(case, ctx):
    if case.get("kind") == "order-after-removal":
        return run_removal(case, ctx)
    prog = case["prog"]
    dyadic = prog.get("dyadic", True)
    try:
        model = cycle.Model(prog, "next", dyadic).run()
    except cycle.Ambiguous:
        ctx.count("ambiguous_skipped")
        return
    if model.done == "runaway":
        ctx.count("model_runaway_skipped")
        return
    run = sched.execute(prog, max_cycles=model.ncycles + 8)
    recurs, ticks, ncyc = extract(run)
    if run.result[0] != "return":
        ctx.violation("run-did-not-return:" + str(run.result[1]),
                      f"model predicts normal return after {model.ncycles} cycles, real run: {run.result}",
                      trace=sched.compact(run))
        return
    tock = prog["tock"]
    for before, after in ticks:
        ctx.count("ticks_checked")
        if not close(after, before + tock, dyadic):
            ctx.violation("tick-not-one-tock", f"tick {before} -> {after} with tock {tock}", trace=sched.compact(run))
            return
    # independent of the model: at most one recur per doer per cycle
    seen = set()
    for c, did, sent, sn in recurs:
        if (c, did) in seen:
            ctx.violation("recur-twice-in-cycle", f"{did} recurred twice in cycle {c}", trace=sched.compact(run))
            return
        seen.add((c, did))
    ctx.count("recur_steps_compared", len(recurs))
    diff = compare(run, model, dyadic)
    if diff:
        # The statement does not say what the "previous due tyme" of a doer is after it yielded 0/None
        # *inside a tock-0 DoDoer* (flat Doist: the next cycle's tyme; DoDoer.recur: the current tyme).
        # Both readings satisfy every sentence of C03, so a nested run that matches the second reading is
        # not judged here (it is counted); the difference IS a violation of C04 (transparency) and is
        # reported there.
        alt_ok = False
        if any(n["kind"] == "dodoer" for n in prog["doers"]):
            try:
                alt = cycle.Model(prog, "own", dyadic).run()
                alt_ok = compare(run, alt, dyadic) is None
            except cycle.Ambiguous:
                ctx.count("ambiguous_skipped")
                return
        if not alt_ok:
            ctx.violation("schedule-mismatch", diff, trace=sched.compact(run))
            return
        ctx.count("nested_runs_matching_only_the_own_tock_asap_reading")
    nested = any(n["kind"] == "dodoer" for n in prog["doers"])
    if prog.get("runner") == "ado":
        ctx.count("runs_through_ado_with_call_tyme")
    if prog.get("present_extend"):
        ctx.count("runs_with_extend_of_present_doers_from_inside_a_recur")
    if nested:
        ctx.count("nested_cases")
    if not dyadic:
        ctx.count("nondyadic_judged")
    pos = sum(1 for lf in gen_sched.leaves_of(prog["doers"]) for y in (lf.get("ys") or []) if y)
    ctx.count("positive_tock_steps", pos)
    ctx.seen("cycles_per_run", model.ncycles)
    ctx.seen("forest_shapes", gen_sched.shape_sig(prog["doers"]))
    doers = {r[1] for r in recurs}
    if len(doers) >= 2 and model.ncycles >= 3 and pos:
        ctx.nontrivial([gen_sched.shape_sig(prog["doers"]),
                        [(lf.get("ys"), lf.get("end"), lf.get("tock")) for lf in gen_sched.leaves_of(prog["doers"])],
                        prog["tock"], prog["tyme"], prog["limit"]])
        ctx.sample({"prog": prog, "cycles": model.ncycles, "trace_head": sched.compact(run, 40)})
