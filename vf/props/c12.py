"""C12 - idle HTTP connections time out after the server's configured tymeout (virtual time).

Monitor shape: trace oracle over virtual time + invariant at a hook.

The harness owns the clock: a `hio.base.tyming.Tymist` that only the harness ticks; the real
`hio.core.http.serving.Server` (WSGI, plain or TLS servant) or `BareServer` is constructed with that
tymist's `tymth` (or wound to it afterwards).  Clients are raw sockets owned by the harness.  The
socket ledger (`vf.mon.ledger`) taps every successful `recv`/`send` on the server-side socket of each
connection (a *traffic event*, stamped with the virtual tyme) and records which hio call chain closed it.

After EVERY `server.service()` call, for every connection, with T = configured tymeout, a0 = tyme at
which the connection entered `servant.ixes`, n = traffic events seen before this call:

  (a) non-persistent connection (no bytes at all / incomplete request / HTTP/1.0 / Connection: close):
      if tyme >= a0 + (n+1)*T and the server-side socket is still open -> violation.
      This is the loosest deadline the statement supports: the statement gives no deadline; the
      tree's refresh is a lossless `Tymer.restart()` (deadline moves by T per traffic event) and
      last_traffic + T <= a0 + (n+1)*T always, so both readings are accepted.  Missing the tight
      deadline last_traffic + T is only counted (`tight_deadline_missed_obs`).
  (b) a connection closed by the idle check (closing chain goes through serviceConnects, remoter
      not cut off) although every gap between accept / consecutive traffic events / now is < T
      -> violation.
  (c) hook invariant: every Remoter in servant.ixes/.cxes of a server with tymeout T > 0 has
      `tymeout == T` until the harness has sent a complete persistent request head on that
      connection.  tymeout == 0.0 means `ix.tymeout > 0.0 and ix.tymer.expired` can never be true:
      the connection provably never times out, no waiting needed.

Everything is decided on virtual tyme and service rounds; wall-clock is never read.
"""
import math
import os
import random
import select
import socket
import ssl

from hio.base import tyming
from hio.core.tcp import serving as tcpserving
from hio.core.http import serving as httpserving
from hio.core import wiring

from vf import env
from vf.mon import ledger as ledgermod
from vf.mon.ledger import Ledger, Ports, HarnessError

ID = "C12"
LEVEL = "exploration"
PEAK_COUNTERS = ("max_extra_rounds_for_stalled_reader",)
TECHNIQUE = ("virtual-time trace oracle: harness-ticked Tymist, real http Server/BareServer wound to it, raw client "
             "sockets; per service() call the loosest idle deadline a0+(n+1)T, the no-idle-close-while-active rule and "
             "the hook invariant Remoter.tymeout == server tymeout are evaluated from socket-level traffic/close taps")
RULE = ("cases = configuration x activity schedules. configuration: {WSGI Server over plain servant, WSGI Server over "
        "TLS servant, BareServer} x tymth given to the constructor or by wind() x tock in {1/32, 1/8, 1/4, 1} x "
        "T/tock in {0.5, 1, 1.5, 2, 3, 4, 6, 8}. 1-4 connections per case, each with a schedule from {never any "
        "byte, one early fragment, burst of fragments, periodic single bytes of an unfinished head with period <T, =T, "
        ">T, HTTP/1.0 POST head then body dribbled with period <T, complete HTTP/1.0 request, HTTP/1.1 Connection: close "
        "request, HTTP/1.0 request to an application that never answers, non-persistent request for a response of 2*tcp_wmem_max+2 MiB "
        "whose reader stalls (small pinned receive buffer, never reads: every later send would-blocks), non-persistent request whose response the application streams for k*T (k in 2..8, a send every p "
        "tocks, p*tock < T) while the client only reads, with and without a WireLog on the servant, persistent HTTP/1.1 request (exempt after its "
        "head), client closes}. Schedule keepalive_then_close: a keep-alive request, 5-9 tymeouts of silence, then a non-persistent "
        "request (Connection: close or HTTP/1.0) on the same connection that needs several service passes (body split, "
        "head then body, body trickled byte-wise, multi-pass streaming app); from that head on clauses (a)/(b) apply again. "
        "A quarter of the cases (plus a fixed grid) REWIND the server in mid-run: server.wind() onto a second Tymist "
        "whose tyme is 1000 or 7 tocks earlier, equal, or 7 or 1000 tocks later, with connections open; from then on "
        "the clauses use the new time base with the rewind moment as start of every open connection's idle window. "
        "Non-trivial = some connection reached an idle deadline or was observed active across "
        ">= 2 windows; distinct = configuration, T/tock and the per-connection (schedule, outcome) list.")
ASSUMPTIONS = [
    "non-persistent is judged only for connections whose bytes are unambiguous: nothing, an unfinished request head, "
    "HTTP/1.0 without keep-alive, or Connection: close",
    "a traffic event is a recv()/send() on the server-side socket that moved >= 1 byte (what the server can observe); "
    "a send that would block moved nothing and is not traffic; client "
    "bytes are written before the service() call of the same virtual tyme",
    "the idle deadline used is a0+(n+1)*T (loosest reading); last_traffic+T is recorded as an observation only",
    "exceptions escaping service() are counted, not judged here (C16)",
]
NSHARDS = {"quick": 16, "thorough": 16}
TIMEOUT_S = {"quick": 240, "thorough": 1500}
BUDGET_S = {"quick": 90, "thorough": 300}
REQUIRE = {
    "hook_evaluations": 5000,
    "connections_accepted": 1000,
    "traffic_events": 2000,
    "idle_deadlines_reached": 500,
    "active_window_evaluations": 2000,
    "service_calls": 10000,
    "configs": 3,
    "stalled_reader_deadlines_judged": 60,
    "np_after_keepalive_connections": 100,
    "np_after_keepalive_window_evaluations": 300,
    "np_after_keepalive_answered_then_closed": 60,
    "rewinds_done": 150,
    "connections_open_at_rewind": 150,
    "rewound_connections_deadline_judged": 60,
    "rewound_active_window_evaluations": 200,
    "streamed_responses_completed": 100,
    "streams_with_a_send_in_every_window": 100,
    "stream_tx_events": 2000,
    "streams.wsgi-tls.nowl": 20,
    "streams.wsgi-tls.wl": 20,
    "streams.wsgi.nowl": 20,
    "streams.wsgi.wl": 20,
    "blocked_sends_observed": 1000,
}
LEVEL_TEXT = ("Every service() call of every generated schedule is judged by the loosest idle deadline, the "
              "no-idle-close-while-active rule and the tymeout hook invariant, over plain/TLS WSGI servers and "
              "BareServer, with tymeouts from half a tock to eight tocks. Held on the schedules run; unbounded "
              "eventual closing is restated as the bound a0+(n+1)T.")
LEVEL_NOTE = ("trusted: the ledger's recv/send/close taps, Tymist arithmetic on binary fractions, Linux loopback "
              "delivering client bytes before the next service() call (a late delivery only weakens, never falsifies)")

HOST = "127.0.0.1"
_proc = {}
_hook = {"installed": False, "remoters": None}

TOCKS = [0.03125, 0.125, 0.25, 1.0]
TMULT = [0.5, 1, 1.5, 2, 3, 4, 6, 8]

HEAD10 = b"GET /ok HTTP/1.0\r\nX-Pad: aaaaaaaaaaaaaaaaaaaaaaaaaaaaaaaaaaaaaaaaaaaaaaaaaaaaaaaaaaaaaaaaaaaaaaaa\r\n\r\n"
REQ10 = b"GET /ok HTTP/1.0\r\n\r\n"
REQ11CLOSE = b"GET /ok HTTP/1.1\r\nHost: localhost\r\nConnection: close\r\n\r\n"
REQSTALL = b"GET /stall HTTP/1.0\r\n\r\n"
POST10 = b"POST /ok HTTP/1.0\r\nContent-Length: 100000\r\n\r\n"
REQBIG10 = b"GET /big HTTP/1.0\r\n\r\n"
REQBIG11CLOSE = b"GET /big HTTP/1.1\r\nHost: localhost\r\nConnection: close\r\n\r\n"


def _big_size():
    """response body larger than anything the kernel can buffer: the server-side send buffer autotunes up to
    tcp_wmem[2]; the stalled reader pins its receive buffer to a few KiB"""
    try:
        wmax = int(open("/proc/sys/net/ipv4/tcp_wmem").read().split()[2])
    except Exception:
        wmax = 4 << 20
    return min(64 << 20, 2 * wmax + (2 << 20))


BIG = _big_size()
REQ11KEEP = b"GET /ok HTTP/1.1\r\nHost: localhost\r\nContent-Length: 0\r\n\r\n"


def _cert(name):
    return os.path.join(env.certs_dir(), name)


def _client_ctx():
    if "cctx" not in _proc:
        c = ssl.SSLContext(ssl.PROTOCOL_TLS_CLIENT)
        c.check_hostname = False
        c.verify_mode = ssl.CERT_NONE
        _proc["cctx"] = c
    return _proc["cctx"]


def make_app(run):
    """WSGI application of one case; /stream paces itself on the harness's step counter (one step = one tock of
    whichever tymist the server is currently wound to)"""
    def app(environ, start_response):
        return _app(environ, start_response, run)
    return app


def _app(environ, start_response, run):
    if environ.get("PATH_INFO") == "/stream":
        # n parts, one every p tocks of virtual tyme; nothing (empty yield) in the rounds between
        q = dict(kv.split("=") for kv in environ.get("QUERY_STRING", "").split("&") if "=" in kv)
        n, p = int(q.get("n", 4)), int(q.get("p", 1))
        start_response("200 OK", [("Content-Type", "text/plain")])

        def stream():
            sent, last = 0, None
            while sent < n:
                if last is None or run.step - last >= p:
                    last = run.step
                    sent += 1
                    yield b"part-%05d\n" % sent
                else:
                    yield b""
        return stream()
    if environ.get("PATH_INFO") == "/stall":
        start_response("200 OK", [("Content-Type", "text/plain")])

        def never():
            while True:
                yield b""     # hio: empty yield = nothing to write yet
        return never()
    if environ.get("PATH_INFO") == "/big":
        start_response("200 OK", [("Content-Type", "application/octet-stream"), ("Content-Length", str(BIG))])
        return [b"x" * BIG]
    start_response("200 OK", [("Content-Type", "text/plain"), ("Content-Length", "2")])
    return [b"ok"]


# --------------------------------------------------------------------------
# schedules: list of [step, "send", latin-1 text] / [step, "close"]; step 0 = the step of the connect
# --------------------------------------------------------------------------
def _lat(b):
    return b.decode("latin-1")


KA_VARIANTS = ["split_body", "head_then_body", "trickle", "http10", "stream"]


def _schedule(rng, kind, m, k=None, variant=None, bare=False):
    """m = T / tock (may be x.5). Returns (events, persistent)"""
    ev = []
    mi = max(1, int(math.ceil(m)))
    if kind == "never":
        pass
    elif kind == "once":
        ev.append([rng.randint(0, mi), "send", _lat(HEAD10[:rng.randint(1, 40)])])
    elif kind == "burst":
        s = rng.randint(0, mi)
        pos = 0
        for _ in range(rng.randint(2, 6)):
            k = rng.randint(1, 8)
            ev.append([s, "send", _lat(HEAD10[pos:pos + k])])
            pos += k
            s += rng.choice([0, 0, 1])
    elif kind in ("periodic_lt", "periodic_eq", "periodic_gt"):
        if kind == "periodic_lt":
            p = rng.randint(1, max(1, int(math.ceil(m)) - 1))        # p*tock < T when m > 1
        elif kind == "periodic_eq":
            p = max(1, int(m))
        else:
            p = int(math.floor(m)) + 1
        s = rng.randint(0, min(p, mi))
        for i in range(rng.randint(3, 9)):
            ev.append([s + i * p, "send", _lat(HEAD10[i:i + 1])])
    elif kind == "dribble_body":
        p = rng.randint(1, max(1, int(math.ceil(m)) - 1))
        ev.append([0, "send", _lat(POST10)])
        for i in range(1, rng.randint(3, 8)):
            ev.append([i * p, "send", "b" * rng.choice([1, 1, 17])])
    elif kind == "complete10":
        ev.append([rng.randint(0, mi), "send", _lat(REQ10)])
    elif kind == "close11":
        s = rng.randint(0, mi)
        cut = rng.randint(1, len(REQ11CLOSE) - 1)
        ev.append([s, "send", _lat(REQ11CLOSE[:cut])])
        ev.append([s + rng.randint(0, 1), "send", _lat(REQ11CLOSE[cut:])])
    elif kind == "app_stall":
        ev.append([rng.randint(0, mi), "send", _lat(REQSTALL)])
    elif kind == "stream_read":
        # non-persistent request whose response is streamed for k*T: a send every p tocks (p*tock < T), client only reads
        p = rng.randint(1, max(1, int(math.ceil(m)) - 1))
        k = k if k is not None else rng.randint(2, 8)
        n = max(2, int(k * m / p))
        line = "GET /stream?n=%d&p=%d HTTP/1.0\r\n\r\n" % (n, p)
        if rng.random() < 0.5:
            line = "GET /stream?n=%d&p=%d HTTP/1.1\r\nHost: localhost\r\nConnection: close\r\n\r\n" % (n, p)
        ev.append([rng.randint(0, max(0, int(math.ceil(m)) - 1)), "send", line])    # request before the first T elapses
        ev.append([ev[0][0] + n * p + 2, "stream_end"])      # marker only: how long the stream lasts
    elif kind == "big_stall":
        # non-persistent request for a response far larger than the socket buffers; the client never reads
        ev.append([rng.randint(0, mi), "send", _lat(rng.choice([REQBIG10, REQBIG11CLOSE]))])
    elif kind == "persistent":
        s = rng.randint(0, mi)
        cut = rng.randint(1, len(REQ11KEEP) - 1)
        ev.append([s, "send", _lat(REQ11KEEP[:cut])])
        ev.append([s + rng.randint(0, mi + 1), "send", _lat(REQ11KEEP[cut:])])
    elif kind == "keepalive_then_close":
        # persistent phase: one keep-alive request, then q*T of silence (allowed: persistent connections are exempt);
        # then a NON-persistent request on the same connection that takes several service passes (body in pieces /
        # multi-pass application), every piece less than T after the previous one.  The client reads throughout.
        variant = variant or rng.choice(KA_VARIANTS)
        if bare and variant == "stream":
            variant = "trickle"
        q = k if k is not None else rng.randint(5, 9)
        s0 = rng.randint(0, max(0, int(math.ceil(m)) - 1))
        ev.append([s0, "send", _lat(REQ11KEEP)])
        t = s0 + int(math.ceil(q * m))
        g = rng.randint(1, max(1, int(math.ceil(m)) - 1))           # gap between pieces, g*tock < T
        head = "POST /ok HTTP/1.1\r\nHost: localhost\r\nConnection: close\r\nContent-Length: 10\r\n\r\n"
        if variant == "http10":
            head = "POST /ok HTTP/1.0\r\nContent-Length: 10\r\n\r\n"
        if variant in ("split_body", "http10"):
            ev.append([t, "send", head + "01234"])
            ev.append([t + g, "send", "56789"])
        elif variant == "head_then_body":
            ev.append([t, "send", head])
            ev.append([t + g, "send", "0123456789"])
        elif variant == "trickle":
            ev.append([t, "send", head])
            for j in range(10):
                ev.append([t + (j + 1) * g, "send", "0123456789"[j]])
        else:  # stream: the application needs many passes to answer
            n = max(3, int(rng.randint(2, 4) * m))
            ev.append([t, "send", "GET /stream?n=%d&p=1 HTTP/1.1\r\nHost: localhost\r\nConnection: close\r\n\r\n" % n])
            ev.append([t + n + 2, "stream_end"])
    elif kind == "client_close":
        if rng.random() < 0.5:
            ev.append([0, "send", _lat(HEAD10[:5])])
        ev.append([rng.randint(0, 2 * mi), "close"])
    else:
        raise AssertionError(kind)
    return ev


KINDS = ["never", "never", "once", "burst", "periodic_lt", "periodic_lt", "periodic_eq", "periodic_gt", "dribble_body",
         "complete10", "close11", "app_stall", "persistent", "client_close", "big_stall", "stream_read", "keepalive_then_close"]


REWINDS = [-1000, -7, 0, 7, 1000]      # new tymist's tyme - old tymist's tyme, in tocks


def _gen(rng, cfg=None, m=None, kinds=None, wl=None, k=None, rewind=None):
    cfg = cfg or rng.choice(["wsgi", "wsgi", "wsgi-tls", "bare"])
    tock = rng.choice(TOCKS)
    m = m if m is not None else rng.choice(TMULT)
    conns = []
    last = 0
    nsend = 0
    for i in range(len(kinds) if kinds else rng.randint(1, 4)):
        kind = kinds[i] if kinds else rng.choice(KINDS)
        if cfg == "bare" and kind in ("app_stall", "big_stall", "stream_read"):
            kind = "never"
        variant = None
        if "/" in kind:
            kind, variant = kind.split("/")
        if kind in ("stream_read", "keepalive_then_close") and m <= 1:
            kind = "never"          # no period p with p*tock < T
        start = rng.randint(0, 3) if i else 0
        if kind == "keepalive_then_close":
            variant = variant or rng.choice(KA_VARIANTS)
            if cfg == "bare" and variant == "stream":
                variant = "trickle"
        ev = _schedule(rng, kind, m, k, variant, cfg == "bare")
        conns.append({"kind": kind, "start": start, "events": ev})
        if variant:
            conns[-1]["variant"] = variant
        for e in ev:
            last = max(last, start + e[0])
        nsend = max(nsend, sum(1 for e in ev if e[1] == "send"))
    # run long enough for the loosest deadline of the busiest connection: (n+1)*T after its accept, plus slack
    steps = min(420, last + int(math.ceil((nsend + 3) * m)) + 4)
    if rewind is None and kinds is None and rng.random() < 0.25:
        # rewind the server onto another tymist while connections are open: [step, tyme shift in tocks]
        rewind = [rng.randint(1, max(1, rng.choice([int(math.ceil(m)) - 1, last + 1]))), rng.choice(REWINDS)]
    if rewind:
        steps = min(420, steps + rewind[0])
    return {"rewind": rewind, "cfg": cfg, "wind": rng.choice(["ctor", "wind"]), "tock": tock, "m": m, "conns": conns, "steps": steps,
            "wl": (rng.random() < 0.4) if wl is None else wl}


def cases(tier, seed, shard, nshards):
    # a fixed grid first: every configuration x every T multiple with the plainest idle schedule
    i = 0
    grid = random.Random("C12-grid")
    for cfg in ("wsgi", "wsgi-tls", "bare"):
        for m in TMULT:
            for kinds in (["never"], ["once", "never"], ["periodic_lt", "never"]):
                if i % nshards == shard:
                    yield _gen(grid, cfg, m, kinds)
                else:
                    _gen(grid, cfg, m, kinds)     # keep the stream aligned across shards
                i += 1
    # fixed grid 2: large response to a reader that stalls (blocked sends must not count as traffic)
    for cfg in ("wsgi", "wsgi-tls"):
        for m in TMULT:
            for kinds in (["big_stall"], ["big_stall", "never"], ["once", "big_stall"]):
                if i % nshards == shard:
                    yield _gen(grid, cfg, m, kinds)
                else:
                    _gen(grid, cfg, m, kinds)
                i += 1
    # fixed grid 3: streamed response to a client that keeps reading, with and without a WireLog on the servant
    for cfg in ("wsgi", "wsgi-tls"):
        for wl in (False, True):
            for m in (2, 3, 4, 8):
                for k in (2, 5, 8):
                    if i % nshards == shard:
                        yield _gen(grid, cfg, m, ["stream_read"], wl, k)
                    else:
                        _gen(grid, cfg, m, ["stream_read"], wl, k)
                    i += 1
    # fixed grid 5: keep-alive request, several tymeouts of silence, then a non-persistent multi-pass request
    for cfg in ("wsgi", "wsgi-tls", "bare"):
        for m in (2, 4, 8):
            for variant in KA_VARIANTS:
                for q in (5, 8):
                    if i % nshards == shard:
                        yield _gen(grid, cfg, m, ["keepalive_then_close/" + variant], k=q)
                    else:
                        _gen(grid, cfg, m, ["keepalive_then_close/" + variant], k=q)
                    i += 1
    # fixed grid 4: server rewound onto an earlier / equal / later tymist while connections are open
    for cfg in ("wsgi", "wsgi-tls", "bare"):
        for shift in REWINDS:
            for m in (2, 4):
                for kinds in (["never"], ["once", "periodic_lt"], ["periodic_lt", "big_stall", "never"]):
                    if i % nshards == shard:
                        yield _gen(grid, cfg, m, kinds, rewind=[1, shift])
                    else:
                        _gen(grid, cfg, m, kinds, rewind=[1, shift])
                    i += 1
    rng = random.Random(f"{seed}:C12:{shard}")
    n = (2000 if tier == "quick" else 40000) // nshards
    for _ in range(n):
        yield _gen(rng)


# --------------------------------------------------------------------------
def setup(ctx):
    ledgermod.install()
    if not _hook["installed"]:
        orig = tcpserving.Remoter.__init__

        def __init__(self, *pa, **kwa):
            try:
                return orig(self, *pa, **kwa)
            finally:
                self._vf_tymeout0 = getattr(self, "tymeout", None)    # what the constructor gave it
                if _hook["remoters"] is not None:
                    _hook["remoters"].append(self)
        __init__.__wrapped__ = orig
        tcpserving.Remoter.__init__ = __init__
        _hook["installed"] = True
    _proc["ports"] = Ports(ctx.shard, offset=800, width=400)


class Conn:
    def __init__(self, idx, spec):
        self.idx = idx
        self.spec = spec
        self.kind = spec["kind"]
        self.sock = None
        self.ca = None
        self.remoter = None
        self.entry = None
        self.a0 = None
        self.sent = b""
        self.persistent = False      # a complete persistent request head has been sent
        self.client_closed = False
        self.outcome = "open"
        self.flagged = False
        self.eof = False
        self.eof_polls = 0
        self.received = b""          # what a reading client got (stream_read)
        self.np_from = None          # tyme at which a connection that was persistent sent a non-persistent head
        self.ev0 = 0                 # traffic events before the last rewind are on another time base: not used
        self.rewound = False
        self.active_windows = 0
        self.deadline_seen = False
        self.tymeout_first = None    # remoter.tymeout as constructed (recorded by the Remoter.__init__ wrapper)
        self.hook_key = None

    @property
    def nonpersistent(self):
        return self.kind != "persistent"


class Run:
    def __init__(self, case, ctx, led, tymist):
        self.case, self.ctx, self.led, self.tymist = case, ctx, led, tymist
        self.cfg = case["cfg"]
        self.tls = self.cfg == "wsgi-tls"
        self.tock = case["tock"]
        self.T = case["m"] * case["tock"]
        self.conns = [Conn(i, c) for i, c in enumerate(case["conns"])]
        self.remoters = []
        self.server = None
        self.wl = None
        self.step = 0
        self.trace = []

    # -- construction --------------------------------------------------------
    def open(self):
        case = self.case
        for _ in range(40):
            port = _proc["ports"].next()
            kw = dict(host=HOST, port=port)
            if case["wind"] == "ctor":
                kw["tymth"] = self.tymist.tymen()
            if case.get("wl"):
                if self.wl is None:
                    self.wl = wiring.WireLog(samed=True)     # in-memory wire log
                    self.wl.reopen()
                kw["wl"] = self.wl
            if self.tls:
                kw.update(scheme="https", keypath=_cert("server_key.pem"), certpath=_cert("server_cert.pem"),
                          certify=ssl.CERT_NONE)
            if self.cfg == "bare":
                srv = httpserving.BareServer(timeout=self.T, **kw)
            else:
                srv = httpserving.Server(app=make_app(self), tymeout=self.T, **kw)
            if case["wind"] == "wind":
                if hasattr(srv, "wind"):
                    srv.wind(self.tymist.tymen())
                else:                                   # BareServer has no wind(): wind its servant
                    srv.servant.wind(self.tymist.tymen())
            if srv.reopen():
                self.server = srv
                self.port = port
                if srv.servant.tymeout != self.T:
                    self.ctx.violation("servant-tymeout-differs-from-server-tymeout",
                                       f"{type(srv).__name__}(tymeout={self.T}) made a servant with tymeout "
                                       f"{srv.servant.tymeout}")
                return
            srv.close()
        raise HarnessError("no free listen port found in the shard's range")

    # -- one observed service() call -------------------------------------------
    def svc(self):
        ctx, T = self.ctx, self.T
        now = self.tymist.tyme
        pre = {}
        for c in self.conns:
            if c.entry is not None:
                pre[c.idx] = (len(c.entry.events), c.entry.open)
        raised = False
        try:
            self.server.service()
        except Exception as ex:        # not this property (C16); what happened to the sockets is still judged
            raised = True
            ctx.count("service_raised")
            ctx.count(f"service_raised.{self.cfg}.{type(ex).__name__}")
            ctx.seen("service_exceptions", [self.cfg, type(ex).__name__])
            self.trace.append(f"tyme {now}: service raised {ex!r}")
        ctx.count("service_calls")
        servant = self.server.servant
        ixes = servant.ixes
        cxes = getattr(servant, "cxes", {})
        for c in self.conns:
            if c.sock is None and c.remoter is None:
                continue
            if c.remoter is None:
                for r in self.remoters:
                    if r.ca == c.ca:
                        c.remoter = r
                        ctx.count("connections_accepted")
                        break
                if c.remoter is None:
                    continue
            r = c.remoter
            if c.entry is None and r.cs is not None:
                c.entry = self.led.entry(r.cs)
            if c.a0 is None and ixes.get(c.ca) is r:
                c.a0 = now
                self.trace.append(f"tyme {now}: conn {c.idx} ({c.kind}) in ixes, tymeout={r.tymeout}")
            # (c) hook invariant
            if not c.persistent and (ixes.get(c.ca) is r or cxes.get(c.ca) is r):
                ctx.count("hook_evaluations")
                c.tymeout_first = r._vf_tymeout0
                if r.tymeout != T and not c.flagged:
                    c.flagged = True
                    c.outcome = "tymeout-mismatch"
                    if c.tymeout_first == T:
                        c.hook_key = "remoter-tymeout-changed-without-persistent-request"
                    elif r.tymeout == 0.0:
                        c.hook_key = "accepted-remoter-tymeout-zero-never-times-out"
                    else:
                        c.hook_key = "accepted-remoter-tymeout-differs-from-server-tymeout"
                    ctx.violation(c.hook_key,
                                  f"{self.cfg}: server configured with tymeout {T}, {type(r).__name__} of a connection "
                                  f"({c.kind}) that has not sent a persistent request has tymeout {r.tymeout} (at accept "
                                  f"{c.tymeout_first}, tymer duration {r.tymer.duration}); with tymeout 0.0 the idle check "
                                  f"`ix.tymeout > 0.0 and ix.tymer.expired` can never close it", trace=self.trace[-20:])
            if c.entry is None or c.a0 is None or c.idx not in pre:
                continue
            n_before, open_before = pre[c.idx]
            if not open_before:
                continue
            e = c.entry
            tymes = [c.a0] + [t for (t, d, k) in e.events[c.ev0:n_before]]
            n_before -= c.ev0
            last = tymes[-1]
            gaps_ok = all(b - a < T for a, b in zip(tymes, tymes[1:])) and now - last < T
            closed_now = not e.open
            idle_close = False
            if closed_now:
                chain = e.closed_by or ()
                idle_close = any(q.endswith("serviceConnects") for q in chain) and not r.cutoff
                c.outcome = ("idle-closed" if idle_close else
                             "closed-cutoff" if r.cutoff else "closed-in-" + (chain[1].split(".")[-1] if len(chain) > 1 else "?"))
                ctx.count("closes_observed." + c.outcome)
                self.trace.append(f"tyme {now}: conn {c.idx} closed via {'>'.join(chain)} last traffic {last}")
                if idle_close and now - last > T:
                    ctx.count("idle_close_later_than_last_traffic_plus_T_obs")
            # (b) active connections are not closed as idle
            if not c.persistent or c.np_from is not None:
                if gaps_ok:
                    ctx.count("active_window_evaluations")
                    if c.np_from is not None:
                        ctx.count("np_after_keepalive_window_evaluations")
                    if c.rewound:
                        ctx.count("rewound_active_window_evaluations")
                    c.active_windows += 1
                    if idle_close:
                        ctx.violation(f"closed-as-idle-before-tymeout-elapsed:{type(r).__name__}",
                                      f"{self.cfg} T={T}: connection {c.kind} closed by the idle check at tyme {now} "
                                      f"although its last traffic was at {last} ({now - last} < T) and every earlier gap "
                                      f"was < T; accept/traffic tymes {tymes}", trace=self.trace[-20:])
            # (a) idle non-persistent connections are closed by the loosest deadline
            if c.nonpersistent and (not c.persistent or c.np_from is not None):
                D = c.a0 + (n_before + 1) * T
                if now >= last + T and not closed_now and now < D:
                    ctx.count("tight_deadline_missed_obs")
                if now >= D and not c.deadline_seen and raised and not closed_now:
                    # the round that should have closed it was cut short by an exception escaping service():
                    # that is C16's business; the deadline is judged at the next round that returns normally
                    ctx.count("idle_close_deferred_by_service_exception_obs")
                elif now >= D and not c.deadline_seen:
                    c.deadline_seen = True
                    ctx.count("idle_deadlines_reached")
                    if c.rewound:
                        ctx.count("rewound_connections_deadline_judged")
                    if closed_now:
                        ctx.count("idle_deadline_closed_in_time")
                    else:
                        ctx.count("idle_deadline_passed_still_open")
                    if not closed_now and not c.flagged:
                        c.flagged = True
                        if r.tymeout != T:    # same mechanism the hook invariant names
                            key = c.hook_key or "accepted-remoter-tymeout-differs-from-server-tymeout"
                        else:
                            key = "idle-deadline-passed-connection-still-open"
                        c.outcome = "not-closed"
                        ctx.violation(key,
                                      f"{self.cfg} T={T}: non-persistent connection ({c.kind}) accepted at tyme {c.a0} "
                                      f"with {n_before} traffic events (last at {last}) is still open after service() "
                                      f"at tyme {now} >= a0+(n+1)T = {D}; remoter.tymeout={r.tymeout} "
                                      f"tymer.expired={r.tymer.expired}", trace=self.trace[-20:])
        # peers: does the client see the close (EOF / reset)?
        for c in self.conns:
            if c.entry is not None and not c.entry.open and not c.eof and c.sock is not None and not c.client_closed \
                    and c.eof_polls < 3:
                c.eof_polls += 1
                c.eof = self.peer_sees_eof(c)
                ctx.count("peer_saw_eof_after_server_close" if c.eof else "peer_eof_not_seen_yet")

    def peer_sees_eof(self, c):
        for _ in range(50):
            try:
                data = c.sock.recv(65536)
                if data == b"":
                    return True
                c.received += data
            except (ssl.SSLWantReadError, ssl.SSLWantWriteError, BlockingIOError):
                return False
            except (ssl.SSLError, OSError):
                return True
        return False

    # -- client actions ----------------------------------------------------------
    def connect(self, c):
        s = self.led.mine(socket.socket(socket.AF_INET, socket.SOCK_STREAM), role="client")
        if c.kind == "big_stall":
            s.setsockopt(socket.SOL_SOCKET, socket.SO_RCVBUF, 4096)   # fixed small window, no autotuning
        s.settimeout(5.0)
        s.connect((HOST, self.port))
        s.setsockopt(socket.IPPROTO_TCP, socket.TCP_NODELAY, 1)   # no Nagle: a write is on the wire before service()
        s.setblocking(False)
        c.sock = s
        c.ca = s.getsockname()
        self.ctx.count("client_connects")
        if not self.tls:
            return
        t = _client_ctx().wrap_socket(s, do_handshake_on_connect=False, server_hostname="localhost")
        self.led.mine(t, role="client-tls")
        c.sock = t
        done = False
        for rounds in range(80):            # handshake rounds at one virtual tyme
            if not done:
                try:
                    t.do_handshake()
                    done = True
                except (ssl.SSLWantReadError, ssl.SSLWantWriteError):
                    pass
            self.svc()
            if done and c.a0 is not None:
                self.ctx.count("tls_handshakes_completed")
                return
            if rounds > 2:
                select.select([], [], [], 0.0005)
        raise HarnessError("TLS handshake with the server did not complete in 80 service rounds")

    def rewind(self, shift):
        """wind the server onto a second Tymist whose tyme differs by `shift` tocks, while connections are open.
        From here on every clause is measured on the new time base, with the rewind moment as the start of each
        open connection's idle window (Tymer.wind restarts the tymer at the new tyme)."""
        ctx = self.ctx
        old = self.tymist
        new = tyming.Tymist(tyme=old.tyme + shift * self.tock, tock=self.tock)
        if hasattr(self.server, "wind"):
            self.server.wind(new.tymen())
        else:
            self.server.servant.wind(new.tymen())
        self.tymist = new
        self.led.clock = new.tymen()
        ctx.count("rewinds_done")
        ctx.count("rewinds." + ("earlier" if shift < 0 else "later" if shift > 0 else "equal"))
        self.trace.append(f"rewind: tyme {old.tyme} -> {new.tyme}")
        for c in self.conns:
            if c.entry is not None and c.entry.open and c.a0 is not None:
                c.a0 = new.tyme
                c.ev0 = len(c.entry.events)
                c.rewound = True
                c.deadline_seen = False
                ctx.count("connections_open_at_rewind")
                ctx.seen("rewound_schedules", [self.cfg, c.kind, shift])

    def read_all(self, c):
        """the client of a streamed response only reads"""
        for _ in range(64):
            try:
                data = c.sock.recv(65536)
            except (ssl.SSLWantReadError, ssl.SSLWantWriteError, BlockingIOError):
                return
            except (ssl.SSLError, OSError):
                c.eof = True
                return
            if not data:
                c.eof = True
                return
            c.received += data

    def send(self, c, data):
        if c.sock is None or c.client_closed:
            return
        try:
            c.sock.send(data)
            self.ctx.count("client_sends")
        except (ssl.SSLError, OSError):
            self.ctx.count("client_send_failed")    # server closed already
        c.sent += data
        if c.kind == "persistent" and b"\r\n\r\n" in c.sent:
            c.persistent = True
        if c.kind == "keepalive_then_close":
            heads = c.sent.count(b"\r\n\r\n")
            if heads >= 1:
                c.persistent = True            # tymeout hook (c) no longer applies
            if heads >= 2 and c.np_from is None and c.entry is not None:
                # from here on the connection is not persistent any more: clauses (a)/(b) apply again, measured from
                # this moment (the persistent phase before it was exempt)
                c.np_from = self.tymist.tyme
                c.a0 = c.np_from
                c.ev0 = len(c.entry.events)
                c.deadline_seen = False
                self.ctx.count("became_nonpersistent_after_keepalive")
                self.trace.append(f"tyme {c.np_from}: conn {c.idx} sent a non-persistent head after a keep-alive phase")

    def run(self):
        ctx, case = self.ctx, self.case
        _hook["remoters"] = self.remoters
        self.open()
        ctx.seen("configs", self.cfg)
        ctx.seen("config_x_T", [self.cfg, case["m"]])
        for step in range(case["steps"]):
            self.step = step
            if case.get("rewind") and case["rewind"][0] == step:
                self.rewind(case["rewind"][1])
            for c in self.conns:
                rel = step - c.spec["start"]
                if rel == 0:
                    self.connect(c)
                if rel >= 0:
                    for ev in c.spec["events"]:
                        if ev[0] == rel:
                            if ev[1] == "send":
                                self.send(c, ev[2].encode("latin-1"))
                            elif ev[1] == "stream_end":
                                pass
                            elif ev[1] == "close" and not c.client_closed:
                                c.sock.close()
                                c.client_closed = True
                                ctx.count("client_closes")
            self.svc()
            for c in self.conns:
                if c.kind in ("stream_read", "keepalive_then_close") and c.sock is not None and not c.eof:
                    self.read_all(c)
            self.tymist.tick()
        # a stalled-reader connection's deadline a0+(n+1)T depends on how many sends the kernel took before it
        # blocked, which is only known at run time: keep servicing (bounded) until each one has been judged
        extra = 0
        while extra < 1500 and any(c.kind == "big_stall" and c.entry is not None and c.entry.open and
                                   not c.deadline_seen for c in self.conns):
            self.step += 1
            self.svc()
            self.tymist.tick()
            extra += 1
        ctx.peak("max_extra_rounds_for_stalled_reader", extra)
        for c in self.conns:
            if c.kind == "big_stall" and c.entry is not None:
                ctx.count("blocked_sends_observed", c.entry.blocked)
                if c.entry.blocked:
                    ctx.count("stalled_reader_connections")
                    if c.deadline_seen:
                        ctx.count("stalled_reader_deadlines_judged")
                    elif c.entry.open:
                        ctx.count("stalled_reader_deadline_not_reached_obs")
        for c in self.conns:
            if c.kind != "stream_read" or c.entry is None:
                continue
            want = int(c.spec["events"][0][2].split("n=")[1].split("&")[0])
            got = c.received.count(b"part-")
            txs = [t for (t, d, n_) in c.entry.events if d == "tx"]
            ctx.count("streams_started")
            ctx.count("streams.%s.%s" % (self.cfg, "wl" if self.wl is not None else "nowl"))
            ctx.count("stream_tx_events", len(txs))
            per_window = [sum(1 for u in txs if t <= u < t + self.T) for t in txs if t + self.T <= txs[-1]] if txs else []
            if per_window:
                ctx.count("stream_windows_counted", len(per_window))
                ctx.seen("stream_min_sends_per_window", min(per_window))
                if min(per_window) >= 1:
                    ctx.count("streams_with_a_send_in_every_window")
            if got == want and not c.entry.open:
                ctx.count("streamed_responses_completed")
            elif c.outcome != "idle-closed":
                ctx.count("stream_incomplete_other_reason_obs")
                self.trace.append(f"stream conn {c.idx}: got {got}/{want} parts outcome {c.outcome}")
        for c in self.conns:
            if c.kind == "keepalive_then_close" and c.np_from is not None:
                ctx.count("np_after_keepalive_connections")
                ctx.seen("np_after_keepalive_variants", [self.cfg, c.spec.get("variant")])
                if c.received.count(b"HTTP/1.1 ") >= 2 and not c.entry.open:
                    ctx.count("np_after_keepalive_answered_then_closed")
                elif c.outcome != "idle-closed":
                    ctx.count("np_after_keepalive_other_outcome_obs")
        nontrivial = False
        outcomes = []
        for c in self.conns:
            if c.entry is not None:
                ctx.count("traffic_events", len(c.entry.events))
            if c.deadline_seen or c.active_windows >= 2:
                nontrivial = True
            if c.persistent and c.entry is not None and c.entry.open:
                ctx.count("persistent_connections_left_open_obs")
            outcomes.append([c.kind, c.outcome])
            ctx.seen("schedule_x_outcome", [self.cfg, c.kind, c.outcome])
        if nontrivial:
            ctx.nontrivial([self.cfg, case["m"], outcomes])
        return outcomes

    def cleanup(self):
        _hook["remoters"] = None
        for c in self.conns:
            if c.sock is not None:
                try:
                    c.sock.close()
                except Exception:
                    pass
        if self.server is not None:
            try:
                self.server.close()
            except Exception:
                pass
        if self.wl is not None:
            try:
                self.wl.close()
            except Exception:
                pass


def run_case(case, ctx):
    tymist = tyming.Tymist(tyme=0.0, tock=case["tock"])
    led = Ledger().begin(clock=tymist.tymen(), tap=True)
    run = Run(case, ctx, led, tymist)
    outcomes = None
    try:
        outcomes = run.run()
    finally:
        run.cleanup()
        led.finish()        # sockets hio left open are C11's business; the harness's own must all be closed
    ctx.sample({"case": case, "outcomes": outcomes, "trace_tail": run.trace[-8:]})
