"""C29 - file resources stay inside their head directory; closing with clear removes only its own path.

Monitor shape: invariant at a hook + before/after state diff.
Every call of the real `hio.base.filing.Filer` API made by a case (constructor,
reopen, close) runs inside an audit window (vf.mon.audit: sys.addaudithook log of
every attempted filesystem mutation) and between two snapshots of a disposable
sandbox tree:

    <mkdtemp>/d1/../d14/           12 levels, a sentinel file at each level
        head/                      Filer.HeadDirPath     (+ sentinels head/keep.txt, head/hio/keep_other/keep.txt, ...)
        alt/                       Filer.AltHeadDirPath  (+ sentinel)
        tmp/                       Filer.TempHeadDir     (+ sentinel)
        sib/                       unrelated sibling with sentinel files
        blocker                    a regular file; "head blocked" cases use blocker/head as HeadDirPath to force the alt head

A harness subclass of Filer points the three class attributes into the sandbox.
Judged, per window, on BOTH the audit log (attempts) and the snapshot diff (net effect):
  O1  every created / removed / changed path is inside the Filer's head directory:
      HeadDirPath or AltHeadDirPath when not temp; when temp, the directory made by
      tempfile.mkdtemp, which itself must be a direct child of TempHeadDir
  O2  a window that closes with clear (close(clear=True), reopen(clear=True)) removes nothing outside
      the Filer's own .path (when temp: nothing outside its own temp directory - the temp branch
      removes the directory holding the file by design)
  O3  after close(clear=True) nothing exists at .path any more
Sentinels (files that the Filer did not create) make O1/O2 violations visible in the diff even if
an operation were not audited.  The audit guard vetoes (raises inside the hook) any mutation outside
the case's own mkdtemp tree, so an escape can never touch the real filesystem; the depth of 12 keeps
ten '../' inside the tree, and a static pre-check refuses cases that could climb further.

Not judged (statement is silent): exceptions from Filer calls on odd prior states (counted), the temp
directory that remains (empty) after clear (counted as temp_dir_left_after_clear), removal of other
entries of the head by a clean remake (counted), rejection of a name with FilerError (counted).
"""
import atexit
import itertools
import os
import random
import shutil
import stat
import tempfile

from hio import hioing
from hio.base import filing

from vf.mon import audit as auditmod

ID = "C29"
LEVEL = "exploration"
RULE = ("case = (temp, clean, filed, extensioned) x op script (19 scripts: reopen/reuse/clear/close, and reopen flipping temp or changing headDirPath with/without clear) x name (plain, nested a/b, "
        "dotted a.b, ./x, x/../y, '../'*k+e for k=1..5; each with and without an extension) x base ('', plain, nested, dotted, ./b, "
        "b/../c, '../'*k for k=1..5) x prior state at the path (none / left by a directory Filer / left by a file Filer) x head "
        "(usable / blocked so the alt head is used / relative with a chdir after opening). quick: the full product flags x names x bases (script, prior, head drawn from the "
        "seed) plus flags x scripts x 6 representative name/base pairs; thorough: the full product flags x scripts x names x bases, the non-temp half with two of the six "
        "(prior, head) combinations each, rotating with the seed. Non-trivial = the Filer created at least one "
        "filesystem object and removed at least one; distinct = by all case fields.")
ASSUMPTIONS = ["POSIX paths; the head, alt and temp head directories exist and are writable (run as the sandbox owner)",
               "the Filer's 'own head directory' is HeadDirPath, or AltHeadDirPath after the documented fallback; in temp mode "
               "it is the directory tempfile.mkdtemp made under TempHeadDir",
               "paths are compared lexically after os.path.abspath; the sandbox holds no symlinks",
               "in temp mode 'its own path' for removal means its own temp directory (documented: the temp branch removes the directory holding the file)"]
TECHNIQUE = "sys.addaudithook log of every filesystem mutation during Filer calls + before/after sandbox snapshots with sentinels; containment invariant judged on both"
LEVEL_TEXT = ("Every Filer call in every enumerated configuration is judged on the complete log of filesystem mutations it attempted and on "
              "the net change of a sentinel-seeded sandbox. The configuration space (flags x scripts x names x bases [x prior x head]) is "
              "enumerated completely for the listed name/base shapes; other names are not covered.")
LEVEL_NOTE = "trusted: CPython audit events for os/shutil/tempfile/open, the 12-level disposable tree and its guard, lexical path containment"
NSHARDS = {"quick": 16, "thorough": 16}
TIMEOUT_S = {"quick": 300, "thorough": 1800}
REQUIRE = {"windows_judged": 5000, "audit_events_judged": 10000, "snapshot_diff_entries_judged": 5000,
           "clear_closes_judged": 1000, "cases_opened": 1200, "cases_temp": 500, "cases_alt_head_used": 50,
           "sentinel_checks": 20000, "cases_name_stays_inside_head": 1000, "neighbours_planted": 1500,
           "flip_reopens_judged": 300, "flip_to_temp_clear_of_persistent_file_path_with_neighbour": 40,
           "head_change_reopens_judged": 100, "reopen_clear_on_closed_filer_judged": 100,
           "reopen_clear_old_entries_checked": 800, "temp_clean_cases_with_persistent_twin": 150,
           "openfiler_contexts_entered": 60, "nonclear_closes_judged": 300, "path_absolute_checks": 1500,
           "relative_head_cases_opened": 80, "decoys_planted": 60,
           "openfiler_exits_judged:temp:flag-changed-inside": 20, "openfiler_exits_judged:persistent:flag-changed-inside": 20}
EXHAUSTIVE = {"quick": "flags(16) x names(20) x bases(11) = 3520 configurations (op script, prior state, head mode seeded) "
                       "+ flags(16) x op scripts(19) x 6 name/base pairs = 1824",
              "thorough": "flags(16) x op scripts(19) x names(20) x bases(11) = 66880 configurations; not temp: 2 of the 9 (prior, head mode) "
                          "combinations for the 7 core scripts, 1 otherwise (rotating with the seed); temp: a persistent twin of "
                          "both kinds when clean, one rotating kind otherwise; names that climb out of their directory only with the scripts clear and lazy-clear"}

DEPTH = 12
# tmpfs when there is one: rmdir/fsync on the disk-backed /tmp of this machine cost 5 ms each
SANDBOX_BASE = os.environ.get("VERIF_SANDBOX_DIR") or \
    ("/dev/shm" if os.path.isdir("/dev/shm") and os.access("/dev/shm", os.W_OK | os.X_OK) else None)
NAMES = ["x", "a/b", "a.b", "./x", "x/../y"] + ["../" * k + "e" for k in range(1, 6)]
NAMES = NAMES + [n + ".dat" for n in NAMES]
BASES = ["", "bs", "p/q", "p.q", "./b", "b/../c"] + ["/".join([".."] * k) for k in range(1, 6)]
# op scripts after construction; every script ends closed
SCRIPTS = {
    "clear": [["close", {"clear": True}]],
    "reuse-clear": [["reopen", {"reuse": True}], ["close", {"clear": True}]],
    "reclear-clear": [["reopen", {"clear": True}], ["close", {"clear": True}]],
    "reuseclear-clear": [["reopen", {"reuse": True, "clear": True}], ["close", {"clear": True}]],
    "close-reopen-clear": [["close", {}], ["reopen", {}], ["close", {"clear": True}]],
    "lazy-clear": [["lazy"], ["reopen", {}], ["close", {"clear": True}]],     # constructed with reopen=False
    "keep": [["close", {}]],
    # flag flips on reopen ("flip" = the opposite of the Filer's current temp; "head2" = a second head directory in the box)
    "flip-temp-clear": [["reopen", {"temp": "flip", "clear": True}], ["close", {"clear": True}]],
    "flip-temp-keep": [["reopen", {"temp": "flip"}], ["close", {"clear": True}]],
    "flip-temp-reuse-clear": [["reopen", {"temp": "flip", "reuse": True, "clear": True}], ["close", {"clear": True}]],
    "flip-there-and-back": [["reopen", {"temp": "flip", "clear": True}], ["reopen", {"temp": "flip", "clear": True}],
                            ["close", {"clear": True}]],
    "head2-clear": [["reopen", {"headDirPath": "head2", "clear": True}], ["close", {"clear": True}]],
    "head2-keep-then-flip": [["reopen", {"headDirPath": "head2"}], ["reopen", {"temp": "flip", "clear": True}],
                             ["close", {"clear": True}]],
    # reopen(clear=True) on a Filer that was closed WITHOUT clear before: the stale content must still go
    "close-reclear-clear": [["close", {}], ["reopen", {"clear": True}], ["close", {"clear": True}]],
    "close-reusereclear-clear": [["close", {}], ["reopen", {"reuse": True, "clear": True}], ["close", {"clear": True}]],
    # the context manager: with openFiler(cls=..., temp=..., clean=...) as filer: ...   (exit closes with clear=filer.temp)
    "openfiler": [["ctx", {}], ["ctx-exit"]],
    # ... and reopen(temp=...) inside the with block: the exit must go by the Filer's temp flag, not by the argument
    "openfiler-flip": [["ctx", {}], ["reopen", {"temp": "flip"}], ["ctx-exit"]],
    "openfiler-flip-clear": [["ctx", {}], ["reopen", {"temp": "flip", "clear": True}], ["ctx-exit"]],
    "openfiler-lazy-flip": [["ctx", {"reopen": False}], ["reopen", {"temp": "flip"}], ["ctx-exit"]],
}
CORE_SCRIPTS = ["clear", "reuse-clear", "reclear-clear", "reuseclear-clear", "close-reopen-clear", "lazy-clear", "keep"]
PRIORS = ["none", "dir", "file"]
HEADS = ["ok", "blocked", "relative"]     # relative: HeadDirPath = "head" resolved against the cwd, which the case changes after opening


# six representative (name, base) pairs that get every op script in the quick tier
QUICK_PAIRS = [("x", ""), ("a/b", "p/q"), ("x/../y.dat", "./b"), ("../e", "bs"), ("a.b", "b/../c"), ("../../e", "..")]


def cases(tier, seed, shard, nshards):
    """quick:    flags x names x bases, op script / prior / head mode drawn from the seed   (3520 configurations)
                 + flags x op scripts x QUICK_PAIRS, prior / head mode drawn from the seed    (1824)
       thorough: flags x op scripts x names x bases (66880 configurations); not temp: two (core scripts) or one of the nine
                 (prior, head mode) combinations, rotating with the configuration index and the seed; temp: a persistent
                 twin at the same base/name of both kinds when clean, of one rotating kind (or none) otherwise"""
    flags = list(itertools.product([False, True], repeat=4))
    scripts = list(SCRIPTS)
    n = -1

    def drawn(n, temp):
        rng = random.Random(f"{seed}:C29:{tier}:{n}")       # per configuration, independent of the sharding
        if temp:                       # a persistent resource of the same base/name may exist next to a temp Filer
            return rng, rng.choice(PRIORS), "ok"
        return rng, rng.choice(PRIORS), rng.choice(["ok", "ok", "blocked", "relative"])

    def mk(fl, script, name, base, prior, head):
        return {"temp": fl[0], "clean": fl[1], "filed": fl[2], "extensioned": fl[3], "script": script,
                "name": name, "base": base, "prior": prior, "head": head}

    if tier == "quick":
        for fl, name, base in itertools.product(flags, NAMES, BASES):
            n += 1
            if n % nshards == shard:
                rng, prior, head = drawn(n, fl[0])
                yield mk(fl, scripts[(n + seed) % len(scripts)], name, base, prior, head)
        for fl, script, (name, base) in itertools.product(flags, scripts, QUICK_PAIRS):
            n += 1
            if n % nshards == shard:
                rng, prior, head = drawn(n, fl[0])
                yield mk(fl, script, name, base, prior, head)
        return
    combos = list(itertools.product(PRIORS, HEADS))
    for fl, script, name, base in itertools.product(flags, scripts, NAMES, BASES):
        n += 1
        if n % nshards != shard:
            continue
        # a base/name that lexically climbs out of its directory meets the same fate under every script (the quick tier
        # runs them all): here only the plain and the lazily opened one
        if script not in ("clear", "lazy-clear") and os.path.normpath(os.path.join(base, name)).split(os.sep)[0] == os.pardir:
            continue
        if fl[0]:                               # temp: HeadDirPath is not used; a persistent twin may pre-exist
            if fl[1]:                           # temp and clean: with both kinds of persistent twin
                yield mk(fl, script, name, base, "dir", "ok")
                yield mk(fl, script, name, base, "file", "ok")
            else:
                yield mk(fl, script, name, base, PRIORS[(n + seed) % 3], "ok")
        else:                                   # (prior, head) combinations rotating with n and the seed:
            for j in ((0, 4) if script in CORE_SCRIPTS else (0,)):      # two of the nine for the core scripts, one otherwise
                prior, head = combos[(n + seed + j) % 9]
                yield mk(fl, script, name, base, prior, head)


# ---- sandbox -----------------------------------------------------------------------
class Box:
    def __init__(self, head_mode="ok"):
        self.root = os.path.realpath(tempfile.mkdtemp(prefix="vf-C29-", dir=SANDBOX_BASE))
        try:
            self._build(head_mode)
        except BaseException:
            shutil.rmtree(self.root, ignore_errors=True)
            raise

    def _build(self, head_mode):
        deep = self.root
        self.sentinels = []
        self.sentinel_set = set()
        for k in range(1, DEPTH + 1):
            deep = os.path.join(deep, f"d{k}")
            os.mkdir(deep)
            self._sentinel(os.path.join(deep, "level-sentinel.txt"))
        self.deep = deep
        self.alt = os.path.join(deep, "alt")
        self.tmp = os.path.join(deep, "tmp")
        self.sib = os.path.join(deep, "sib")
        blocker = os.path.join(deep, "blocker")
        self._sentinel(blocker)
        self.okhead = os.path.join(deep, "head")
        self.blockedhead = os.path.join(blocker, "head")
        self.head = self.okhead if head_mode == "ok" else self.blockedhead
        self.head2 = os.path.join(deep, "head2")
        self.cwd2 = os.path.join(deep, "cwd2")      # the working directory a "relative head" case moves to after opening
        for d in (self.okhead, self.alt, self.tmp, self.sib, os.path.join(self.sib, "sub"), self.head2, self.cwd2):
            os.mkdir(d)
        for p in ("alt/alt-sentinel.txt", "tmp/tmp-sentinel.txt", "sib/s1.txt", "sib/sub/s2.txt"):
            self._sentinel(os.path.join(deep, p))
        # sentinels inside the heads but outside any Filer path of this workload
        for h, tail in ((self.okhead, "hio"), (self.alt, ".hio"), (self.head2, "hio")):
            for rel in ("keep.txt", f"{tail}/keep_other/keep.txt", f"{tail}/clean/keep_other/keep.txt"):
                p = os.path.join(h, rel)
                os.makedirs(os.path.dirname(p), exist_ok=True)
                self._sentinel(p)

    def _sentinel(self, p):
        fd = os.open(p, os.O_CREAT | os.O_WRONLY | os.O_EXCL, 0o644)
        os.write(fd, b"sentinel")
        os.close(fd)
        self.sentinels.append(p)
        self.sentinel_set.add(p)

    def destroy(self):
        # directories made by the Filer carry mode 0o1700; fine for the owner
        shutil.rmtree(self.root, ignore_errors=True)


def lexical_class(tail, base, name):
    """how the relative part tail/base/name normalises w.r.t. the head: 'inside' | 'is-head' | 'climbs-out'"""
    rel = os.path.normpath(os.path.join(tail, base, name))
    first = rel.split(os.sep)[0]
    if first == os.pardir:
        return "climbs-out"
    if rel == os.curdir:
        return "is-head"
    return "inside"


class Lazy:
    """message built only if ctx keeps it (ctx stores the first few per key; an unchanged tree yields 10^5 reports)"""
    def __init__(self, fn):
        self.fn = fn

    def __str__(self):
        return self.fn()


def rel_to(path, root):
    if path == root:
        return "is"
    if path.startswith(root + os.sep):
        return "in"
    return "out"


# ---- the judge ----------------------------------------------------------------------
class Judge:
    def __init__(self, case, box, ctx, nameclass):
        self.case, self.box, self.ctx, self.nameclass = case, box, ctx, nameclass
        self.tempdirs = []          # directories made by tempfile.mkdtemp during this case
        self.created_any = False
        self.removed_any = False
        self.alt_used = False
        self.last = None            # snapshot after the previous window, valid while the harness itself wrote nothing
        self.tb = self.ta = bool(case["temp"])   # the Filer's temp flag before / after the call being judged (reopen may flip it)
        self.extra_heads = []       # a head directory passed to reopen(headDirPath=...)
        self.own_abs = None         # absolute location of the Filer's resource, resolved when it was (re)made
        self.neighbours = set()     # files planted next to the Filer's path: entries of the same directory that are not its own

    def heads(self):
        """the Filer's own head directories for the window being judged: its temp directories while it is (or becomes)
        temp, the persistent heads while it is (or becomes) persistent - a flipping reopen clears in one and creates in the other"""
        hs = []
        if self.tb or self.ta:
            hs += self.tempdirs
        if not (self.tb and self.ta):
            hs += [self.box.head, self.box.alt] + self.extra_heads
        return hs

    def where(self, path):
        """'in' | 'is' | 'out' w.r.t. the Filer's own head directory"""
        best = "out"
        for h in self.heads():
            r = rel_to(path, h)
            if r == "in":
                return "in"
            if r == "is":
                best = "is"
        return best

    def judge_containment(self, verb, path, phase, source, detail=""):
        """O1 on one created/removed/changed path"""
        ctx = self.ctx
        w = self.where(path)
        what = {"create": "created", "remove": "removed", "remove-tree": "removed", "change": "changed"}[verb]
        if w == "in":
            return
        if w == "is":
            # creating the head (or the temp dir) itself is how a head comes to exist; removing the Filer's own
            # temp directory is cleanup.  Removing or chmod-ing a persistent head itself is not "inside".
            if what == "created" or path in self.tempdirs:
                return
            ctx.count(f"escapes:{what}-head-itself:{phase}:{self.nameclass}")
            ctx.violation(self.key(f"{what}-head-directory-itself:{phase}"), Lazy(lambda: (
                          f"{source}: {verb} {self.short(path)} {detail} is the head directory itself "
                          f"(name={self.case['name']!r} base={self.case['base']!r} flags={self.flags()} prior={self.case['prior']})")))
            return
        ctx.count(f"escapes:{what}-outside-head:{phase}:{self.nameclass}")
        ctx.violation(self.key(f"{what}-outside-head:{phase}"), Lazy(lambda: (
                      f"{source}: {verb} {self.short(path)} {detail} is outside the head "
                      f"{[self.short(h) for h in self.heads()]} (name={self.case['name']!r} base={self.case['base']!r} "
                      f"flags={self.flags()} phase={phase})")))

    def key(self, what):
        """violation key = mechanism.  A name/base whose '..' segments lexically leave the head is ONE mechanism however it
        shows (mkdir, chmod, rmtree, at open or at close); for names that stay inside, what happened where is the mechanism."""
        if self.nameclass == "dotdot-climbs-out":
            return "dotdot-segments-escape-head"
        return f"{what}:{self.nameclass}"

    def short(self, p):
        return p.replace(self.box.deep, "<box>").replace(self.box.root, "<root>")

    def flags(self):
        c = self.case
        return "".join(k[0] for k in ("temp", "clean", "filed", "extensioned") if c[k]) or "-"

    def window(self, phase, fn, filer=None, clearing=False, as_temp=None):
        """run fn() inside an audit window between two snapshots and judge it; returns (ok, result-or-exception)"""
        ctx, box = self.ctx, self.box
        before = self.last if self.last is not None else auditmod.snapshot(box.root)
        ctx.count("snapshots_taken", 1 if self.last is None else 0)
        own_path = (self.own_abs or filer.path) if filer is not None else None
        own_temp = list(self.tempdirs)
        self.tb = self.ta = bool(filer.temp) if filer is not None else bool(self.case["temp"])
        if as_temp is not None:                 # the persistent twin planted before a temp Filer runs
            self.tb = self.ta = as_temp
        outcome = None
        with AUDIT.window(guard_root=box.root) as log:
            try:
                outcome = (True, fn())
            except auditmod.EscapeBlocked as ex:
                outcome = (False, ex)
            except hioing.FilerError as ex:
                ctx.count("filer_rejected_FilerError")
                ctx.count("filer_rejected_FilerError:" + self.nameclass)
                outcome = (False, ex)
            except Exception as ex:
                ctx.count(f"filer_call_raised:{type(ex).__name__}")
                outcome = (False, ex)
        after = auditmod.snapshot(box.root)
        ctx.count("snapshots_taken")
        self.last = after
        self.win_before, self.win_after = before, after
        if filer is not None:
            self.ta = bool(filer.temp)
        if log.errors:
            raise RuntimeError(f"audit hook decode errors: {log.errors[:3]}")
        ctx.count("windows_judged")
        ctx.count("windows:" + phase)
        for rec in log.blocked:
            ctx.violation(f"mutation-outside-disposable-tree-vetoed:{phase}:{self.nameclass}" if self.nameclass != "dotdot-climbs-out"
                          else "dotdot-segments-escape-head:beyond-disposable-tree",
                          f"{rec[0]} {rec[1]} ({rec[2]}) was attempted outside the case's tree and vetoed by the audit guard")
        # temp directories made in this window (mkdtemp audit events fire after creation with the full path)
        for verb, path, event, detail in log.events:
            if event == "tempfile.mkdtemp":
                ctx.count("mkdtemp_seen")
                if os.path.dirname(path) == box.tmp and (self.tb or self.ta):
                    self.tempdirs.append(path)
                else:
                    ctx.violation(f"temp-dir-not-under-temp-head:{phase}",
                                  f"mkdtemp made {self.short(path)}; TempHeadDir is {self.short(box.tmp)}, temp before/after={self.tb}/{self.ta}")
        # O1 on attempts
        for verb, path, event, detail in log.events:
            ctx.count("audit_events_judged")
            ctx.count("audit:" + event)
            if event == "tempfile.mkdtemp":
                continue
            self.judge_containment(verb, path, phase, f"audit {event}", detail or "")
            if verb == "create":
                self.created_any = True
            if verb in ("remove", "remove-tree"):
                self.removed_any = True
        # O1 on net effect
        created, removed, changed = auditmod.diff(before, after)
        audited = {p for _, p, _, _ in log.events}
        trees = [p for v, p, _, _ in log.events if v == "remove-tree"]
        for verb, paths in (("create", created), ("remove", removed), ("change", changed)):
            for p in paths:
                ctx.count("snapshot_diff_entries_judged")
                if p in self.tempdirs and verb == "create":
                    continue
                self.judge_containment(verb, p, phase, "snapshot diff")
                if p not in audited and not any(rel_to(p, t) != "out" for t in trees):
                    # a write through an already open descriptor changes content without a new event: only count
                    ctx.count("diff_entries_without_audit_event")
        # sentinels outside every head must be byte-identical; inside-head sentinels are judged by O2 below
        ctx.count("sentinel_checks", len(box.sentinels))
        hit = box.sentinel_set.intersection(removed, changed) if (removed or changed) else ()
        for s in hit:
            if self.where(s) == "out":
                ctx.count("sentinels_outside_head_damaged")   # already reported through the diff rules above
        # O2: a clearing close removes nothing outside its own path (temp: its own temp directory)
        if clearing:
            ctx.count("clear_closes_judged")
            # the path being cleared was made under the regime the Filer had BEFORE the call
            own = own_temp if self.tb else ([own_path] if own_path else [])
            if phase == "reopen" and filer is not None and filer.path:
                # the remake half of a reopen works at the NEW path: with clean it removes what is there (documented:
                # "remove old directory or file at clean path if any"; when a file sits at a directory path the tree
                # removes the holding directory - inside the head, counted, see notes/C29.md)
                own = own + [filer.path]
                if self.case["clean"]:
                    parent = os.path.dirname(filer.path)
                    if any(rel_to(p, parent) == "in" and rel_to(p, filer.path) == "out" for p in removed):
                        ctx.count("clean_remake_removed_siblings_at_new_path")
                    own.append(parent)
            lost = [n for n in self.neighbours if n in removed]
            if lost:
                ctx.count("neighbours_removed_by_clearing_window:" + ("temp" if self.tb else "persistent"))
            rem = [(p, "snapshot diff") for p in removed] + \
                  [(p, f"audit {e}") for v, p, e, _ in log.events if v in ("remove", "remove-tree")]
            for p, source in rem:
                if not any(rel_to(p, o) != "out" for o in own):
                    ctx.count(f"escapes:clear-removed-outside-own-path:{phase}:{self.nameclass}")
                    ctx.violation(self.key(f"clear-removed-outside-own-path:{phase}"),
                                  f"{source}: {self.short(p)} removed by a clearing {phase}; own path {self.short(str(own_path))} "
                                  f"(flags={self.flags()} name={self.case['name']!r} base={self.case['base']!r} "
                                  f"script={self.case['script']} temp before/after={self.tb}/{self.ta})")
                    break
        elif phase == "close":
            # O5: a close without clear removes nothing at all
            ctx.count("nonclear_closes_judged")
            gone = [(p, "snapshot diff") for p in removed] + \
                   [(p, f"audit {e}") for v, p, e, _ in log.events if v in ("remove", "remove-tree")]
            if gone:
                p0, source = gone[0]
                ctx.violation(self.key("close-without-clear-removed-entries"),
                              f"{source}: {self.short(p0)} removed by a close that was not to clear (own path "
                              f"{self.short(str(own_path))}, temp={self.tb}, flags={self.flags()} script={self.case['script']})")
        elif removed:
            inside = [p for p in removed if p in box.sentinel_set]
            if inside:
                ctx.count("nonclear_window_removed_foreign_entries_inside_head")   # clean remake; statement silent
        return outcome


AUDIT = None


def setup(ctx):
    global AUDIT
    AUDIT = auditmod.install()


def static_safe(case, box):
    """refuse to run a case whose lexical target could leave the disposable tree (cannot happen with DEPTH=12)"""
    name = case["name"] + ".text"
    for root in (box.head, box.alt, box.head2, os.path.join(box.cwd2, "head"), os.path.join(box.tmp, "hio_XXXXXXXX_test")):
        for tail in ("hio", "hio/clean", ".hio", ".hio/clean"):
            p = os.path.normpath(os.path.join(root, tail, case["base"], name))
            top = os.path.dirname(os.path.dirname(os.path.dirname(p)))
            if rel_to(top, box.root) != "in":
                return False
    return True


# One disposable tree is reused from case to case when the previous case left only ADDITIONS behind (the usual
# leftovers: head/hio, base directories, emptied temp directories): they are deleted and the tree must then be
# identical to its pristine snapshot, otherwise it is thrown away and rebuilt.  Purely a cost measure (building and
# deleting the 12-level tree is a third of a case); run_case still depends on the case alone.
_BOX = []


def _drop_boxes():
    while _BOX:
        _BOX.pop().destroy()


atexit.register(_drop_boxes)


def teardown(ctx):
    _drop_boxes()


def get_box(ctx):
    if _BOX:
        box = _BOX.pop()
        now = auditmod.snapshot(box.root)
        if now == box.pristine:
            ctx.count("sandbox_reused")
            return box, now
        box.destroy()
    box = Box()
    box.pristine = auditmod.snapshot(box.root)
    ctx.count("sandbox_built")
    return box, box.pristine


def put_box(box):
    try:
        now = auditmod.snapshot(box.root)
        created, removed, changed = auditmod.diff(box.pristine, now)
        if removed or changed:
            box.destroy()
            return
        for p in reversed(created):           # children sort after their parents
            if now[p][0] == "d":
                os.rmdir(p)
            else:
                os.unlink(p)
        _BOX.append(box)
    except OSError:
        box.destroy()


def run_case(case, ctx):
    if AUDIT is None:
        setup(ctx)
    box, first = get_box(ctx)
    box.head = box.blockedhead if case["head"] == "blocked" else box.okhead
    cwd0 = os.getcwd()
    try:
        try:
            _run(case, ctx, box, first)
        finally:
            os.chdir(cwd0)                  # "relative head" cases change the working directory (inside the box only)
    except BaseException:
        box.destroy()
        raise
    put_box(box)


def _run(case, ctx, box, first):
    if not static_safe(case, box):
        raise AssertionError(f"case could climb out of the disposable tree: {case}")
    relative = case["head"] == "relative"
    if relative:
        os.chdir(box.deep)                  # "head" resolves to <box>/head while the Filer is opened
    Sand = type("SandFiler", (filing.Filer,), {"HeadDirPath": "head" if relative else box.head,
                                                "AltHeadDirPath": box.alt, "TempHeadDir": box.tmp})
    tail = Sand.CleanTailDirPath if case["clean"] else Sand.TailDirPath
    ename = case["name"]
    if (case["filed"] or case["extensioned"]) and not os.path.splitext(ename)[1]:
        ename = ename + "." + Sand.Fext
    nameclass = lexical_class(tail, case["base"], ename)
    nameclass = {"inside": "name-inside-head", "is-head": "dotdot-to-head", "climbs-out": "dotdot-climbs-out"}[nameclass]
    ctx.count("cases_" + nameclass.replace("-", "_"))
    if nameclass == "name-inside-head":
        ctx.count("cases_name_stays_inside_head")
    judge = Judge(case, box, ctx, nameclass)
    judge.last = first
    kw = dict(name=case["name"], base=case["base"], temp=case["temp"], clean=case["clean"])

    # prior state: something an earlier PERSISTENT run left at the same base/name.  For a temp Filer that is a resource it
    # did not create and must not touch (its own head is its temp directory), with neighbours of its own.
    if case["prior"] != "none":
        def prior():
            p = Sand(filed=(case["prior"] == "file"), extensioned=case["extensioned"], **dict(kw, temp=False))
            if p.file:
                p.file.write("prior content\n")
            p.close()
            return p
        pok, twin = judge.window("prior", prior, as_temp=False)
        if case["temp"] and pok and twin.path:
            ctx.count("temp_cases_with_persistent_twin")
            if case["clean"]:
                ctx.count("temp_clean_cases_with_persistent_twin")
            extra = [os.path.join(os.path.dirname(twin.path), "vf-twin-neighbour.lmdb")]
            if os.path.isdir(twin.path):
                extra.append(os.path.join(twin.path, "data.mdb"))
            for e in extra:
                if os.path.isdir(os.path.dirname(e)) and not os.path.lexists(e):
                    with open(e, "w") as f:
                        f.write("persistent, not yours")
                    judge.last = None

    first_op = SCRIPTS[case["script"]][0][0]
    lazy = first_op == "lazy"
    cm = None
    if first_op == "ctx":
        cm = filing.openFiler(cls=Sand, filed=case["filed"], extensioned=case["extensioned"],
                              **dict(kw, **SCRIPTS[case["script"]][0][1]))
        ok, filer = judge.window("open", cm.__enter__)
        ctx.count("openfiler_contexts_entered")
    else:
        ok, filer = judge.window("open", lambda: Sand(filed=case["filed"], extensioned=case["extensioned"],
                                                      reopen=not lazy, **kw))
    if not ok:
        ctx.seen("open_outcome", [type(filer).__name__, nameclass])
        return
    ctx.count("cases_opened")
    if case["temp"]:
        ctx.count("cases_temp")

    def located():
        """.path must be absolute; remember where the resource is, resolved now (the cwd may change later)"""
        if filer.path:
            ctx.count("path_absolute_checks")
            if not os.path.isabs(filer.path):
                ctx.violation(judge.key("path-not-absolute"),
                              f".path = {filer.path!r} is not absolute (HeadDirPath={Sand.HeadDirPath!r}, flags={judge.flags()})")
            judge.own_abs = os.path.abspath(filer.path)
        else:
            judge.own_abs = None

    located()
    if relative:
        ctx.count("relative_head_cases_opened")
        # a same-shaped tree under the directory the case is about to move to: must not be mistaken for the Filer's own
        if judge.own_abs and rel_to(judge.own_abs, box.deep) == "in" and not case["temp"]:
            decoy = os.path.join(box.cwd2, os.path.relpath(judge.own_abs, box.deep))
            if os.path.isdir(judge.own_abs):
                os.makedirs(decoy, exist_ok=True)
                made = os.path.join(decoy, "data.mdb")
            else:
                os.makedirs(os.path.dirname(decoy), exist_ok=True)
                made = decoy
            with open(made, "w") as f:
                f.write("decoy under the new cwd")
            judge.neighbours.add(made)
            judge.last = None
            ctx.count("decoys_planted")
        os.chdir(box.cwd2)
        ctx.count("chdir_between_open_and_close")
    steps = []
    for op in SCRIPTS[case["script"]]:
        if op[0] in ("lazy", "ctx"):
            continue
        if filer.path and rel_to(filer.path, box.alt) != "out":
            judge.alt_used = True
        # a subclass (LMDB with subdir=False ...) puts its file at an extensioned path: emulate so clear has work to do
        if filer.opened and filer.extensioned and not filer.filed and filer.path and not os.path.lexists(filer.path) \
                and os.path.isdir(os.path.dirname(filer.path)):
            with open(filer.path, "w") as f:
                f.write("made by subclass")
            judge.last = None
        if filer.file and not filer.file.closed:
            filer.file.write("data\n")
        # content of its own inside a directory Filer's path
        if filer.opened and not filer.filed and not filer.extensioned and filer.path and os.path.isdir(filer.path):
            own = os.path.join(filer.path, "vf-own-content.txt")
            if not os.path.lexists(own):
                with open(own, "w") as f:
                    f.write("stale unless cleared")
                judge.last = None
        # a neighbour: another entry of the directory that holds the Filer's path (another Filer with the same base ...)
        if filer.opened and filer.path and nameclass == "name-inside-head" and os.path.isdir(os.path.dirname(filer.path)):
            nb = os.path.join(os.path.dirname(filer.path), "vf-neighbour.txt")
            if not os.path.lexists(nb) and nb != filer.path:
                with open(nb, "w") as f:
                    f.write("not yours")
                judge.neighbours.add(nb)
                judge.last = None
                ctx.count("neighbours_planted")
        if op[0] == "ctx-exit":
            clearing = bool(filer.temp)
            ctx.count("openfiler_exits_judged:" + ("temp" if clearing else "persistent")
                      + (":flag-changed-inside" if bool(filer.temp) != bool(case["temp"]) else ""))
            ok, res = judge.window("close", lambda: cm.__exit__(None, None, None), filer=filer, clearing=clearing)
            if ok and clearing:
                ctx.count("clear_path_gone_checks")
                if judge.own_abs and os.path.lexists(judge.own_abs):
                    ctx.violation(judge.key("clear-left-own-path-behind"),
                                  f"after leaving openFiler with a temp Filer {judge.short(judge.own_abs)} still exists "
                                  f"(flags={judge.flags()} script={case['script']})")
            steps.append(["ctx-exit", {"clear": clearing}, "ok" if ok else type(res).__name__])
            break
        kwargs = dict(op[1])
        old_path, was_opened = judge.own_abs, bool(filer.opened)
        if kwargs.get("temp") == "flip":
            kwargs["temp"] = not filer.temp
            ctx.count("flip_reopens_judged")
            ctx.count("flip_reopens:" + ("to-temp" if kwargs["temp"] else "to-persistent") + (":clear" if kwargs.get("clear") else ""))
            if kwargs["temp"] and kwargs.get("clear") and filer.path and os.path.isfile(filer.path) and \
                    any(os.path.dirname(n) == os.path.dirname(filer.path) and os.path.lexists(n) for n in judge.neighbours):
                ctx.count("flip_to_temp_clear_of_persistent_file_path_with_neighbour")
        if kwargs.get("headDirPath") == "head2":
            kwargs["headDirPath"] = box.head2
            judge.extra_heads = [box.head2]
            ctx.count("head_change_reopens_judged")
        if op[0] == "reopen":
            kwargs["clean"] = case["clean"]
            if relative and os.path.join(box.cwd2, "head") not in judge.extra_heads:
                # a remake resolves the relative head against the cwd of that moment: from now on the Filer lives there
                judge.extra_heads = judge.extra_heads + [os.path.join(box.cwd2, "head")]
            ok, res = judge.window("reopen", lambda: filer.reopen(**kwargs), filer=filer,
                                   clearing=bool(kwargs.get("clear")))
            if ok:
                located()
            if ok and kwargs.get("clear") and old_path:
                # O4: reopen(clear=True) clears what was at the path before, also when the Filer had been closed before
                ctx.count("reopen_clear_old_content_judged")
                if not was_opened:
                    ctx.count("reopen_clear_on_closed_filer_judged")
                same_place = judge.own_abs == old_path
                b4, aft = judge.win_before, judge.win_after
                for p in [q for q in b4 if rel_to(q, old_path) != "out"]:
                    ctx.count("reopen_clear_old_entries_checked")
                    if aft.get(p) is None or (same_place and b4[p][0] == "d"):
                        continue                # gone, or a directory made again at the same place
                    if aft[p] == b4[p]:
                        ctx.violation(judge.key("reopen-clear-left-old-content:" + ("temp" if judge.tb else "persistent")
                                                + (":filer-was-closed" if not was_opened else "")),
                                      f"reopen({kwargs}) on {'an opened' if was_opened else 'a closed'} Filer: "
                                      f"{judge.short(p)} (at/under the old path {judge.short(old_path)}) survived unchanged; "
                                      f"new path {judge.short(str(filer.path))} flags={judge.flags()} script={case['script']}")
                        break
        else:
            ok, res = judge.window("close", lambda: filer.close(**kwargs), filer=filer,
                                   clearing=bool(kwargs.get("clear")))
            if ok and kwargs.get("clear"):
                # O3
                ctx.count("clear_path_gone_checks")
                if judge.own_abs and os.path.lexists(judge.own_abs):
                    ctx.violation(judge.key("clear-left-own-path-behind"),
                                  f"after close(clear=True) {judge.short(judge.own_abs)} still exists (flags={judge.flags()} "
                                  f"name={case['name']!r} base={case['base']!r} head={case['head']})")
                if filer.temp:
                    left = [t for t in judge.tempdirs if os.path.lexists(t)]
                    ctx.count("temp_dir_left_after_clear" if left else "temp_dir_gone_after_clear")
        steps.append([op[0], kwargs, "ok" if ok else type(res).__name__])
        if not ok:
            break
    if filer.path and rel_to(filer.path, box.alt) != "out":
        judge.alt_used = True
    if judge.alt_used:
        ctx.count("cases_alt_head_used")
    try:
        if filer.file and not filer.file.closed:
            filer.file.close()
    except Exception:
        pass
    if filer.path:
        inside = judge.where(filer.path)
        ctx.count("final_path_" + {"in": "inside_head", "is": "is_head", "out": "outside_head"}[inside])
        if inside == "in" and not case["temp"]:
            tails = [os.path.join(box.head, "hio"), os.path.join(box.alt, ".hio"), os.path.join(box.head2, "hio")]
            if all(rel_to(filer.path, tl) == "out" for tl in tails):
                ctx.count("final_path_inside_head_but_outside_tail")    # '../..' with a short base: statement allows
    if judge.created_any and judge.removed_any:
        ctx.nontrivial(case)
    ctx.seen("script_outcomes", [case["script"], steps and [s[2] for s in steps]])
    ctx.sample({"case": case, "path": judge.short(filer.path) if filer.path else None, "steps": steps,
                "nameclass": nameclass, "tempdirs": [judge.short(t) for t in judge.tempdirs]})
