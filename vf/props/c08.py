"""C08 - timers measure elapsed tyme exactly, restart losslessly; MonoTimer is monotone.

Monitor shape: lock-step reference model + trace automaton.

Tymer (virtual timer on a scripted Tymist).  After the constructor and after EVERY
op of a history (tick, tyme assignment incl. rewinds, start with optional
duration/start, restart with optional duration, wind to another Tymist) the real
`hio.base.tyming.Tymer` is compared with the exact-rational model
vf.models.timers.TimerModel:
  dyadic domain (all values multiples of 1/64, so float arithmetic is exact):
      duration, elapsed, remaining, expired and the value returned by start/restart
      must EQUAL the model's (elapsed = now - start, remaining = stop - now,
      expired <=> now >= stop, restart begins at the previous stop).
  general float domain (no exact model of rounding is claimed): only relations that
      are exact in IEEE arithmetic are judged:
      expired <=> remaining <= 0;  elapsed == now - (start returned / given);
      restart returned r  =>  a twin of the timer taken before the restart is expired
      at tyme r with remaining 0.0 and is NOT expired at the float just below r
      (i.e. r is exactly the previous stop, and expired flips exactly there).

MonoTimer (wall clock, on the fake clock of vf.mon.fakeclock installed as
hio.help.timing.time).  Reading sequences with forward advances and backward steps:
  within one timing period (between start/restart calls) successive `elapsed` reads
  never decrease and `expired` never goes True -> False     (the statement);
  when the script has no backward step, the dyadic-domain values equal the plain
  TimerModel (elapsed = now - start, ...) and start/restart return the model's value.
Clock scripts are per time() CALL, not per property read: a backward step can be scheduled
  just before the n-th next call (`backat`), so it falls between any two consecutive calls
  wherever the code makes them - also between two calls inside one property read, if the
  code under test reads the clock more than once there - and `tick` makes every call read
  later than the previous one.  Monotonicity is judged over the values the properties return.
MonoTimer(retro=False): a read that sees a retrograded clock raises RetroTimerError
  (documented); such reads hand out no value, are recorded and skipped.  The same
  automaton judges the reads that DO return - including repeated reads after a caught
  error while the clock is still behind the last good reading, reads after a partial
  catch-up and after the clock has caught up (keys `mono-noretro:*`).  Whether a read
  raises is not judged (the statement is silent; on the tree a forward-only clock can
  raise too: constructor start in the future, or float rounding of `_last += delta` one
  ulp above the reading - counted), except that retro=True must never raise it.
In the float domain `expired` no-revert is judged exactly (it only needs rounding to
be monotone); `elapsed` is allowed to dip by a few ulps of the reading (shifting
_start and _last by the same delta rounds differently) - such dips are counted.
"""
import copy
import itertools
import math
import random
from fractions import Fraction

from hio.base import tyming
from hio.help import timing

from vf.mon.fakeclock import FakeClock, Installed
from vf.models.timers import TimerModel, MonotoneWatch

ID = "C08"
LEVEL = "exploration"
TECHNIQUE = ("lock-step exact-rational reference model (Tymer; MonoTimer on forward-only clocks) + monotonicity trace "
             "automaton (MonoTimer under backward clock steps) over enumerated and random op histories")
RULE = ("Tymer: histories of ops {tick, tick(x), tyme=x (incl. rewinds), start(d?,s?), restart(d?), wind(other tymist)} on "
        "2-3 scripted Tymists; every history up to length 3 (quick) / 4 (thorough) over a 13-op alphabet whose values make "
        "now == stop frequent, plus random histories of length <= 60 in the dyadic and in the general float domain. "
        "MonoTimer: histories of {advance, step back, step back just before the n-th next time() call, read elapsed/remaining/expired, start(d?,s?), restart(d?)} on the fake "
        "clock, forward-only and with backward steps, both domains, retro=True and retro=False (reads repeated after a caught "
        "RetroTimerError while the clock is still behind, after partial and full catch-up). Non-trivial: Tymer history has a rewind or a restart and "
        "`expired` was seen both True and False; MonoTimer history was read after a backward step while elapsed > 0 (or is "
        "forward-only with both expired values). Distinct = by the sequence of (op kind, expired after the op).")
ASSUMPTIONS = [
    "Tymer is wound to a Tymist (an unwound Tymer has tyme None and is outside the statement)",
    "wind() restarts the timer at the new Tymist's tyme keeping the duration (its docstring); start()/restart() keep the "
    "current duration when none is given",
    "exact equality is demanded only where float arithmetic is exact (multiples of 1/64, |x| < 2**26); in the general float "
    "domain only IEEE-exact relations are judged",
    "MonoTimer: monotonicity is per timing period (start/restart legitimately reset elapsed and expired); with retro=False "
    "only reads that return a value are judged (a RetroTimerError hands out nothing); an "
    "explicit constructor start later than the current reading is not judged against the plain model (observed only)",
    "finite time values, no NaN/inf",
]
LEVEL_TEXT = ("Every property read after every op of every generated history is compared with an exact model (dyadic domain) "
              "or with IEEE-exact invariants (float domain); MonoTimer monotonicity is judged on every read of scripted clock "
              "sequences with backward steps. Short Tymer histories are enumerated completely. Held on what was observed.")
LEVEL_NOTE = "trusted: the 70-line Fraction model, the fake clock, exactness of dyadic float arithmetic"
NSHARDS = {"quick": 8, "thorough": 16}
TIMEOUT_S = {"quick": 240, "thorough": 1800}
BUDGET_S = {"quick": 30, "thorough": 400}
REQUIRE = {"tymer_model_comparisons": 20000, "tymer_rewinds": 1000, "tymer_restarts": 1000, "tymer_winds": 500,
           "tymer_now_equals_stop": 300, "tymer_float_invariant_checks": 5000, "tymer_restart_twin_probes": 300,
           "mono_reads": 5000, "mono_reads_after_backstep": 1000, "mono_expired_held_through_backstep": 100,
           "mono_forward_model_comparisons": 3000, "mono_noretro_reads_raised": 300,
           "mono_noretro_repeated_reads_raised": 100, "mono_noretro_reads_returned_after_raise": 100,
           "mono_backsteps_scheduled_at_a_call": 300, "mono_property_reads_with_a_scheduled_step": 300}
PEAK_COUNTERS = ("mono_max_clock_calls_in_one_property_read",)
EXHAUSTIVE = {"quick": "all Tymer op histories of length <= 3 over the 13-op alphabet (2 Tymists, boundary values)",
              "thorough": "all Tymer op histories of length <= 4 over the 13-op alphabet (2 Tymists, boundary values)"}

Q = 64.0

ALPHA = [["tick", None], ["tick", 0.75], ["set", -1.0], ["set", 0.0], ["set", 2.0],
         ["start", None, None], ["start", 1.0, None], ["start", None, 0.5], ["start", 2.0, -1.0], ["start", 0.0, None],
         ["restart", None], ["restart", 0.5], ["wind", 1]]


# --------------------------------------------------------------------------
# generation
# --------------------------------------------------------------------------
def dy(rng, lo=-128, hi=384, big=0.03):
    if rng.random() < big:
        return rng.choice([-1, 1]) * rng.randint(0, 2 ** 31) / Q
    return rng.randint(lo, hi) / Q


def fl(rng):
    r = rng.random()
    if r < 0.4:
        return rng.uniform(-5.0, 20.0)
    if r < 0.6:
        return rng.randint(-30, 100) * 0.1
    if r < 0.7:
        return rng.choice([1 / 3, 2 / 3, 0.1, 0.2, 0.3, 1e-9, 1e-300, 5e-324, 0.0, -0.0])
    if r < 0.8:
        return rng.choice([1e9 + 0.1, 1.7e9 + 1 / 3, 2.0 ** 53, 1e15 + 0.5, -1e9 - 0.7])
    return rng.uniform(-1e6, 1e6)


def tymer_case(rng, dom, maxlen):
    val = (lambda **k: dy(rng, **k)) if dom == "dyadic" else (lambda **k: fl(rng))
    pos = (lambda: abs(dy(rng, lo=0, hi=256))) if dom == "dyadic" else (lambda: abs(fl(rng)))
    nt = rng.choice([2, 2, 3])
    tymists = [[val(), rng.choice([1 / 32, 1 / 64, 0.25, 0.5, 1.0]) if dom == "dyadic" or rng.random() < 0.5 else abs(fl(rng))]
               for _ in range(nt)]

    def dur():
        r = rng.random()
        if r < 0.08:
            return -pos()          # negative durations are accepted by the code: born expired
        if r < 0.2:
            return 0.0
        return pos()

    init = {"d": None if rng.random() < 0.2 else dur(), "s": None if rng.random() < 0.6 else val(), "w": rng.randrange(nt)}
    ops = []
    cur = init["w"]
    for _ in range(rng.randint(3, maxlen)):
        r = rng.random()
        if r < 0.3:
            ops.append(["tick", None if rng.random() < 0.7 else val(lo=-64, hi=128) if dom == "dyadic" else fl(rng)])
        elif r < 0.45:
            ops.append(["set", val()])
        elif r < 0.5:
            ops.append(["set_to_stop"])              # put now exactly on the boundary
        elif r < 0.7:
            ops.append(["start", None if rng.random() < 0.5 else dur(), None if rng.random() < 0.5 else val()])
        elif r < 0.9:
            ops.append(["restart", None if rng.random() < 0.6 else dur()])
        else:
            cur = rng.choice([j for j in range(nt) if j != cur])
            ops.append(["wind", cur])
    return {"kind": "tymer", "dom": dom, "tymists": tymists, "init": init, "ops": ops}


def mono_case(rng, dom, maxlen, forward_only, retro=True):
    pos = (lambda: abs(dy(rng, lo=0, hi=256, big=0.02))) if dom == "dyadic" else (lambda: abs(fl(rng)))
    base = float(rng.choice([1700000000, 0, 1000, 2 ** 31])) if dom == "dyadic" else \
        rng.choice([1.7e9 + 0.123456, 1.7e9 + 1 / 3, 12345.678, 0.0, 1e6 + 0.1])

    def rel():
        # start offsets relative to the current reading; mostly in the past or now
        r = rng.random()
        if r < 0.75:
            return -pos()
        if r < 0.85:
            return 0.0
        return pos()

    init = {"d": pos(), "s_rel": None if rng.random() < 0.7 else -pos() if rng.random() < 0.85 else pos(),
            "pre_adv": pos() if rng.random() < 0.3 else 0.0}
    ops = []
    for _ in range(rng.randint(4, maxlen)):
        r = rng.random()
        if r < 0.3:
            ops.append(["adv", pos()])
        elif r < 0.45 and not forward_only and not retro:
            # retro=False: reads raise RetroTimerError while the clock is behind the last good reading.  Read before
            # the step, twice while behind (the caller caught the error and tries again), again after a partial
            # catch-up, and after the clock has caught up.
            b = rng.choice([pos(), pos(), 1 / Q if dom == "dyadic" else 1e-6, 3600.0]) or 1 / Q
            which = lambda: rng.choice(["all", "elapsed", "expired", "remaining"])
            ops += [["rd", "all"], ["back", b], ["rd", which()], ["rd", which()]]
            if rng.random() < 0.7:
                ops += [["adv", b / 2], ["rd", which()]]
            if rng.random() < 0.8:
                ops += [["adv", b], ["rd", "all"], ["rd", "all"]]
            continue
        elif r < 0.38 and not forward_only and retro:
            # a backward step scheduled per time() CALL: it falls just before the call that is `ahead` calls from now,
            # wherever that call is made (between two property reads, or between two calls inside one read)
            b = rng.choice([pos(), pos(), 3600.0, 1 / Q if dom == "dyadic" else 1e-6]) or 1 / Q
            ops.append(["rd", "all"])
            ops.append(["backat", rng.choice([0, 1, 1, 1, 2, 3, 5]), b])
            ops += [["rd", rng.choice(["all", "expired", "elapsed", "remaining"])] for _ in range(rng.randint(2, 4))]
            continue
        elif r < 0.45 and not forward_only:
            bracket = rng.random() < 0.5          # read just before and just after the step
            if bracket:
                ops.append(["rd", "all"])
            ops.append(["back", rng.choice([pos(), pos(), 3600.0, 86400.0, 1 / Q if dom == "dyadic" else 1e-6]) or 1 / Q])
            if bracket:
                ops.append(["rd", rng.choice(["all", "expired", "elapsed"])])
                continue
        elif r < 0.8:
            ops.append(["rd", rng.choice(["elapsed", "remaining", "expired", "all", "all"])])
        elif r < 0.9:
            ops.append(["start", None if rng.random() < 0.5 else pos(), None if rng.random() < 0.7 else rel()])
        else:
            ops.append(["restart", None if rng.random() < 0.6 else pos()])
        if ops[-1][0] != "rd" and rng.random() < 0.5:
            ops.append(["rd", "all"])
    return {"kind": "mono", "dom": dom, "base": base, "init": init, "ops": ops, "forward_only": forward_only,
            "retro": retro, "tick": 0.0 if rng.random() < 0.5 else (rng.choice([1, 2, 8]) / Q if dom == "dyadic" else
                                                                       rng.choice([1e-6, 0.125, 0.01]))}


def cases(tier, seed, shard, nshards):
    maxlen = 3 if tier == "quick" else 4
    i = 0
    for ln in range(1, maxlen + 1):
        for hist in itertools.product(range(len(ALPHA)), repeat=ln):
            if i % nshards == shard:
                yield {"kind": "tymer", "dom": "dyadic", "tymists": [[0.0, 0.5], [1.0, 0.25]],
                       "init": {"d": 1.0, "s": None, "w": 0}, "ops": [ALPHA[k] for k in hist], "enum": True}
            i += 1
    rng = random.Random(f"{seed}:C08:{shard}")
    nrand = (6000 if tier == "quick" else 200000) // nshards
    for j in range(nrand):
        m = j % 10
        if m >= 8:
            # MonoTimer(retro=False): mostly with backward steps, both domains
            yield mono_case(rng, "dyadic" if m == 8 or rng.random() < 0.5 else "float", 40,
                            forward_only=rng.random() < 0.15, retro=False)
            continue
        if m < 3:
            yield tymer_case(rng, "dyadic", 60)
        elif m < 4:
            yield tymer_case(rng, "float", 60)
        elif m < 6:
            yield mono_case(rng, "dyadic", 60, forward_only=False)
        elif m < 7:
            yield mono_case(rng, "dyadic", 60, forward_only=True)
        else:
            yield mono_case(rng, "float", 60, forward_only=rng.random() < 0.3)


# --------------------------------------------------------------------------
# Tymer
# --------------------------------------------------------------------------
FIELDS = ("duration", "elapsed", "remaining", "expired")


def guarded(ctx, key, fn, *pa, **kwa):
    """Run a call of the code under test; an exception is a finding, not a harness error."""
    try:
        return True, fn(*pa, **kwa)
    except Exception as ex:
        ctx.violation(f"escape:{key}:{type(ex).__name__}", f"{key} raised {ex!r}")
        return False, None


def run_tymer(case, ctx):
    dyadic = case["dom"] == "dyadic"
    tymists = [tyming.Tymist(tyme=t, tock=k) for t, k in case["tymists"]]
    mtyme = [Fraction(t) for t, k in case["tymists"]]          # model of the scripted tyme source
    mtock = [Fraction(k) for t, k in case["tymists"]]
    cur = [case["init"]["w"]]
    init = case["init"]
    ok, tymer = guarded(ctx, "Tymer()", tyming.Tymer, tymth=tymists[cur[0]].tymen(), duration=init["d"], start=init["s"])
    if not ok:
        return
    model = TimerModel(now=lambda: mtyme[cur[0]], duration=init["d"], start=init["s"]) if dyadic else None
    start_known = init["s"] if init["s"] is not None else tymists[cur[0]].tyme   # float domain: the start in force
    seq = []
    seen_exp = set()
    features = set()

    def compare(opname, ret=None, mret=None, check_ret=False):
        """returns False when the case should stop (first mismatch reported)"""
        now = tymists[cur[0]].tyme
        ok, got = guarded(ctx, "Tymer.props", lambda: {f: getattr(tymer, f) for f in FIELDS})
        if not ok:
            return False
        seen_exp.add(bool(got["expired"]))
        seq.append((opname, bool(got["expired"])))
        if dyadic:
            ctx.count("tymer_model_comparisons")
            if Fraction(now) != mtyme[cur[0]]:
                ctx.violation("tymist-tyme-mismatch", f"after {opname}: Tymist.tyme={now} scripted {mtyme[cur[0]]}")
                return False
            if check_ret and (ret is None or Fraction(ret) != mret):
                ctx.violation(f"tymer-mismatch:{opname.split('(')[0]}-return",
                              f"{opname} returned {ret}; the model (next period begins at the given start / now / previous stop) "
                              f"gives {float(mret)}; history so far {seq}")
                return False
            want = model.snapshot()
            if want["remaining"] == 0:
                ctx.count("tymer_now_equals_stop")
            for f in FIELDS:
                g = got[f]
                same = (g is want[f]) if f == "expired" else (isinstance(g, float) and Fraction(g) == want[f])
                if not same:
                    ctx.violation(f"tymer-mismatch:{f}",
                                  f"after {opname} at tyme {now}: {f}={g!r}, model {want[f] if f == 'expired' else float(want[f])} "
                                  f"(model start={float(model.start_at)} stop={float(model.stop_at)}); history {seq}")
                    return False
        else:
            ctx.count("tymer_float_invariant_checks")
            if got["expired"] is not (got["remaining"] <= 0):
                ctx.violation("tymer-invariant:expired-vs-remaining",
                              f"after {opname} at tyme {now!r}: expired={got['expired']} but remaining={got['remaining']!r}")
                return False
            if got["elapsed"] != now - start_known:
                ctx.violation("tymer-invariant:elapsed-vs-start",
                              f"after {opname} at tyme {now!r}: elapsed={got['elapsed']!r}, now - start = {now - start_known!r} "
                              f"(start in force {start_known!r})")
                return False
        return True

    if not compare("init"):
        return
    for op in case["ops"]:
        kind = op[0]
        j = cur[0]
        ctx.count("tymer_op_" + kind)
        if kind == "tick":
            before = tymists[j].tyme
            ok, _ = guarded(ctx, "Tymist.tick", tymists[j].tick, **({} if op[1] is None else {"tock": op[1]}))
            if not ok:
                return
            mtyme[j] += mtock[j] if op[1] is None else Fraction(op[1])
            if tymists[j].tyme < before:
                ctx.count("tymer_rewinds"); features.add("rewind")
            name = "tick"
            go = compare(name)
        elif kind in ("set", "set_to_stop"):
            before = tymists[j].tyme
            if kind == "set":
                x = op[1]
            else:
                x = before + tymer.remaining if not dyadic else float(model.stop_at)
            tymists[j].tyme = x
            mtyme[j] = Fraction(x)
            if x < before:
                ctx.count("tymer_rewinds"); features.add("rewind")
            go = compare("set")
        elif kind == "start":
            d, s = op[1], op[2]
            ok, ret = guarded(ctx, "Tymer.start", tymer.start, duration=d, start=s)
            if not ok:
                return
            mret = model.start(duration=d, start=s) if dyadic else None
            ctx.count("tymer_starts")
            go = True
            if not dyadic:
                want = s if s is not None else tymists[j].tyme
                if ret != want:
                    ctx.violation("tymer-invariant:start-return", f"start(duration={d!r}, start={s!r}) at tyme "
                                  f"{tymists[j].tyme!r} returned {ret!r}")
                    go = False
                start_known = ret
            go = go and compare("start", ret, mret, check_ret=True)
        elif kind == "restart":
            d = op[1]
            twin = copy.copy(tymer) if not dyadic else None
            ok, ret = guarded(ctx, "Tymer.restart", tymer.restart, duration=d)
            if not ok:
                return
            mret = model.restart(duration=d) if dyadic else None
            ctx.count("tymer_restarts"); features.add("restart")
            go = True
            if not dyadic:
                # r must be exactly the previous stop: the twin still has the previous period
                ctx.count("tymer_restart_twin_probes")
                keep = tymists[j].tyme
                tymists[j].tyme = ret
                at = (twin.expired, twin.remaining)
                below = math.nextafter(ret, -math.inf)
                tymists[j].tyme = below
                under = twin.expired
                tymists[j].tyme = keep
                if at != (True, 0.0) or under is not False:
                    ctx.violation("tymer-invariant:restart-at-previous-stop",
                                  f"restart(duration={d!r}) returned {ret!r}; the previous period at tyme {ret!r} has "
                                  f"expired={at[0]} remaining={at[1]!r} and at the float just below has expired={under} "
                                  f"(expected True, 0.0, False)")
                    go = False
                start_known = ret
            go = go and compare("restart", ret, mret, check_ret=True)
        elif kind == "wind":
            cur[0] = op[1]
            ok, _ = guarded(ctx, "Tymer.wind", tymer.wind, tymists[op[1]].tymen())
            if not ok:
                return
            if dyadic:
                model.wind(lambda: mtyme[cur[0]])
            else:
                start_known = tymists[op[1]].tyme
            ctx.count("tymer_winds"); features.add("wind")
            go = compare("wind")
        else:
            raise AssertionError(kind)
        if not go:
            return
    ctx.seen("tymer_expired_sequences", [e for _, e in seq])
    if ({"rewind", "restart"} & features) and seen_exp == {True, False}:
        ctx.nontrivial(["tymer", case["dom"], seq])
    if not case.get("enum") or len(case["ops"]) == 3:
        ctx.sample({"case": case, "op/expired": seq})


# --------------------------------------------------------------------------
# MonoTimer
# --------------------------------------------------------------------------
def run_mono(case, ctx):
    dyadic = case["dom"] == "dyadic"
    clock = FakeClock(base=case["base"], tick=case.get("tick", 0.0))   # tick: every time() call reads later than the last
    init = case["init"]
    with Installed(clock, [timing]):
        clock.work(init["pre_adv"])
        s_abs = None if init["s_rel"] is None else clock.peek() + init["s_rel"]
        retro = case.get("retro", True)
        tag = "mono" if retro else "mono-noretro"
        ok, timer = guarded(ctx, "MonoTimer()", timing.MonoTimer, duration=init["d"], start=s_abs, retro=retro)
        if not ok:
            return
        # plain model, judged only while the script is forward-only, in the dyadic domain
        use_model = dyadic and case["forward_only"]
        if use_model and init["s_rel"] is not None and init["s_rel"] > 0:
            use_model = False
            ctx.count("mono_future_constructor_start_not_judged")
        model = TimerModel(now=clock.peek, duration=init["d"], start=s_abs) if dyadic and case["forward_only"] else None
        mag = [abs(case["base"]) + abs(init["d"]) + 1.0]    # largest magnitude the timer has had to add/subtract

        def grow(*xs):
            # float domain only: allowed dip of `elapsed` = a few ulps of the largest magnitude handled so far
            mag[0] = max([mag[0], abs(clock.peek())] + [abs(x) for x in xs if x is not None])
            if not dyadic:
                watch.tol = 8 * math.ulp(2 * mag[0])

        watch = MonotoneWatch(tol=0.0)
        grow(s_abs)
        exact_watch = MonotoneWatch(tol=0.0)
        seq = []
        backstep_pending = False      # a backward step happened since the timer last read the clock
        stepped_in_period = False
        interesting = False
        seen_exp = set()
        high = [clock.peek()]         # retro=False: highest reading the timer has accepted (a read returned / it was started)
        raised_since_return = [False]

        def read(which):
            nonlocal backstep_pending, interesting
            names = ["elapsed", "remaining", "expired"] if which == "all" else [which]
            for name in names:
                was_exp = watch.was_expired
                behind = clock.peek() < high[0]
                calls0, nlog0 = clock.total_reads, len(clock.log)
                try:
                    v = getattr(timer, name)
                except timing.RetroTimerError as ex:
                    if retro:
                        ctx.violation("mono:RetroTimerError-with-retro-true",
                                      f"{name} raised {ex!r} although retro=True; ops so far {seq}")
                        return False
                    if case["forward_only"]:
                        # seen on the tree, not judged (the statement is silent about when a read may raise): a constructor
                        # start later than the clock, and in the float domain `_last += delta` rounding one ulp above the reading
                        ctx.count("mono_noretro_raised_on_forward_only_clock")
                    # documented behaviour of retro=False: no value is handed out; recorded and skipped
                    ctx.count("mono_noretro_reads_raised")
                    if raised_since_return[0]:
                        ctx.count("mono_noretro_repeated_reads_raised")
                    raised_since_return[0] = True
                    seq.append(("raised", name))
                    continue
                except Exception as ex:
                    ctx.violation(f"escape:MonoTimer.{name}:{type(ex).__name__}", f"MonoTimer.{name} raised {ex!r}")
                    return False
                if not retro:
                    ctx.count("mono_noretro_reads_returned")
                    if raised_since_return[0]:
                        ctx.count("mono_noretro_reads_returned_after_raise")
                        interesting = True
                    if behind:
                        ctx.count("mono_noretro_reads_returned_while_clock_behind")     # 0 on the unchanged tree
                    raised_since_return[0] = False
                    high[0] = max(high[0], clock.peek())
                ctx.count("mono_reads")
                ctx.peak("mono_max_clock_calls_in_one_property_read", clock.total_reads - calls0)
                if any(e[0] == "step" and e[3] == "call" for e in clock.log[nlog0:]):
                    ctx.count("mono_property_reads_with_a_scheduled_step")
                    backstep_pending = True
                if backstep_pending:
                    ctx.count("mono_reads_after_backstep")
                if name == "elapsed":
                    if exact_watch.elapsed(v) is not None:
                        ctx.count("mono_float_ulp_dips_observed")
                    bad = watch.elapsed(v)
                    if bad:
                        ctx.violation(tag + ":elapsed-decreased",
                                      f"elapsed read {bad[0]!r} and then {bad[1]!r} within one period "
                                      f"({'after a backward clock step' if stepped_in_period else 'forward-only clock'}); ops so far {seq}")
                        return False
                    if backstep_pending and v > 0:
                        interesting = True
                elif name == "expired":
                    seen_exp.add(bool(v))
                    if watch.expired(v):
                        ctx.violation(tag + ":expired-reverted",
                                      f"expired read True and later False within one period "
                                      f"({'after a backward clock step' if stepped_in_period else 'forward-only clock'}); ops so far {seq}")
                        return False
                    if was_exp and v and backstep_pending:
                        ctx.count("mono_expired_held_through_backstep")
                        interesting = True
                    seq.append(("expired", bool(v)))
                if use_model:
                    ctx.count("mono_forward_model_comparisons")
                    want = getattr(model, name)
                    same = (v is want) if name == "expired" else (isinstance(v, float) and Fraction(v) == want)
                    if not same:
                        ctx.violation("mono-forward-mismatch:" + name,
                                      f"forward-only clock at reading {clock.peek()!r}: {name}={v!r}, plain timer model "
                                      f"{want if name == 'expired' else float(want)} (start={float(model.start_at)} "
                                      f"stop={float(model.stop_at)}); ops so far {seq}")
                        return False
                backstep_pending = False      # the timer has now seen the clock
            return True

        for op in case["ops"]:
            kind = op[0]
            ctx.count("mono_op_" + kind)
            if kind == "adv":
                clock.work(op[1])
                grow()
                seq.append(("adv",))
            elif kind == "back":
                clock.step_back(op[1], "script")
                grow(op[1])
                backstep_pending = True
                stepped_in_period = True
                seq.append(("back",))
            elif kind == "backat":
                clock.step_at_call(op[1], op[2])
                grow(op[2])
                ctx.count("mono_backsteps_scheduled_at_a_call")
                stepped_in_period = True
                seq.append(("backat", op[1]))
            elif kind == "rd":
                if not read(op[1]):
                    return
            elif kind in ("start", "restart"):
                if kind == "start":
                    d, s_rel = op[1], op[2]
                    s_abs = None if s_rel is None else clock.peek() + s_rel
                    grow(d, s_abs)
                    ok, ret = guarded(ctx, "MonoTimer.start", timer.start, duration=d, start=s_abs)
                    mret = model.start(duration=d, start=s_abs) if model else None
                else:
                    grow(op[1])
                    ok, ret = guarded(ctx, "MonoTimer.restart", timer.restart, duration=op[1])
                    mret = model.restart(duration=op[1]) if model else None
                if not ok:
                    return
                watch.reset(); exact_watch.reset()
                stepped_in_period = False
                if kind == "start" and s_abs is None:
                    high[0] = clock.peek()          # a fresh start takes a fresh reading
                    raised_since_return[0] = False
                seq.append((kind,))
                if use_model:
                    ctx.count("mono_forward_model_comparisons")
                    if not isinstance(ret, float) or Fraction(ret) != mret:
                        ctx.violation(f"mono-forward-mismatch:{kind}-return",
                                      f"forward-only clock: {kind} returned {ret!r}, plain timer model {float(mret)}; ops so far {seq}")
                        return
                    got_d = timer.duration
                    if Fraction(got_d) != model.duration:
                        ctx.violation("mono-forward-mismatch:duration",
                                      f"after {kind}: duration={got_d!r}, model {float(model.duration)}; ops so far {seq}")
                        return
            else:
                raise AssertionError(kind)
    ctx.seen("mono_sequences" if retro else "mono_noretro_sequences", seq)
    if interesting or (case["forward_only"] and seen_exp == {True, False}):
        ctx.nontrivial([tag, case["dom"], case["forward_only"], seq])
    ctx.sample({"case": case, "events": seq[:40]})


def run_case(case, ctx):
    if case["kind"] == "tymer":
        run_tymer(case, ctx)
    else:
        run_mono(case, ctx)
