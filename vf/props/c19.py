"""C19 - client requests are sent one at a time and answered in FIFO order.

Monitor shape: trace oracle over one global, totally ordered event log (everything runs in one thread, one event per
observable step) + inspection of `client.responses` after every service round.

The real `hio.core.http.clienting.Client` talks to scripted raw HTTP servers owned by the harness (plain sockets, or
Python `ssl` sockets for the https cases).  Every queued request carries a unique id in its path and in an `X-Id`
header; every hop of a redirect chain has its own path `/h<hop>/<id>`, so each request the servers receive is
identified unambiguously.  The servers log, in order: bytes arriving per connection, each completely parsed request,
the moment a response has been written completely (last byte accepted by send()), and every close they perform.

Safety (always judged)
  S1  requests arrive in queue order (hop requests in chain order), each at most once
  S2  no byte arrives at any harness server while the response to an earlier request is not completely written
  S3  `client.responses` only grows at the right end; entry i belongs to queue request i (id in entry['request'] and,
      unless errored, the id echoed by the server); at most one entry per request
  S4  a final response after n redirect hops carries exactly those n hops in `redirects` (status + Location, in
      order); a response to a request that was not redirected carries none
  S5  https -> anything that is not https (http:// in any case, //host:port/ network-path, ws://, htp:// ...) pointing at
      the plain-http sink: no connection and no byte ever reaches the sink, the entry is not a followed redirect
  S6  the bytes of queued request k that arrive (hop 0) carry exactly the body / content-type implied by request k's
      own spec (GET nothing; data -> JSON; fargs -> form; else raw body), and entry k's `request` echo carries request
      k's own method/path/qargs/data/fargs/body (not judged for redirected requests: redirect() rebuilds the requester)
Bounded progress (only while no harness server has closed a connection and no downgrade was scripted)
  P1  after N service rounds (N computed from the script) there is exactly one response per queued request
"""
import copy
import json
from collections import deque
import random
import select
import socket
import ssl
from urllib.parse import parse_qs, parse_qsl, quote, quote_plus, unquote, urlsplit

from hio.base import tyming
from hio.core.http import clienting

from vf import env
from vf.models import httpref

ID = "C19"
LEVEL = "exploration"
RULE = ("a case = one Client with a queue of 1-8 requests (GET/POST/PUT/DELETE/HEAD, bodies, query args) against 1-3 scripted raw "
        "servers; per request a hop chain: 0-2 redirects (301/302/303/307, absolute Location to the same server / another port, or a "
        "relative Location) then a final response; per hop the server answers immediately / after r rounds / dribbling d bytes per "
        "round, framed by Content-Length / chunked / EOF, optionally `Connection: close`, optionally closing mid-response; plain http "
        "or https (hio TLS client against harness ssl sockets) incl. https->https other port and https->plain-http sink (downgrade) with the "
        "Location spelt http:// HTTP:// Http:// //host:port/ (network-path) ws:// htp:// ftp://. Every request carries nothing / a raw body / "
        "JSON `data` / form `fargs` / data+body (keys absent or explicitly None), in every order over 2-3 consecutive requests on a fixed "
        "schedule and at random. "
        "Non-trivial = queue of >= 2 requests or at least one redirect / delay / dribble / close; distinct = by the sequence of "
        "(method, payload kind, per-hop (status, target, delay>0, dribble>0, framing, close kind)) plus scheme and reconnectable.")
ASSUMPTIONS = [
    "the application queues well-formed request dicts and always passes `headers` (a request without headers re-uses the previous request's headers by design of Client.request/transmit)",
    "scripted servers answer with well-formed HTTP/1.1 (malformed responses belong to C13/C16)",
    "after a harness server has closed a connection (Connection: close, EOF-delimited body, close mid-response) only the safety half is asserted",
    "how a refused https->http redirect is reported is not specified by the statement: an exception from service() is counted as the refusal, what is asserted is that nothing reaches the http target",
    "loopback TCP with Nagle switched off on every socket delivers bytes between two rounds of the same process; a missing-progress verdict is re-checked over extra rounds with select() patience",
]
TECHNIQUE = "trace oracle over a single ordered event log written by harness-owned scripted servers + per-round inspection of client.responses (unique ids make the history unambiguous)"
LEVEL_TEXT = ("Every byte the client puts on the wire is observed by harness-owned servers and ordered against the completion of the previous response; "
              "the response deque is inspected after every service round. Queues, server timings, framings, redirect chains and closes are sampled from "
              "VERIF_SEED plus a small enumerated core. Held on what was observed; not a proof for all schedules.")
LEVEL_NOTE = "trusted: vf/models/httpref.py request parser, the scripted server (~200 lines), kernel loopback, Python ssl for the https cases"
NSHARDS = {"quick": 8, "thorough": 16}
PEAK_COUNTERS = ("max_rounds_used",)
TIMEOUT_S = {"quick": 240, "thorough": 1500}
BUDGET_S = {"quick": 25, "thorough": 300}
REQUIRE = {"requests_arrived": 800, "arrival_order_checks": 800, "rx_events_checked_against_outstanding_response": 800,
           "responses_entries_checked": 500, "redirect_histories_checked": 60, "downgrade_cases": 8,
           "rounds_with_response_pending_and_more_requests_queued": 200, "healthy_progress_checks": 100,
           "wire_payload_checks": 500, "wire_payload_checks_after_earlier_data_or_fargs": 100, "entry_request_echo_checks": 400,
           "downgrade_refused_location_not_spelt_http": 8,
           "followup_request_targets_compared_with_location": 300, "followup_targets_with_escaped_reserved_characters": 60,
           "entries_compared_with_server_response_at_end_of_run": 500, "entries_rechecked_after_a_later_response": 200,
           "cases_with_caller_owned_queues": 100, "caller_owned_queue_entries_checked": 200,
           "early_answered_uploads_with_body_still_outstanding": 4, "upload_body_bytes_checked_after_early_response": 4000000, "upload_cases_all_requests_answered": 4,
           "reconnect_progress_checks": 8, "requests_queued_late_while_cut-off-before-retry-timer-expired": 5,
           "requests_queued_late_while_connected": 2, "requests_queued_late_while_reconnecting": 2}
_EXH = ("queues of 1-3 requests x {immediate, delayed, dribbled} x {no redirect, 302 same server, 307 other port} x {client-made queues, caller-owned empty deques passed to the constructor} (each request of the queue "
        "uses the same behaviour); every order of {nothing, raw body, data, fargs} over 2 and 3 consecutive requests x {all POST, POST/DELETE/PUT "
        "with a GET in between}; https->sink with each of 7 Location spellings x {first hop, after one https redirect}; plus reconnect-after-`Connection: close` x next response dribbled {1,2,3,16,all} bytes/round x {GET, POST} x {final length/chunked/EOF-delimited, 302 chunked}")
EXHAUSTIVE = {"quick": _EXH, "thorough": _EXH}

PORT_BASE = 42000
PORT_STRIDE = 450
PORT_OFF = 200          # C19 uses offsets 200..449 of the shard block (C18 uses 0..199)
PORT_SPAN = 250

REASONS = {200: "OK", 201: "Created", 404: "Not Found", 500: "Internal Server Error", 301: "Moved Permanently",
           302: "Found", 303: "See Other", 307: "Temporary Redirect"}
ALPHA = "abcdefghijklmnopqrstuvwxyzABCDEFGHIJKLMNOPQRSTUVWXYZ0123456789"


# --------------------------------------------------------------------------- generation
def gen_hop(rng, final, tls, allow_close, allow_other=True):
    if final:
        status = rng.choice([200, 200, 200, 201, 404, 500])
        target = None
    else:
        status = rng.choice([301, 302, 303, 307])
        target = rng.choice(["same", "same", "same", "other", "other", "other", "other", "same", "relative"] if allow_other
                            else ["same", "same", "same", "relative"])
    r = rng.random()
    delay = 0 if r < 0.5 else rng.randint(1, 6)
    dribble = 0 if rng.random() < 0.55 else rng.choice([1, 2, 3, 7, 16, 40])
    framing = rng.choice(["length", "length", "length", "chunked", "chunked", "eof"]) if (final and allow_close) else \
        rng.choice(["length", "length", "chunked"])
    nbody = rng.choice([0, 0, 5, 20, 60, 300]) if final else rng.choice([0, 0, 10])
    if dribble and dribble <= 3:
        nbody = min(nbody, 20)          # keeps a byte-dribbled response below ~200 rounds
    body = "".join(rng.choice(ALPHA) for _ in range(nbody))
    connclose = bool(allow_close and final and rng.random() < 0.12)
    close_mid = None
    if allow_close and rng.random() < 0.08:
        close_mid = rng.choice([0, 5, 17, 40, 90])
    h = {"status": status, "target": target, "delay": delay, "dribble": dribble, "framing": framing, "body": body,
         "connclose": connclose, "close_mid": close_mid}
    if not final:
        h.update(loc_decor(rng))
    return h


LOC_VALUES = ["ab+cd==", "a&b=c", "/home?a=1&b=2", "100%", "x;y", "frag#ment", "what?now", "a b", "50%25", "\u00fc=\u00e9",
              "https://ex.test/p?x=1&y=%2F#top", "dGVzdA==", "+", "&", "=", "%", ";"]
LOC_KEYS = ["token", "next", "q", "k=1", "a&b", "re turn", "sig"]
LOC_EXTRAS_PLAIN = ["seg/ment", "100%", "a b", "per%25cent", "semi;colon", "\u00fc"]
LOC_EXTRAS_DELIM = ["what?now", "frag#part"]


def loc_decor(rng):
    """escaped query arguments / an escaped extra path segment for a redirect Location"""
    out = {}
    if rng.random() < 0.35:
        keys = rng.sample(LOC_KEYS, rng.randint(1, 3))
        out["locq"] = [[k, rng.choice(LOC_VALUES)] for k in keys]
        out["locenc"] = rng.choice(["percent", "plus"])
    if rng.random() < 0.15:
        out["locextra"] = rng.choice(LOC_EXTRAS_PLAIN + LOC_EXTRAS_PLAIN + LOC_EXTRAS_DELIM)
    return out


BKINDS = ["none", "absent", "body", "data", "fargs", "data+body"]
DOWNGRADE_FORMS = ["http", "HTTP", "Http", "netpath", "ws", "htp", "ftp"]


def payload_of(rng, rid, bkind):
    """The body-ish fields of a request spec: every value contains the request id, so no two requests share one."""
    out = {"bkind": bkind, "body": "", "data": None, "fargs": None, "explicit_none": rng.random() < 0.5}
    if bkind in ("body", "data+body"):
        out["body"] = "raw-" + rid + "-" + "".join(rng.choice(ALPHA) for _ in range(rng.randint(0, 60)))
    if bkind in ("data", "data+body"):
        out["data"] = {"rid": rid, "n": rng.randint(0, 999), "list": [rid, rng.randint(0, 9)], "nested": {"k": "v " + rid}}
    if bkind == "fargs":
        out["fargs"] = {"rid": rid, "name": "".join(rng.choice(ALPHA) for _ in range(rng.randint(1, 12))), "n": str(rng.randint(0, 99))}
    return out


def gen_req(rng, rid, tls, allow_close, allow_other=True):
    method = rng.choice(["GET", "GET", "GET", "POST", "POST", "PUT", "DELETE", "HEAD"])
    bkind = rng.choice(["none", "none", "absent", "body", "body", "data", "data", "fargs", "fargs", "data+body"])
    nred = rng.choice([0, 0, 0, 0, 1, 1, 2])
    hops = [gen_hop(rng, False, tls, allow_close, allow_other) for _ in range(nred)] + [gen_hop(rng, True, tls, allow_close)]
    r = {"id": rid, "method": method, "qargs": rng.choice([None, None, {"a": "1"}, {"k": rid, "z": "9"}]),
         "extra": rng.random() < 0.5, "hops": hops}
    r.update(payload_of(rng, rid, bkind))
    return r


def fixed_req(rid, timing, redirect):
    def hop(status, target):
        return {"status": status, "target": target, "delay": 3 if timing == "delayed" else 0,
                "dribble": 5 if timing == "dribbled" else 0, "framing": "length", "body": "payload-" + rid,
                "connclose": False, "close_mid": None}
    hops = []
    if redirect == "same":
        hops.append(hop(302, "same"))
    elif redirect == "other":
        hops.append(hop(307, "other"))
    hops.append(hop(200, None))
    return {"id": rid, "method": "GET", "body": "", "qargs": None, "extra": False, "hops": hops}


def cases(tier, seed, shard, nshards):
    import itertools
    i = 0
    for n in (1, 2, 3):
        for timing in ("immediate", "delayed", "dribbled"):
            for redirect in ("none", "same", "other"):
                for own in (False, True):
                    if i % nshards == shard:
                        yield {"kind": "enum", "tls": False, "reconnectable": False, "own_queues": own,
                               "reqs": [fixed_req(f"E{i}q{j}", timing, redirect) for j in range(n)]}
                    i += 1
    # directed family: server closes after a `Connection: close` response, a reconnectable client reconnects and the
    # next response arrives d bytes per round (the receive buffer runs empty between reads on the NEW connection)
    for d in (1, 2, 3, 16, 0):
        for method in ("GET", "POST"):
            for redirect, framing in (("none", "length"), ("none", "chunked"), ("none", "eof"), ("same", "chunked")):
                if i % nshards == shard:
                    reqs = [fixed_req(f"K{i}q{j}", "immediate", "none") for j in range(3)]
                    reqs[0]["hops"][-1]["connclose"] = True
                    reqs[1] = fixed_req(f"K{i}q1", "immediate", redirect)
                    reqs[1]["method"] = method
                    reqs[1]["body"] = "reconnect-body" if method == "POST" else ""
                    reqs[1]["hops"][0]["dribble"] = d     # the first response on the NEW connection arrives d bytes per round
                    reqs[1]["hops"][0]["framing"] = framing
                    yield {"kind": "reconnect", "tls": False, "reconnectable": True, "reqs": reqs}
                i += 1
    # fixed schedule: every order of {nothing, raw body, data, fargs} over 2 and 3 consecutive non-GET requests of one
    # client (+ the same with a GET / a key-less request in between): what request k puts on the wire and what its
    # entry echoes must be request k's own, whatever the earlier requests carried
    frng = random.Random("C19:bodymix")
    for ln in (2, 3):
        for kinds in itertools.product(["none", "body", "data", "fargs"], repeat=ln):
            for variant in ("post", "mixed"):
                if i % nshards == shard:
                    reqs = []
                    for j, bk in enumerate(kinds):
                        r = fixed_req(f"M{i}q{j}", "immediate", "none")
                        r["method"] = "POST" if variant == "post" else ["POST", "DELETE", "PUT"][j % 3]
                        r.update(payload_of(frng, r["id"], bk))
                        r["explicit_none"] = (variant == "post")
                        reqs.append(r)
                        if variant == "mixed" and j == 0:
                            g = fixed_req(f"M{i}g{j}", "immediate", "none")     # a GET in between sends no body at all
                            g.update(payload_of(frng, g["id"], "absent"))
                            reqs.append(g)
                    yield {"kind": "bodymix", "tls": False, "reconnectable": False, "reqs": reqs}
                i += 1
    # fixed schedule: https client, one request redirected to the plain-http sink C with every Location spelling
    for form in DOWNGRADE_FORMS:
        for pre in (0, 1):
            if i % nshards == shard:
                r = fixed_req(f"D{i}q0", "immediate", "same" if pre else "none")
                r["hops"] = r["hops"][:pre] + [dict(r["hops"][-1], status=307, target="downgrade", locform=form)]
                after = fixed_req(f"D{i}q1", "immediate", "none")
                yield {"kind": "downgrade", "tls": True, "reconnectable": False, "reqs": [r, after]}
            i += 1
    # fixed schedule: Locations whose query / path carry percent-encoded reserved characters (callback urls, base64 tokens)
    curated = [{"locq": [["token", "ab+cd=="], ["next", "/home?a=1&b=2"]]},
               {"locq": [["next", "https://ex.test/p?x=1&y=%2F#top"], ["sig", "dGVzdA=="]], "locenc": "plus"},
               {"locq": [["q", "100%"], ["k=1", "x;y"], ["a&b", "50%25"]]},
               {"locq": [["re turn", "a b"], ["q", "frag#ment"], ["sig", "what?now"]], "locenc": "plus"},
               {"locq": [["token", "+"], ["q", "&"], ["sig", "="]]},
               {"locextra": "seg/ment"}, {"locextra": "100%"}, {"locextra": "per%25cent", "locq": [["q", "a&b=c"]]},
               {"locextra": "what?now"}, {"locextra": "frag#part", "locq": [["token", "ab+cd=="]]}]
    for target in ("relative", "same", "other"):
        for deco in curated:
            if i % nshards == shard:
                r = fixed_req(f"L{i}q0", "immediate", "same")
                r["hops"][0].update(target=target, status=302, **deco)
                yield {"kind": "locesc", "tls": False, "reconnectable": False,
                       "reqs": [r, fixed_req(f"L{i}q1", "immediate", "none")]}
            i += 1
    # fixed schedule: an upload larger than the socket buffers is answered 3xx as soon as its head is read; the server
    # keeps reading the announced body (after dawdling `pause` rounds); follow-up and two more queued requests
    for target in ("same", "relative", "other"):
        for method in ("POST", "PUT"):
            for biglen, pause in (((3 << 20) + 17, 0), ((2 << 20) + 1, 12)) if tier != "quick" else (((2 << 20) + 1, 6),):
                if i % nshards == shard:
                    r = fixed_req(f"U{i}q0", "immediate", "same")
                    r["hops"][0].update(status=307, target=target, early=True, pause=pause)
                    r.update(method=method, bkind="big", biglen=biglen)
                    yield {"kind": "upload", "tls": False, "reconnectable": False, "srv_rcvbuf": 16384, "client_bs": 65536,
                           "reqs": [r, fixed_req(f"U{i}q1", "immediate", "none"), fixed_req(f"U{i}q2", "delayed", "none")]}
                i += 1
    # fixed schedule: reconnectable client (retry timer on a hand-ticked Tymist), server closes after EVERY response;
    # request j is queued `queue_after` rounds after the entry of request j-1 appeared: before the cut-off is noticed,
    # while cut off before the retry timer expires, after it expired / while reconnecting
    for tock in (0.125, 0.03125):
        for qa in ((0, 1, 3, 6), (2, 9, 20, 45), (4, 0, 13, 70)) if tier != "quick" else ((0, 1, 3, 6), (2, 9, 20, 45)):
            for upfront in (0, 2):
                if i % nshards == shard:
                    reqs = [fixed_req(f"Z{i}q{j}", "immediate", "none") for j in range(1 + len(qa))]
                    for j, r in enumerate(reqs):
                        r["hops"][-1]["connclose"] = True
                        r["method"] = ["GET", "POST", "GET", "PUT", "DELETE"][j % 5]
                        if r["method"] in ("POST", "PUT"):
                            r.update(bkind="body", body="late-" + r["id"])
                        if j > upfront:
                            r["queue_after"] = qa[j - 1]
                    yield {"kind": "closeeach", "tls": False, "reconnectable": True, "tymeout": 1.0, "tock": tock, "reqs": reqs}
                i += 1
    rng = random.Random(f"{seed}:C19:{shard}")
    nrand = (720 if tier == "quick" else 24000) // nshards
    for c in range(nrand):
        r = rng.random()
        tls = r < 0.14
        kind = "rand"
        allow_close = rng.random() < 0.35
        nreq = rng.choice([1, 2, 2, 3, 3, 4, 5, 6, 8])
        if tls:
            nreq = rng.choice([1, 2, 3])
        reqs = [gen_req(rng, f"Q{shard}c{c}r{j}", tls, allow_close) for j in range(nreq)]
        if tls and rng.random() < 0.6:
            # one request of the queue is redirected from https to http
            k = rng.randrange(nreq)
            h = gen_hop(rng, False, tls, False)
            h["target"] = "downgrade"
            h.pop("locextra", None)
            h["locform"] = rng.choice(DOWNGRADE_FORMS)
            h["close_mid"] = None
            reqs[k]["hops"] = [x for x in reqs[k]["hops"] if x["target"] is not None][:rng.choice([0, 0, 1])] + [h]
            for hh in reqs[k]["hops"]:
                hh["close_mid"] = None
                if hh["target"] == "relative":
                    hh["target"] = "same"
            kind = "downgrade"
        if not tls and rng.random() < 0.06:
            # random members of the close-after-every-response family
            reqs = [gen_req(rng, f"Y{shard}c{c}r{j}", False, False) for j in range(rng.randint(2, 5))]
            for j, r in enumerate(reqs):
                r["hops"] = [h for h in r["hops"] if h["target"] is None]
                r["hops"][-1].update(connclose=True, framing="length", close_mid=None)
                if j and rng.random() < 0.7:
                    r["queue_after"] = rng.choice([0, 1, 2, 3, 5, 8, 13, 21, 34, 60])
            yield {"kind": "closeeach", "tls": False, "reconnectable": True, "tymeout": rng.choice([0.5, 1.0, 2.0]),
                   "tock": rng.choice([0.125, 0.0625, 0.03125]), "reqs": reqs}
            continue
        yield {"kind": kind, "tls": tls, "reconnectable": rng.random() < 0.3, "own_queues": rng.random() < 0.3, "reqs": reqs}


# --------------------------------------------------------------------------- scripted raw server
class World:
    """Shared state of one case: the ordered event log and the oracle state fed by the servers."""

    def __init__(self, ctx, case):
        self.ctx = ctx
        self.case = case
        self.log = []
        self.script = {r["id"]: r for r in case["reqs"]}
        self.ids = [r["id"] for r in case["reqs"]]
        self.expected = []            # [(id, hop)] in the order requests must arrive
        for r in case["reqs"]:
            for h in range(len(r["hops"])):
                self.expected.append((r["id"], h))
        self.arrived = []             # [(id, hop)] as parsed by the servers
        self.outstanding = None       # (id, hop) whose response is not yet completely written
        self.server_closed = False    # a harness server closed a connection (after that: safety only)
        self.ports = {}
        self.sent = {}                # (id, hop) -> status / headers / body the scripted server put on the wire
        self.done = set()             # (id, hop) whose response was written completely
        self.client = None
        self.app_requests = None
        self.app_responses = None
        self.accepts = 0
        self.issued = {}              # (id, hop) -> Location value the scripted server actually sent
        self.entry_ids = []           # request ids of the entries of client.responses seen so far
        _state["addrs"].clear()
        self.client_addrs = _state["addrs"]   # local addresses of every connect_ex() made in this process (see setup)
        self.rnd = 0
        self.violated = set()

    def ev(self, *a):
        self.log.append([self.rnd] + list(a))

    def abandoned(self, oid, ohop):
        """How does the client stand to the outstanding response (oid, ohop) at the moment more request bytes arrive?
        If it already holds an entry for that request, or is already following that hop's redirect, it took a response
        for finished which the server is still writing; otherwise it is plain pipelining."""
        cl = self.client
        if cl is not None:
            for e in list(self.app_responses):
                hdrs = (e.get("request") or {}).get("headers") or {}
                if hdrs.get("X-Id") == oid:
                    return "client-ended-previous-response-early"
            mine = [r for r in list(cl.redirects) if ((r.get("request") or {}).get("headers") or {}).get("X-Id") == oid]
            if len(mine) > ohop:
                return "client-ended-previous-response-early"
        return "no-entry-for-previous-request-yet"

    def viol(self, key, msg):
        if key in self.violated:
            return
        self.violated.add(key)
        self.ctx.violation(key, msg, trace=self.log[-80:])


class RConn:
    def __init__(self, sock, idx, tls):
        self.sock = sock
        self.idx = idx
        self.tls = tls
        self.shaken = not tls
        self.rbuf = bytearray()
        self.queue = []
        self.cur = None
        self.closed = False
        self.peer_eof = False
        self.skip = 0             # body bytes of an early-answered request that are still to arrive
        self.skip_req = None      # its spec (the bytes are compared with the spec's body as they come)
        self.skip_off = 0
        self.pause = 0            # rounds during which this connection is not read


class RawServer:
    def __init__(self, world, name, port, tlsctx=None, sink=False):
        self.w = world
        self.name = name
        self.port = port
        self.tlsctx = tlsctx
        self.sink = sink          # a sink must never see a connection (https->http target)
        self.conns = []
        self.nconn = 0
        self.ls = socket.socket(socket.AF_INET, socket.SOCK_STREAM)
        self.ls.setsockopt(socket.SOL_SOCKET, socket.SO_REUSEADDR, 1)
        if world.case.get("srv_rcvbuf"):
            # inherited by the accepted sockets: a small window, so that a large upload cannot leave the client in one send()
            self.ls.setsockopt(socket.SOL_SOCKET, socket.SO_RCVBUF, world.case["srv_rcvbuf"])
        try:
            self.ls.bind(("127.0.0.1", port))
            self.ls.listen(16)
        except OSError:
            self.ls.close()
            raise
        self.ls.setblocking(False)

    def close(self):
        for c in self.conns:
            self._close(c, log=False)
        try:
            self.ls.close()
        except OSError:
            pass

    def _close(self, c, log=True, why=""):
        if not c.closed:
            c.closed = True
            try:
                c.sock.close()
            except OSError:
                pass
            if log:
                self.w.ev("server_closed", self.name, c.idx, why)

    # ---- one round ----
    def step(self):
        w = self.w
        while True:
            try:
                s, addr = self.ls.accept()
            except (BlockingIOError, InterruptedError):
                break
            except OSError:
                break
            if addr not in w.client_addrs:
                # not the client under test (other processes on this machine probe/scan ports): ignored entirely
                w.ctx.count("foreign_connections_ignored")
                w.ev("foreign_connection_ignored", self.name, list(addr))
                try:
                    s.close()
                except OSError:
                    pass
                continue
            s.setsockopt(socket.IPPROTO_TCP, socket.TCP_NODELAY, 1)
            s.setblocking(False)
            if self.tlsctx is not None:
                s = self.tlsctx.wrap_socket(s, server_side=True, do_handshake_on_connect=False)
            c = RConn(s, self.nconn, self.tlsctx is not None)
            self.nconn += 1
            self.conns.append(c)
            w.ev("accept", self.name, c.idx)
            w.ctx.count("connections_accepted")
            w.accepts += 1
            if self.sink:
                w.viol("downgrade-followed:connection-to-http-target",
                       f"the client opened a connection to the http target {self.name} after an https -> http redirect")
        for c in self.conns:
            if not c.closed:
                self._step_conn(c)

    def _step_conn(self, c):
        w = self.w
        if not c.shaken:
            try:
                c.sock.do_handshake()
                c.shaken = True
                w.ev("tls_ready", self.name, c.idx)
            except (ssl.SSLWantReadError, ssl.SSLWantWriteError):
                return
            except (ssl.SSLError, OSError) as ex:
                w.ev("tls_failed", self.name, c.idx, repr(ex)[:80])
                self._close(c, why="tls-failed")
                return
        # read everything that is there (unless the script says this server dawdles over an upload)
        if c.pause > 0:
            c.pause -= 1
            w.ctx.count("upload_rounds_server_not_reading")
        while not c.peer_eof and c.pause == 0:
            try:
                d = c.sock.recv(65536)
            except (BlockingIOError, InterruptedError, ssl.SSLWantReadError, ssl.SSLWantWriteError):
                break
            except (ssl.SSLError, OSError) as ex:
                w.ev("peer_reset", self.name, c.idx, type(ex).__name__)
                c.peer_eof = True
                break
            if not d:
                c.peer_eof = True
                w.ev("peer_eof", self.name, c.idx)
                break
            if c.skip:
                # the rest of a body whose request was answered early: these bytes belong to that request
                n = min(len(d), c.skip)
                want = upload_bytes(c.skip_req, c.skip_off, n)
                if bytes(d[:n]) != want:
                    at = next(k for k in range(n) if d[k] != want[k])
                    w.viol("upload-body-corrupted-after-early-response",
                           f"body byte {c.skip_off + at} of request {c.skip_req['id']} (answered early with a redirect, body still "
                           f"being sent) is not the request's own: got {bytes(d[at:at + 60])!r}, expected {want[at:at + 30]!r}")
                    c.skip = 0
                    self._close(c, why="upload-corrupted")
                    w.server_closed = True
                    return
                w.ctx.count("upload_body_bytes_checked_after_early_response", n)
                c.skip -= n
                c.skip_off += n
                d = d[n:]
                if not d:
                    continue
            w.ev("rx", self.name, c.idx, len(d))
            w.ctx.count("rx_events_checked_against_outstanding_response")
            if self.sink:
                w.viol("downgrade-followed:bytes-to-http-target", f"{len(d)} request bytes reached the http target {self.name}")
            if w.outstanding is not None:
                oid, ohop = w.outstanding
                # did the client already give up on the outstanding request (an entry for it exists)?  Then it is not
                # plain pipelining but a response abandoned half-way with the next request sent into the same stream.
                how = w.abandoned(oid, ohop)
                w.viol("request-bytes-before-previous-response-complete:" + how,
                       f"{len(d)} bytes {bytes(d[:60])!r} arrived at {self.name}#{c.idx} while the response to {oid} hop {ohop} "
                       f"was not yet completely written by the scripted server")
            c.rbuf.extend(d)
        # parse complete requests
        while True:
            if c.skip:
                break
            try:
                early = self._early(c)
            except httpref.HttpRefError:
                early = False
            if early:
                continue
            try:
                msg, used = httpref.parse_request(c.rbuf)
            except httpref.HttpRefError as ex:
                w.viol("client-sent-malformed-request:" + ex.why, f"{self.name}#{c.idx}: {ex}; bytes {bytes(c.rbuf[:120])!r}")
                self._close(c, why="malformed")
                w.server_closed = True
                return
            if msg is None:
                break
            del c.rbuf[:used]
            self._arrived(c, msg)
        # answer, one response at a time per connection
        if c.cur is None and c.queue and not c.closed:
            c.cur = c.queue.pop(0)
        if c.cur is not None and not c.closed:
            self._write(c)
        if c.peer_eof and c.cur is None and not c.queue and not c.closed:
            self._close(c, log=False)

    def _early(self, c):
        """A scripted hop with early=True is answered as soon as its HEAD is here; the announced body is read afterwards."""
        w = self.w
        ph = httpref.parse_request_head(c.rbuf)
        if ph is None:
            return False
        msg, head_len, kind, length = ph
        rid = msg.get("x-id")
        req = w.script.get(rid)
        if req is None or kind != "length" or not length or not msg.target.startswith("/h0/") or not req["hops"][0].get("early"):
            return False
        del c.rbuf[:head_len]
        c.skip, c.skip_req, c.skip_off = length, req, 0
        c.pause = req["hops"][0].get("pause", 0)
        w.ctx.count("early_answered_uploads")
        if length != req.get("biglen"):
            w.viol("request-payload-on-wire:not-its-own", f"request {rid} announces Content-Length {length}, its body has {req.get('biglen')} bytes")
        # whatever body bytes came with the head
        n = min(len(c.rbuf), c.skip)
        if n:
            if bytes(c.rbuf[:n]) != upload_bytes(req, 0, n):
                w.viol("upload-body-corrupted-after-early-response", f"first {n} body bytes of request {rid} are not its own")
            del c.rbuf[:n]
            c.skip -= n
            c.skip_off += n
        if c.skip:
            w.ctx.count("early_answered_uploads_with_body_still_outstanding")
        self._arrived(c, msg, early=True)
        return True

    def _arrived(self, c, msg, early=False):
        w = self.w
        rid = msg.get("x-id")
        path = msg.target.split("?")[0]
        parts = path.strip("/").split("/")
        hop = None
        if len(parts) >= 2 and parts[0][:1] == "h" and parts[0][1:].isdigit():
            hop = int(parts[0][1:])
        key = (rid, hop)
        w.ev("req", self.name, c.idx, msg.method, msg.target, rid)
        w.ctx.count("requests_arrived")
        if rid not in w.script or hop is None or parts[1] != rid or hop >= len(w.script[rid]["hops"]):
            w.viol("unknown-request-on-wire", f"{msg.method} {msg.target} X-Id={rid!r} matches no scripted request/hop")
            plan = {"data": b"HTTP/1.1 599 Unknown\r\nContent-Length: 0\r\n\r\n", "off": 0, "wait": 0, "dribble": 0,
                    "close_mid": None, "close_after": False, "key": key}
            c.queue.append(plan)
            w.outstanding = key
            return
        # S1: arrival order
        w.ctx.count("arrival_order_checks")
        n = len(w.arrived)
        if key in w.arrived:
            w.viol("request-arrived-twice", f"request {rid} hop {hop} arrived a second time at {self.name}")
        elif not w.server_closed or w.case.get("kind") == "closeeach":
            if n >= len(w.expected) or w.expected[n] != key:
                w.viol("request-arrival-out-of-order",
                       f"arrival #{n} is {rid} hop {hop}, queue order says {w.expected[n] if n < len(w.expected) else None}")
        else:
            last = max((w.expected.index(a) for a in w.arrived if a in w.expected), default=-1)
            if w.expected.index(key) < last:
                w.viol("request-arrival-out-of-order", f"(after a server close) {rid} hop {hop} arrived after a later request")
        w.arrived.append(key)
        req = w.script[rid]
        h = req["hops"][hop]
        if hop == 0 and self.name != "A":
            # the client stays on the server a previous redirect took it to (statement is silent): counted only
            w.ctx.count("request_sent_to_previous_redirect_target")
        if msg.method != req["method"]:
            w.ctx.count("hop_method_differs_from_original")
        if hop > 0 and (rid, hop - 1) in w.issued:
            # S7: the follow-up request asks for the resource the Location names (decoded path, ordered decoded qargs)
            prev = req["hops"][hop - 1]
            lsp = urlsplit(w.issued[(rid, hop - 1)])
            tsp = urlsplit(msg.target)
            want_path, got_path = unquote(lsp.path), unquote(tsp.path)
            want_q = parse_qsl(lsp.query, keep_blank_values=True)
            got_q = parse_qsl(tsp.query, keep_blank_values=True)
            w.ctx.count("followup_request_targets_compared_with_location")
            if prev.get("locq") or prev.get("locextra"):
                w.ctx.count("followup_targets_with_escaped_reserved_characters")
            if got_path != want_path:
                extra = prev.get("locextra") or ""
                why = "encoded-delimiter-in-path" if ("?" in extra or "#" in extra) else "path-differs"
                w.viol("redirect-followed-to-other-resource:" + why,
                       f"Location {w.issued[(rid, hop - 1)]!r} names path {want_path!r}; the follow-up request line is {msg.target!r} (path {got_path!r}, qargs {got_q})")
            elif got_q != want_q:
                w.viol("redirect-followed-to-other-resource:query-arguments-differ",
                       f"Location {w.issued[(rid, hop - 1)]!r} names qargs {want_q}; the follow-up request line is {msg.target!r} (qargs {got_q})")
        if hop == 0 and not early and bkind_of(req) == "big":
            w.ctx.count("upload_bodies_received_whole")
            if msg.body != upload_bytes(req, 0, req["biglen"]):
                w.viol("request-payload-on-wire:not-its-own", f"upload body of request {rid}: {len(msg.body)} bytes, differs from the spec's {req['biglen']}")
        elif hop == 0 and not early:
            w.ctx.count("wire_payload_checks")
            w.ctx.count("wire_payload_kind_" + bkind_of(req))
            qi = w.ids.index(rid)
            if any(bkind_of(e) in ("data", "fargs", "data+body") for e in w.case["reqs"][:qi]) and \
                    bkind_of(req) not in ("data", "data+body"):
                w.ctx.count("wire_payload_checks_after_earlier_data_or_fargs")
            if not wire_payload_matches(req, msg):
                stale = next((e for e in w.case["reqs"][:qi] if bkind_of(e) not in ("none", "absent")
                              and wire_payload_matches(dict(e, method=req["method"]), msg)), None)
                what = (f"stale-{bkind_of(stale).split('+')[0]}-of-earlier-request" if stale is not None else "not-its-own")
                w.viol("request-payload-on-wire:" + what,
                       f"request {rid} ({req['method']}, spec {bkind_of(req)}: body={req.get('body')!r} data={req.get('data')!r} "
                       f"fargs={req.get('fargs')!r}) arrived with content-type {msg.get('content-type')!r} and body "
                       f"{msg.body[:120]!r}" + (f" = the payload of the earlier request {stale['id']}" if stale is not None else ""))
        c.queue.append(self._plan(req, hop, h, msg, key))
        w.outstanding = key

    def _plan(self, req, hop, h, msg, key):
        w = self.w
        rid = req["id"]
        status = h["status"]
        lines = [f"HTTP/1.1 {status} {REASONS[status]}", f"X-Echo-Id: {rid}", f"X-Hop: {hop}", "Content-Type: text/plain"]
        if h["target"] is not None:
            loc = location(w, req, hop, self.name)
            w.issued[(rid, hop)] = loc
            lines.append("Location: " + loc)
        body = h["body"].encode("latin-1")
        framing = h["framing"]
        head_only = msg.method == "HEAD"
        if head_only and framing != "length":
            framing = "length"
        if h["connclose"]:
            lines.append("Connection: close")
        if framing == "length":
            lines.append(f"Content-Length: {len(body)}")
            payload = b"" if head_only else body
        elif framing == "chunked":
            lines.append("Transfer-Encoding: chunked")
            payload = bytearray()
            pos = 0
            step = max(1, len(body) // 3)
            while pos < len(body):
                chunk = body[pos:pos + step]
                payload += b"%x\r\n" % len(chunk) + chunk + b"\r\n"
                pos += step
            payload += b"0\r\n\r\n"
            payload = bytes(payload)
        else:   # eof-delimited
            payload = body
        w.sent[(rid, hop)] = {"status": status, "headers": [ln.split(": ", 1) for ln in lines[1:]],
                              "body": b"" if head_only else body}
        data = ("\r\n".join(lines) + "\r\n\r\n").encode("latin-1") + payload
        close_mid = h["close_mid"]
        if close_mid is not None:
            close_mid = min(close_mid, max(len(data) - 1, 0))
        return {"data": data, "off": 0, "wait": h["delay"], "dribble": h["dribble"], "close_mid": close_mid,
                "close_after": h["connclose"] or framing == "eof", "key": key}

    def _write(self, c):
        w = self.w
        p = c.cur
        if p["wait"] > 0:
            p["wait"] -= 1
            w.ctx.count("delay_rounds")
            return
        if p["close_mid"] is not None and p["off"] >= p["close_mid"]:
            w.ev("close_mid", self.name, c.idx, p["key"], p["off"])
            self._close(c, why="mid-response")
            w.server_closed = True
            if w.outstanding == p["key"]:
                w.outstanding = None
            c.cur = None
            return
        end = len(p["data"])
        if p["dribble"]:
            end = min(end, p["off"] + p["dribble"])
        if p["close_mid"] is not None:
            end = min(end, max(p["close_mid"], p["off"]))
        if end > p["off"]:
            try:
                sent = c.sock.send(p["data"][p["off"]:end])
            except (BlockingIOError, InterruptedError, ssl.SSLWantReadError, ssl.SSLWantWriteError):
                sent = 0
            except (ssl.SSLError, OSError) as ex:
                w.ev("send_failed", self.name, c.idx, type(ex).__name__)
                self._close(c, why="send-failed")
                w.server_closed = True
                if w.outstanding == p["key"]:
                    w.outstanding = None
                c.cur = None
                return
            p["off"] += sent
            if sent:
                w.ev("tx", self.name, c.idx, sent)
        if p["off"] >= len(p["data"]) and p["close_mid"] is None:
            w.ev("resp_done", self.name, c.idx, p["key"])
            w.done.add(tuple(p["key"]))
            w.ctx.count("responses_completely_written")
            if w.outstanding == p["key"]:
                w.outstanding = None
            c.cur = None
            if p["close_after"]:
                self._close(c, why="after-response")
                w.server_closed = True


def location(w, req, hop, here):
    """Location header value of hop `hop` (a redirect) of request req, issued by server `here`."""
    h = req["hops"][hop]
    path = f"/h{hop + 1}/{req['id']}"
    q = quote_plus if h.get("locenc") == "plus" else (lambda t: quote(t, safe=""))
    if h.get("locextra"):               # an extra path segment with escaped characters
        path += "/" + quote(h["locextra"], safe="")
    if h.get("locq"):                   # query arguments with escaped reserved characters
        path += "?" + "&".join(q(k) + "=" + q(v) for k, v in h["locq"])
    scheme = "https" if w.case["tls"] else "http"
    host = "localhost" if w.case["tls"] else "127.0.0.1"
    if h["target"] == "relative":
        return path
    if h["target"] == "same":
        return f"{scheme}://{host}:{w.ports[here]}{path}"
    if h["target"] == "other":
        return f"{scheme}://{host}:{w.ports['B' if here == 'A' else 'A']}{path}"
    if h["target"] == "downgrade":
        form = h.get("locform", "http")
        rest = f"{host}:{w.ports['C']}{path}"
        return "//" + rest if form == "netpath" else f"{form}://{rest}"
    raise AssertionError(h["target"])


# --------------------------------------------------------------------------- harness
_state = {"ctr": 0, "tlsctx": None, "addrs": set(), "hooked": False}


def server_tls_context():
    if _state["tlsctx"] is None:
        certs = env.certs_dir()
        ctx = ssl.SSLContext(ssl.PROTOCOL_TLS_SERVER)
        ctx.load_cert_chain(certfile=certs + "/server_cert.pem", keyfile=certs + "/server_key.pem")
        ctx.verify_mode = ssl.CERT_NONE
        _state["tlsctx"] = ctx
    return _state["tlsctx"]


def open_raw(ctx, world, name, tlsctx=None, sink=False):
    last = None
    for _ in range(60):
        port = PORT_BASE + (ctx.shard % 16) * PORT_STRIDE + PORT_OFF + (_state["ctr"] % PORT_SPAN)
        _state["ctr"] += 1
        try:
            return RawServer(world, name, port, tlsctx=tlsctx, sink=sink)
        except OSError as ex:
            last = ex
            ctx.count("bind_retries")
    raise RuntimeError(f"no free port in the C19 shard range ({last})")


def setup(ctx):
    """Class-level hook on socket.connect_ex: records the local address of every connection attempt made in this
    process.  Only the client under test connects with connect_ex (the harness servers only accept), so an accepted
    peer address that is not in this set belongs to some other process on the machine and is ignored."""
    if not _state.get("hooked"):
        orig = socket.socket.connect_ex

        def connect_ex(self, address):
            rc = orig(self, address)
            try:
                _state["addrs"].add(self.getsockname())
            except OSError:
                pass
            return rc
        socket.socket.connect_ex = connect_ex
        _state["hooked"] = True


def nodelay(client, seen, w):
    cs = getattr(client.connector, "cs", None)
    if cs is not None and id(cs) not in seen:
        try:
            cs.setsockopt(socket.IPPROTO_TCP, socket.TCP_NODELAY, 1)
            seen.add(id(cs))
        except OSError:
            pass


def request_dict(r):
    hdrs = [("X-Id", r["id"]), ("Accept", "*/*")]
    if r["extra"]:
        hdrs.append(("X-Extra", "e-" + r["id"]))
    d = {"method": r["method"], "path": f"/h0/{r['id']}", "headers": dict(hdrs),
         "qargs": dict(r["qargs"]) if r["qargs"] else dict(), "fragment": "",
         "reply": {"rid": r["id"]}}
    bk = bkind_of(r)
    if bk == "big":
        d["body"] = upload_bytes(r, 0, r["biglen"])
    elif bk in ("body", "data+body"):
        d["body"] = r["body"].encode("latin-1")
    elif bk == "none":
        d["body"] = b""
    if bk in ("data", "data+body"):
        d["data"] = copy.deepcopy(r["data"])
    if bk == "fargs":
        d["fargs"] = dict(r["fargs"])
    if r.get("explicit_none"):          # what Client.request() stores for fields that were not given
        for k in ("body", "data", "fargs"):
            d.setdefault(k, None)
    return d


def upload_bytes(r, off, n):
    """bytes [off, off+n) of the large body of request spec r (a repeated unit that contains the request id)"""
    unit = ("<" + r["id"] + ":upload-0123456789abcdefghijklmnopqrstuvwxyz>").encode("latin-1")
    start = off % len(unit)
    reps = (start + n) // len(unit) + 1
    return (unit * reps)[start:start + n]


def entry_vs_sent(w, e, rid):
    """[(field, detail)] where entry e differs from what the scripted server put on the wire for it; None when the
    entry is not comparable (errored, or its response was not written completely)."""
    if e.get("errored"):
        return None
    rh = e.get("headers") or {}
    xhop = rh.get("X-Hop") if hasattr(rh, "get") else None
    if xhop is None or not str(xhop).isdigit():
        return None
    key = (rid, int(xhop))
    if key not in w.sent or key not in w.done:
        return None
    sent = w.sent[key]
    out = []
    if e.get("status") != sent["status"]:
        out.append(("status", f"{e.get('status')!r} != {sent['status']!r}"))
    for n, v in sent["headers"]:
        if rh.get(n) != v:
            out.append(("headers", f"{n}: {rh.get(n)!r} != {v!r}"))
            break
    body = bytes(e.get("body") or b"")
    if body != sent["body"]:
        out.append(("body", f"{len(body)} bytes {body[:40]!r} != {len(sent['body'])} bytes {sent['body'][:40]!r}"))
    return out


def bkind_of(r):
    return r.get("bkind") or ("body" if r.get("body") else "none")


def wire_payload_matches(spec, msg):
    """Is the body / content-type of the request `msg` on the wire the one implied by `spec` alone?
    (GET sends nothing; data -> JSON; fargs -> form; else the raw body; compared by meaning, not by spelling)"""
    bk = bkind_of(spec)
    ctype = (msg.get("content-type") or "").lower()
    if spec["method"] == "GET" or bk in ("none", "absent"):
        return msg.body == b"" and (spec["method"] == "GET" or not ctype)
    if bk in ("data", "data+body"):
        try:
            return ctype.startswith("application/json") and json.loads(msg.body.decode("utf-8")) == spec["data"]
        except ValueError:
            return False
    if bk == "fargs":
        try:
            got = parse_qs(msg.body.decode("utf-8"), keep_blank_values=True, strict_parsing=True) if msg.body else {}
        except ValueError:
            return False
        return ctype.startswith("application/x-www-form-urlencoded") and got == {k: [str(v)] for k, v in spec["fargs"].items()}
    return msg.body == spec["body"].encode("latin-1") and not ctype


def rounds_budget(case):
    n = 40
    for r in case["reqs"]:
        for h in r["hops"]:
            size = 260 + len(h["body"]) * 2       # head + body (chunk framing included)
            # an escaped Location can be long: every character may take three bytes
            size += 3 * (sum(len(k) + len(v) + 2 for k, v in h.get("locq") or ()) + len(h.get("locextra") or ""))
            n += h["delay"] + (size // h["dribble"] + 2 if h["dribble"] else 1) + 8
            if h["target"] in ("other", "downgrade"):
                n += 12 if case["tls"] else 4
        if r.get("biglen"):
            n += r["biglen"] // 16384 + r["hops"][0].get("pause", 0) + 30
        n += r.get("queue_after", 0)
    if case["tls"]:
        n += 20
    if case.get("kind") == "closeeach":
        n += len(case["reqs"]) * (int(3 * case["tymeout"] / case["tock"]) + 20)
    return n


def run_case(case, ctx):
    setup(ctx)
    world = World(ctx, case)
    servers = []
    client = None
    try:
        tctx = server_tls_context() if case["tls"] else None
        a = open_raw(ctx, world, "A", tctx)
        servers.append(a)
        b = open_raw(ctx, world, "B", tctx)
        servers.append(b)
        world.ports = {"A": a.port, "B": b.port}
        if case["tls"]:
            c = open_raw(ctx, world, "C", None, sink=True)
            servers.append(c)
            world.ports["C"] = c.port
        tymist = tyming.Tymist(tyme=0.0, tock=case.get("tock", 0.125))
        kwa = dict(bufsize=131072, reconnectable=case["reconnectable"], tymth=tymist.tymen(), tymeout=case.get("tymeout", 0.5))
        own = None
        if case.get("own_queues"):
            # the application hands its own (still empty) queues to the constructor, as the docstrings describe
            own = {"requests": deque(), "responses": deque(), "redirects": list(), "events": deque()}
            kwa.update(own)
        if case.get("client_bs"):
            kwa["bs"] = case["client_bs"]     # tcp.Client buffer size: pins SO_SNDBUF (no autotuning up to tcp_wmem[2])
        if case["tls"]:
            certs = env.certs_dir()
            client = clienting.Client(hostname="localhost", port=a.port, scheme="https", certedhost="localhost",
                                      cafilepath=certs + "/server.pem", keypath=certs + "/client_key.pem",
                                      certpath=certs + "/client_cert.pem", **kwa)
        else:
            client = clienting.Client(hostname="127.0.0.1", port=a.port, **kwa)
        client.reopen()
        world.client = client
        world.app_requests = own["requests"] if own else client.requests
        world.app_responses = own["responses"] if own else client.responses
        if own:
            ctx.count("cases_with_caller_owned_queues")
            if client.requests is not own["requests"] or client.responses is not own["responses"]:
                ctx.count("caller_owned_queue_replaced_by_client_observed")
        _drive(case, ctx, world, servers, client, tymist)
    finally:
        if client is not None:
            try:
                client.close()
            except Exception:
                pass
        for s in servers:
            s.close()


def _drive(case, ctx, w, servers, client, tymist):
    reqs = case["reqs"]
    ids = [r["id"] for r in reqs]
    # the queues the APPLICATION holds: its own deques when it passed them to the constructor, else the client's
    rq, rs = w.app_requests, w.app_responses
    nqueued = 0
    while nqueued < len(reqs) and "queue_after" not in reqs[nqueued]:
        rq.append(request_dict(reqs[nqueued]))
        nqueued += 1
    queued_how = {r["id"]: "upfront" for r in reqs[:nqueued]}
    entry_round = {}           # queue index -> round in which its entry was first seen
    closeeach = case.get("kind") == "closeeach"
    downgrade = any(h["target"] == "downgrade" for r in reqs for h in r["hops"])
    relative = any(h["target"] == "relative" for r in reqs for h in r["hops"])
    closing = any(h["connclose"] or h["close_mid"] is not None or h["framing"] == "eof" for r in reqs for h in r["hops"])
    budget = rounds_budget(case)
    seen_socks = set()
    seen_entries = []          # identities of the entries of rs seen so far
    first_ok = []              # per entry: equal to the server's response when it was first seen
    refused = 0
    escaped = None
    done_rounds = 0
    ctx.count("cases_tls" if case["tls"] else "cases_plain")
    ctx.count("requests_queued", len(reqs))

    def check_responses():
        resp = list(rs)
        # S3: grows only at the right end
        if len(resp) < len(seen_entries) or any(resp[i] is not seen_entries[i] for i in range(len(seen_entries))):
            w.viol("responses-deque-not-append-only",
                   f"entries seen earlier moved or vanished: had {len(seen_entries)}, now {len(resp)}")
            return False
        for i in range(len(seen_entries), len(resp)):
            e = resp[i]
            seen_entries.append(e)
            entry_round[i] = w.rnd
            ctx.count("responses_entries_checked")
            if case.get("own_queues"):
                ctx.count("caller_owned_queue_entries_checked")
            w.ev("response_entry", i, e.get("status"), bool(e.get("errored")))
            rq = e.get("request") or {}
            hdrs = rq.get("headers") or {}
            got_id = hdrs.get("X-Id") if hasattr(hdrs, "get") else None
            w.entry_ids.append(got_id)
            if "reply" not in rq:
                # extra (not sent) keys of the queued request dict are gone from entry['request'] (seen after redirects)
                ctx.count("entry_request_lost_extra_keys_observed")
            if i >= len(ids):
                w.viol("more-responses-than-requests", f"entry #{i} (request id {got_id}) but only {len(ids)} requests were queued")
                return False
            want = ids[i]
            if not w.server_closed and got_id != want:
                w.viol("response-entry-wrong-request",
                       f"responses[{i}]['request'] carries X-Id {got_id!r}; the {i}-th queued request is {want!r}")
                return False
            if w.server_closed and got_id != want:
                # after a close: order must still be increasing, gaps are only counted
                if got_id not in ids or ids.index(got_id) < i:
                    w.viol("response-entry-wrong-request", f"(after a server close) responses[{i}] carries X-Id {got_id!r}")
                    return False
                ctx.count("gap_in_responses_after_server_close")
            if not e.get("errored"):
                rh = e.get("headers") or {}
                echo = rh.get("X-Echo-Id") if hasattr(rh, "get") else None
                if echo is not None and echo != got_id:
                    w.viol("response-attributed-to-wrong-request",
                           f"responses[{i}] is the server's answer to {echo!r} but is attached to request {got_id!r}")
                    return False
            # S8: the entry carries what the server sent for it (checked again at the end of the run)
            diff = entry_vs_sent(w, e, got_id)
            first_ok.append(diff == [])
            if diff is not None:
                ctx.count("entries_compared_with_server_response_when_first_seen")
                if diff:
                    w.viol("entry-differs-from-server-response:" + diff[0][0],
                           f"responses[{i}] (request {got_id}) when it appeared: {diff[0][1]}")
            req = w.script.get(got_id)
            # S3b: the entry carries ITS request (only for requests that were not redirected: redirect() rebuilds the
            # requester from the Location, that divergence is counted elsewhere and not judged)
            if req is not None and len(req["hops"]) == 1:
                ctx.count("entry_request_echo_checks")
                bk = bkind_of(req)
                own = {"method": req["method"], "path": f"/h0/{got_id}", "qargs": dict(req["qargs"]) if req["qargs"] else {},
                       "data": req.get("data") if bk in ("data", "data+body") else None,
                       "fargs": req.get("fargs") if bk == "fargs" else None,
                       "body": req["body"].encode("latin-1") if bk in ("body", "data+body") else b""}
                for field, want_v in own.items():
                    got_v = rq.get(field)
                    if field == "qargs":
                        got_v = dict(got_v or {})
                    elif field == "body":
                        got_v = bytes(got_v or b"")
                    elif field == "fargs" and got_v is not None:
                        got_v = dict(got_v)
                    if got_v != want_v:
                        earlier = [x for x in reqs[:i] if x.get(field) not in (None, "", {}) and
                                   (x.get(field) == got_v or (field == "body" and x["body"].encode("latin-1") == got_v))]
                        how = "stale-from-earlier-request" if earlier else "not-its-own"
                        w.viol(f"response-entry-request-echo:{field}:{how}",
                               f"responses[{i}]['request'][{field!r}] is {got_v!r}; request {got_id} was queued with {want_v!r}"
                               + (f" (that value belongs to the earlier request {earlier[0]['id']})" if earlier else ""))
                        break
            # S4 redirect history
            if req is not None and not w.server_closed:
                rh = e.get("headers") or {}
                xhop = rh.get("X-Hop") if hasattr(rh, "get") else None
                if e.get("status") in (301, 302, 303, 307) and xhop is not None and xhop.isdigit() and int(xhop) < len(req["hops"]):
                    target = req["hops"][int(xhop)]["target"]
                    # the chain ends here: the remaining hops of this request will never be requested
                    w.expected = [k for k in w.expected if not (k[0] == got_id and k[1] > int(xhop))]
                    if target == "downgrade":
                        ctx.count("downgrade_refused_entry_is_the_redirect")
                        form = req["hops"][int(xhop)].get("locform", "http")
                        ctx.count("downgrade_refused_locform_" + form)
                        if form not in ("http",):
                            ctx.count("downgrade_refused_location_not_spelt_http")
                    else:
                        w.viol("redirect-not-followed:" + str(target),
                               f"responses[{i}] (request {got_id}) is the redirect of hop {xhop} itself (status {e.get('status')}, "
                               f"Location {rh.get('Location')!r}, errored={e.get('errored')}, error={e.get('error')!r}) instead of the final response")
                elif not e.get("errored") and req["hops"][-1]["target"] == "downgrade":
                    w.viol("downgrade-followed:entry-is-a-followed-redirect",
                           f"responses[{i}] (request {got_id}) is a final response (status {e.get('status')}, redirects "
                           f"{[(h.get('status'), (h.get('headers') or {}).get('Location')) for h in (e.get('redirects') or [])]}) although its last scripted hop "
                           f"redirects from https to {w.issued.get((got_id, len(req['hops']) - 1))!r}")
                elif not e.get("errored"):
                    nred = len(req["hops"]) - 1
                    hist = e.get("redirects") or []
                    ctx.count("redirect_histories_checked" if nred else "nonredirect_entries_checked")
                    want_hist = [(req["hops"][k]["status"], w.issued.get((got_id, k))) for k in range(nred)]
                    got_hist = [(h.get("status"), (h.get("headers") or {}).get("Location")) for h in hist]
                    if got_hist != want_hist:
                        w.viol("redirect-history-mismatch",
                               f"responses[{i}] (request {got_id}) carries redirects {got_hist}, the servers issued {want_hist}")
                else:
                    w.viol("errored-response-from-healthy-server",
                           f"responses[{i}] (request {got_id}) is errored ({e.get('error')!r}) although the scripted server answered completely and kept the connection open")
        return True

    rnd = 0
    extra_phase = 0
    while True:
        rnd += 1
        w.rnd = rnd
        if rnd > budget:
            # a missing-progress verdict gets a few more rounds with patience first
            if extra_phase >= 10 or len(rs) >= len(reqs) or w.server_closed or downgrade or escaped:
                break
            extra_phase += 1
            socks = [c.sock for s in servers for c in s.conns if not c.closed]
            cs = getattr(client.connector, "cs", None)
            try:
                select.select(socks + ([cs] if cs is not None else []), [], [], 0.003)
            except (OSError, ValueError):
                pass
        for s in servers:
            s.step()
        if client.waited and rq:
            ctx.count("rounds_with_response_pending_and_more_requests_queued")
        try:
            client.service()
        except ValueError as ex:
            if downgrade and "non secure" in str(ex):
                refused += 1
                w.ev("client_refused_downgrade", str(ex)[:80])
                if refused >= 6:
                    break
            else:
                escaped = ex
        except Exception as ex:
            escaped = ex
        if escaped is not None:
            w.ev("client_service_raised", repr(escaped)[:160])
            if w.server_closed:
                ctx.count("exception_after_server_close_not_judged:" + type(escaped).__name__)
            elif relative and isinstance(escaped, (AttributeError, TypeError)):
                w.viol("redirect-not-followed:relative-location:" + type(escaped).__name__,
                       f"Client.service() raised {escaped!r} on a relative Location (RFC 7231 7.1.2 allows a relative reference)")
            elif downgrade:
                ctx.count("exception_in_downgrade_case:" + type(escaped).__name__)
            else:
                w.viol(f"service-raised:{type(escaped).__name__}", f"Client.service() raised {escaped!r} against a healthy server")
            break
        tymist.tick()
        nodelay(client, seen_socks, w)
        if not check_responses():
            break
        # queue the next deferred request once its moment has come, and note in what state the client is then
        while nqueued < len(reqs):
            r = reqs[nqueued]
            if "queue_after" in r:
                if (nqueued - 1) not in entry_round or rnd - entry_round[nqueued - 1] < r["queue_after"]:
                    break
                cn = client.connector
                if cn.cutoff:
                    how = "cut-off-retry-timer-expired" if (cn.tymeout > 0.0 and cn.tymer.expired) else "cut-off-before-retry-timer-expired"
                elif not cn.connected:
                    how = "reconnecting"
                else:
                    how = "connected"
                queued_how[r["id"]] = how
                ctx.count("requests_queued_late_while_" + how)
                w.ev("queued", r["id"], how)
            else:
                queued_how[r["id"]] = "together-with-previous"
            rq.append(request_dict(r))
            nqueued += 1
        if len(rs) >= len(reqs) and not rq:
            done_rounds += 1
            if done_rounds > 3:
                break
    ctx.peak("max_rounds_used", rnd)
    if w.accepts > len(w.expected) + 4:
        ctx.count("cases_with_reconnect_churn_observed")     # connection attempts abandoned round after round (not judged)
    # final sweep so that late bytes (a pipelining client) are seen by the servers
    for _ in range(3):
        w.rnd += 1
        for s in servers:
            s.step()
    check_responses()

    nresp = len(rs)
    healthy = not w.server_closed and not downgrade and escaped is None and not closing and not w.violated
    if closeeach and escaped is None and not w.violated:
        # the server is a healthy HTTP server that closes after each response and accepts again: a reconnectable client
        # must get every request through within the budget (retry timer periods are part of the budget)
        ctx.count("reconnect_progress_checks")
        ctx.count("reconnects_needed", len(reqs) - 1)
        if nresp != len(reqs) or nqueued != len(reqs):
            stuck = reqs[min(nresp, len(reqs) - 1)]
            cn = client.connector
            w.viol("no-progress:reconnect:request-queued-" + queued_how.get(stuck["id"], "never"),
                   f"{nresp} of {len(reqs)} responses after {rnd} rounds (budget {budget}, retry timer {cn.tymeout}, tock {case.get('tock')}); "
                   f"request {stuck['id']} was queued [{queued_how.get(stuck['id'])}] and {'never arrived' if not any(k[0] == stuck['id'] for k in w.arrived) else 'arrived'} "
                   f"at the server, which closes after every response and accepts again; waited={client.waited} queued={len(rq)} "
                   f"connected={cn.connected} cutoff={cn.cutoff} txbs={len(cn.txbs)} tyme={tymist.tyme}")
        else:
            errs = [i for i, e in enumerate(rs) if e.get("errored")]
            if errs:
                w.viol("errored-response-after-reconnect",
                       f"entries {errs} are errored ({rs[errs[0]].get('error')!r}) although every response was written completely before the close")
    if healthy:
        ctx.count("healthy_progress_checks")
        if nresp != len(reqs):
            state = (f"waited={client.waited} queued={len(rq)} connected={client.connector.connected} "
                     f"cutoff={client.connector.cutoff} outstanding={w.outstanding} arrived={len(w.arrived)}/{len(w.expected)} "
                     f"respondent.ended={client.respondent.ended} redirects_pending={len(client.redirects)}")
            stuck = reqs[min(nresp, len(reqs) - 1)]
            hops_arrived = [k[1] for k in w.arrived if k[0] == stuck["id"]]
            qual = f"{stuck['method']}:" + ("after-redirect" if hops_arrived and max(hops_arrived) > 0 else "direct")
            if case.get("own_queues") and not w.arrived:
                qual = "caller-owned-queues:nothing-was-ever-sent"
            elif case.get("own_queues") and not nresp and len(w.arrived) > 0 and w.client is not None and len(w.client.responses) > 0:
                qual = "caller-owned-queues:entries-went-to-a-private-queue"
            if w.outstanding is not None:
                raise RuntimeError(f"scripted server did not finish its own response within {rnd} rounds: {state}")
            # every response the servers owed is completely written and the connection is open, yet the client
            # neither produced the entry nor sent the next request: no later round can help
            w.viol("no-progress:" + qual,
                   f"{nresp} of {len(reqs)} responses after {rnd} rounds (budget {budget}); request {stuck['id']} ({stuck['method']}, "
                   f"hops arrived {hops_arrived}) got every scripted response completely, no entry appeared; {state}")
    if case.get("kind") == "upload":
        ctx.count("upload_cases")
        if nresp == len(reqs) and not w.violated:
            ctx.count("upload_cases_all_requests_answered")
    # S8 at the end of the run: entries the application has not popped yet must still be what the server sent
    entries = list(rs)
    for i, e in enumerate(entries):
        if i >= len(first_ok) or i >= len(w.entry_ids) or not first_ok[i]:
            continue
        diff = entry_vs_sent(w, e, w.entry_ids[i])
        if diff is None:
            continue
        ctx.count("entries_compared_with_server_response_at_end_of_run")
        if i < len(entries) - 1:
            ctx.count("entries_rechecked_after_a_later_response")
        if diff:
            w.viol("entry-clobbered-by-a-later-response:" + diff[0][0],
                   f"responses[{i}] (request {w.entry_ids[i]}) equalled the server's response when it appeared; at the end of the run, "
                   f"{len(entries) - 1 - i} later entr{'y' if len(entries) - 2 == i else 'ies'} on: {diff[0][1]}")
            break
    if downgrade:
        ctx.count("downgrade_cases")
        ctx.count("downgrade_refusals_by_exception", 1 if refused else 0)
        if refused >= 6:
            ctx.count("downgrade_client_keeps_raising_every_round")
        reached = any(k[0] == r["id"] and r["hops"][k[1]]["target"] == "downgrade"
                      for r in reqs for k in w.arrived if k[0] == r["id"] and k[1] < len(r["hops"]))
        if reached:
            ctx.count("downgrade_redirect_issued")
    # evidence
    sig = [case["tls"], case["reconnectable"], bool(case.get("own_queues"))]
    for r in reqs:
        sig.append([r["method"], bkind_of(r), [[h["status"], h["target"], h["delay"] > 0, h["dribble"] > 0, h["framing"],
                                  "mid" if h["close_mid"] is not None else ("after" if h["connclose"] else "")] for h in r["hops"]]])
        for h in r["hops"]:
            ctx.count("hop_" + (h["target"] or "final"))
            if h["close_mid"] is not None:
                ctx.count("scripted_close_mid_response")
            if h["connclose"] or h["framing"] == "eof":
                ctx.count("scripted_close_after_response")
    if len(reqs) >= 2 or any(len(r["hops"]) > 1 or h["delay"] or h["dribble"] or h["close_mid"] is not None or h["connclose"]
                             for r in reqs for h in r["hops"]):
        ctx.nontrivial(sig)
    ctx.seen("event_kinds_sequences", [e[1] for e in w.log][:200])
    if case["kind"] != "enum":
        ctx.sample({"case": {"tls": case["tls"], "reconnectable": case["reconnectable"],
                             "reqs": [[r["method"], [[h["status"], h["target"], h["delay"], h["dribble"], h["framing"]] for h in r["hops"]]] for r in reqs]},
                    "rounds": rnd, "responses": nresp, "server_closed": w.server_closed, "log_tail": w.log[-12:]})
