"""C02 - forced exits are nested: reverse enter order, children before parent.

Monitor shape: trace oracle at scheduler stops.  From the same event trace as C01:
for every scheduler S (the Doist or any DoDoer) that stops (its own exit runs) while
direct members are still alive, with A = those members in the order they were entered:
  X1 every member of A exits inside S's exit window, i.e. before S's own exit completes
     (children before parent) and before do() returns or raises
  X2 the order of those exits is exactly reverse(A)
  X3 no doer is still alive when do() returns/raises
A scheduler-level KeyboardInterrupt moves the start of the window to the interrupt so
that a doer that is in the scheduler's hand at that moment counts as alive.
"""
import random

from vf import sched, gen_sched, faults

ID = "C02"
LEVEL = "exploration"
TECHNIQUE = "trace oracle over recorded enter/exit events at every scheduler stop (Doist and nested DoDoers); stops driven by scripted faults, runtime remove/extend and failpoints"
RULE = ("random forests (5 leaf kinds, DoDoers with tock 0/>0 so not-yet-due doers are alive too, depth <= 3, <= 8 leaves) x stop "
        "cause: limit at a cycle boundary, ValueError mid-cycle with alive doers on both sides, failing enter (initial / nested / "
        "inside a runtime extend after earlier new doers were entered), runtime remove of DoDoers with alive children, "
        "mid-cycle extend followed by limit/exception, scheduler-level KeyboardInterrupt. Non-trivial = a scheduler stopped with "
        ">= 3 alive direct members, or with >= 2 while nested (depth >= 2) or stopped mid-cycle; distinct = by (shape, stop cause, "
        "fault site, alive sets).")
LEVEL_TEXT = ("Every scheduler stop of every generated run is judged against the enter order recorded in the same trace. Held on "
              "the stops observed within the bounds; recorded defects are listed as known findings by mechanism.")
LEVEL_NOTE = "trusted: vf/sched.py hooks; CPython reference counting decides when an orphaned generator is finalised (reported as such)"
ASSUMPTIONS = ["faults inside cease/exit callbacks are not generated", "ancestors of a calling doer are never removed by it"]
NSHARDS = {"quick": 8, "thorough": 16}
REQUIRE = {"scheduler_stops_judged": 3000, "stops_mid_cycle": 300, "stops_nested": 500, "stops_with_3plus_alive": 500,
           "path:limit": 200, "path:recur-raise": 200, "path:enter-raise": 200, "path:extend-enter-raise": 100,
           "path:remove": 200, "path:kbint-sched": 200, "path:extend-then-stop": 200, "path:hook-acts": 150,
           "path:extend-idle-always": 150, "stops_under_ado": 500}

PATHS = ["limit", "recur-raise", "enter-raise", "extend-enter-raise", "remove", "kbint-sched", "extend-then-stop",
         "recur-raise", "limit", "hook-acts", "extend-idle-always"]


def make_extend_then_stop(rng):
    """a running doer extends its own or another scheduler mid-cycle with fresh doers; later the run stops by limit or exception"""
    case = faults.make_case(rng, rng.choice(["limit", "recur-raise"]))
    prog = case["prog"]
    leaves = [lf for lf in gen_sched.leaves_of(prog["doers"]) if lf.get("enter") == "ok"]
    if not leaves:
        return case
    ids = gen_sched.Ids()
    ids.n = 300
    caller = rng.choice(leaves)
    news = [gen_sched.gen_leaf(rng, ids, prog["tock"], forever_p=0.7, enter_finish_p=0.0) for _ in range(rng.randint(1, 2))]
    prog["pool"] = news
    sid = rng.choice(faults.live_schedulers(prog, caller["id"]))
    last = caller["end"][0] if caller.get("end") else 3
    k = rng.randint(1, max(1, last - 1)) if last > 1 else 1
    caller.setdefault("acts", {}).setdefault(str(k), []).append(["extend", sid, [n["id"] for n in news], False])
    if prog["limit"] is None and gen_sched.needs_limit(prog["doers"] + news):
        prog["limit"] = prog["tock"] * 9
    case["path"] = "extend-then-stop"
    return case


def cases(tier, seed, shard, nshards):
    rng = random.Random(f"{seed}:C02:{shard}")
    n = (3600 if tier == "quick" else 100000) // nshards
    for i in range(n):
        path = PATHS[i % len(PATHS)]
        case = make_extend_then_stop(rng) if path == "extend-then-stop" else faults.make_case(rng, path)
        if path != "kbint-sched" and rng.random() < 0.25:
            case["prog"]["runner"] = "ado"   # forced exits under the asyncio entry point
        yield case


def parents_of(run):
    parent = dict(run.parent)
    for spec in run.specs.values():
        for acts in (spec.get("acts") or {}).values():
            for act in acts:
                if act[0] == "extend":
                    for i in act[2]:
                        if parent.get(i) is None:
                            parent[i] = act[1]
    return parent


def depth_in(parent, d):
    n = 0
    while parent.get(d) not in (None, "doist"):
        d = parent[d]
        n += 1
    return n


def judge(run, ctx, case):
    tr = sched.compact(run)
    trace = run.trace
    end = sched.end_index(run)
    parent = parents_of(run)
    ent, ext, ceased_by_gc, extended = {}, {}, set(), set()
    aborted = {did for (kind, did, t, info) in trace if kind == "abort"}
    fp = None
    for i, (kind, did, t, info) in enumerate(trace):
        if kind == "enter" and did not in ent:
            ent[did] = i
        elif kind == "exit" and did not in ext:
            ext[did] = i
        elif kind == "cease" and not info.get("by_sched", True) and i < end:
            ceased_by_gc.add(did)
        elif kind == "failpoint":
            fp = i
        elif kind == "ext-call":
            extended.update(info["ids"])
    rem_windows = []
    for i, (kind, did, t, info) in enumerate(trace):
        if kind == "rem-call":
            j = next((k for k in range(i + 1, len(trace)) if trace[k][0] in ("rem-ret", "rem-raise") and trace[k][1] == did),
                     len(trace))
            rem_windows.append((i, j))
    windows = []
    for i, (kind, did, t, info) in enumerate(trace):
        if kind in ("exit-begin", "sched-exit-begin"):
            closing = "exit" if kind == "exit-begin" else "sched-exit"
            j = next((k for k in range(i + 1, len(trace)) if trace[k][0] == closing and trace[k][1] == did), None)
            windows.append((did, i, j, info.get("marker", False)))
    sig = []
    good = True
    doist_windows = [w for w in windows if w[0] == "doist"]
    if not doist_windows or doist_windows[-1][2] is None or doist_windows[-1][2] > end:
        ctx.violation("scheduler-exit-not-run-before-return", "Doist.exit did not complete before do() ended", trace=tr)
        return None
    for S, b, e, marker in windows:
        b0 = b
        if fp is not None and fp < b:
            b0 = fp
        members = [d for d in ent if parent.get(d) == S and ent[d] < b0 and (d not in ext or ext[d] > b0)
                   and d not in aborted]   # a doer that raised (the interrupt landed in it) ends itself: not a forced exit
        members.sort(key=ent.get)
        if not members:
            continue
        ctx.count("scheduler_stops_judged")
        if run.prog.get("runner") == "ado":
            ctx.count("stops_under_ado")
        nested = S != "doist"
        if nested:
            ctx.count("stops_nested")
        if marker:
            ctx.count("stops_mid_cycle")
        if len(members) >= 3:
            ctx.count("stops_with_3plus_alive")
        sig.append((S if S == "doist" else "G", len(members), bool(marker)))
        missing = [d for d in members if d not in ext or e is None or ext[d] > e]
        if missing:
            good = False
            key = "alive-member-not-exited-inside-scheduler-exit"
            if set(missing) <= ceased_by_gc:
                key = "exit-order:in-hand-doer-orphaned-by-interrupt-closed-by-gc"
            elif case["path"] == "extend-enter-raise" and set(missing) <= set((case.get("fault") or {}).get("entered_before_bad", [])):
                key = "extend-enter-failure-orphans-earlier-new-doers"
            ctx.violation(key, f"scheduler {S} stopped with alive members {members}; {missing} had not exited when its exit "
                          f"completed (exit indexes {[ext.get(d) for d in missing]}, window {b}-{e}, run end {end})", trace=tr)
            continue
        # a doer that user code removed with remove() from inside another doer's cease/exit hook during this stop is
        # closed by that call, at the caller's request, not by the scheduler's own sweep: it must still exit inside
        # the window (checked above) but has no place in the reverse-enter order
        by_removal = {d for d in members if any(lo < ext[d] < hi for (lo, hi) in rem_windows if b0 < lo and hi < e)}
        if by_removal:
            ctx.count("members_removed_by_a_hook_during_stop", len(by_removal))
        order = sorted((d for d in members if d not in by_removal), key=ext.get)
        expected = [d for d in reversed(members) if d not in by_removal]
        if order != expected:
            good = False
            static = [d for d in order if d not in extended]
            if set(members) & ceased_by_gc:
                key = "exit-order:in-hand-doer-orphaned-by-interrupt-closed-by-gc"
            elif static == [d for d in expected if d not in extended]:
                key = "exit-order:runtime-extended-doer-out-of-place"
            elif marker:
                key = "exit-order:stopped-mid-cycle"
            else:
                key = "exit-order:other"
            ctx.violation(key, f"scheduler {S} (marker in deeds={marker}): entered {members}, exited {order}, "
                          f"expected {expected}", trace=tr)
    alive_end = [d for d in ent if d not in ext or ext[d] > end]
    if alive_end:
        good = False
        key = "alive-after-run-end"
        if case["path"] == "extend-enter-raise" and set(alive_end) <= set((case.get("fault") or {}).get("entered_before_bad", [])):
            key = "extend-enter-failure-orphans-earlier-new-doers"
        ctx.violation(key, f"{alive_end} not exited when do() {run.result}; exit came later at {[ext.get(d) for d in alive_end]} "
                      f"(after run end {end}: by garbage collection) or never", trace=tr)
    return sig if good else None


def run_case(case, ctx):
    prog = case["prog"]
    extra = {}
    if case["path"] == "kbint-sched":
        dry = sched.execute(prog, failpoint_k=0, max_cycles=sched.cycle_budget(prog))
        n = dry.failpoint.n
        k = 1 + int(case["kfrac"] * n) if n else 1
        run = sched.execute(prog, failpoint_k=k, max_cycles=sched.cycle_budget(prog))
        extra = {"points": n, "k": k, "fired_at": run.failpoint.fired_at}
        if run.failpoint.fired_at:
            ctx.count("failpoints_fired")
            ctx.seen("failpoint_sites", run.failpoint.fired_at)
    else:
        run = sched.execute(prog, max_cycles=sched.cycle_budget(prog))
    if run.result[0] == "runaway":
        ctx.violation("non-termination:logical-cycle-budget-exceeded",
                      f"run exceeded the cycle budget {run.max_cycles} derived from its own limit/scripts "
                      f"(cycles={run.cycles}, recur steps={run.total_steps})", trace=sched.compact(run)[-60:])
        return
    ctx.count("path:" + case["path"])
    sig = judge(run, ctx, case)
    if sig:
        nontriv = any(n >= 3 or (n >= 2 and (s != "doist" or m)) for (s, n, m) in sig)
        if nontriv:
            ctx.nontrivial([gen_sched.shape_sig(prog["doers"]), case["path"], case.get("fault"), extra.get("fired_at"), sig])
            ctx.sample({"path": case["path"], "fault": case.get("fault"), "failpoint": extra or None,
                        "shape": gen_sched.shape_sig(prog["doers"]), "result": run.result, "stops": sig,
                        "enter_order": [e[1] for e in run.trace if e[0] == "enter"],
                        "exit_order": [e[1] for e in run.trace if e[0] == "exit"]})
