"""C11 - closing a TCP endpoint releases every socket it opened.

Monitor shape: resource ledger (invariant at a hook).  `vf.mon.ledger` records every socket object the
process creates while a case runs, keeps it alive, and attributes it to hio (creating stack under
<src>/hio) or to the harness (registered explicitly).  The oracle reads `fileno()` of the hio-owned ones:

  server side  after `Server.close()` (and after the close inside `Server.reopen()`): every socket created
               by serving.py before that call reports fileno() == -1 - listener, every accepted connection
               (live, cut off, reset), TLS connections still handshaking (`ServerTls.cxes`), connections
               replaced in `.ixes`/`.cxes` by a newer one from the same (host, port);
  client side  after every operation on a `tcp.Client`/`ClientTls`: the only hio-owned socket that may be
               open is the current `client.cs`; none after `close()`.

Cross-checks: /proc/self/fd socket census returns to the pre-case baseline once hio endpoints and harness
sockets are closed; `socket.__new__` audit events == ledger entries (nothing bypassed the wrapper).

Violation keys name the mechanism by which the socket was lost (where the server last kept it), never a
port or a case.
"""
import random
import select
import socket
import ssl
import struct
import os

from hio.base import tyming
from hio.core.tcp import serving, clienting

from vf import env
from vf.mon import ledger as ledgermod
from vf.mon.ledger import Ledger, Ports, HarnessError

ID = "C11"
LEVEL = "exploration"
TECHNIQUE = ("socket ledger: class-level wrappers on socket.socket.__init__/close/detach keep every socket created "
             "during a case alive and attribute it by creating stack; oracle = fileno() of every hio-owned socket "
             "after Server.close()/reopen() and after every tcp.Client operation; /proc/self/fd census and "
             "socket.__new__ audit-hook count as cross-checks")
RULE = ("server cases: random histories (4-14 ops, plain and TLS) over {connect, full TLS handshake, stalled TLS "
        "handshake with 0/1/5/half/all-but-one/all bytes of a real ClientHello, garbage instead of a ClientHello, "
        "peer send, peer close (cutoff), peer abort (RST), connect again from the same bound source port (replacement "
        "in .ixes/.cxes), k service rounds, server reopen, server close}; every case ends with close; a share of the TLS cases "
        "uses a listen backlog bl of 1-3 with more peers stalled in the handshake than bl (whatever is accepted but not "
        "yet a remoter waits in .axes). client cases: "
        "random histories over {harness listener up/down (connect refused), reopen, connect attempts, service, peer "
        "close/abort (cutoff), TLS handshake failure, application reconnect, virtual-time ticks (reconnect by "
        "tymeout), close} for Client and ClientTls. Non-trivial = a judged close saw at least one accepted "
        "connection socket (server) / at least two client sockets were created (client); distinct = by the "
        "sequence of op kinds plus, for servers, the set of states the connections were in at each judged close.")
ASSUMPTIONS = [
    "Linux loopback; a peer that binds the same source port again after an RST gives the server the same (host, port)",
    "the ledger's strong references stand for an application that still holds the object (http.Server keeps every "
    "Remoter in Requestant.remoter); without them CPython's reference counting may close a dropped socket as a side effect",
    "after Server.reopen() the harness removes already-closed remoters with the public removeIx() before servicing "
    "again (servicing a closed remoter raises AttributeError; not this property)",
    "exceptions escaping Server.service()/Client.service() are counted, not judged here (C10/C16)",
    "an SSLSocket created inside an SSLContext.wrap_socket() call that raises is never handed to hio (CPython drops "
    "it); it is closed by the ledger as the GC would and counted, not judged",
]
NSHARDS = {"quick": 16, "thorough": 16}
TIMEOUT_S = {"quick": 240, "thorough": 1500}
BUDGET_S = {"quick": 90, "thorough": 420}
REQUIRE = {
    "server_closes_judged": 300,
    "hio_server_sockets_checked": 1500,
    "at_close.tls-handshake-pending": 40,
    "remoters_left_tables.replaced-in-ixes": 40,
    "remoters_left_tables.replaced-in-cxes": 10,
    "accepted_reset_before_service": 40,
    "closes_with_more_pending_handshakes_than_backlog": 40,
    "at_close.cutoff-in-ixes": 40,
    "at_close.live-in-ixes": 100,
    "client_ops_judged": 1000,
    "client_sockets_created": 500,
    "client_refused_reopens": 50,
    "client_closes_judged": 100,
    "census_checks": 300,
}
LEVEL_TEXT = ("Every hio-created socket of every generated accept/handshake/cutoff/replace/reopen/close history is "
              "checked for fileno()==-1 after the close; attribution is by creating stack, the descriptor census "
              "confirms nothing else stayed open. Held on the histories run, not a proof for all histories.")
LEVEL_NOTE = ("trusted: CPython socket/ssl object model (every socket passes socket.socket.__init__), /proc/self/fd, "
              "the test certificates; Linux loopback semantics for RST and same-source-port reconnects")

HOST = "127.0.0.1"
_proc = {}


def _cert(name):
    return os.path.join(env.certs_dir(), name)


def _client_ctx():
    if "cctx" not in _proc:
        c = ssl.SSLContext(ssl.PROTOCOL_TLS_CLIENT)
        c.check_hostname = False
        c.verify_mode = ssl.CERT_NONE
        _proc["cctx"] = c
    return _proc["cctx"]


def _server_ctx():
    if "sctx" not in _proc:
        c = ssl.SSLContext(ssl.PROTOCOL_TLS_SERVER)
        c.load_cert_chain(certfile=_cert("server_cert.pem"), keyfile=_cert("server_key.pem"))
        _proc["sctx"] = c
    return _proc["sctx"]


def _client_hello():
    """bytes of a real ClientHello record (made with a memory BIO, never sent by an ssl socket)"""
    if "hello" not in _proc:
        inc, out = ssl.MemoryBIO(), ssl.MemoryBIO()
        obj = _client_ctx().wrap_bio(inc, out, server_side=False)
        try:
            obj.do_handshake()
        except ssl.SSLWantReadError:
            pass
        _proc["hello"] = out.read()
    return _proc["hello"]


STALLS = ["none", "1", "5", "half", "allbut1", "all"]


def _stall_bytes(k):
    h = _client_hello()
    return {"none": b"", "1": h[:1], "5": h[:5], "half": h[:len(h) // 2], "allbut1": h[:-1], "all": h}[k]


# --------------------------------------------------------------------------
# case generation
# --------------------------------------------------------------------------
def _gen_server(rng, tls, maxops):
    ops = []
    live = []     # pids with an open harness socket
    npid = 0
    n = rng.randint(4, maxops)
    for _ in range(n):
        r = rng.random()
        if r < 0.34 or not live:
            src = rng.choice([0, 0, 1]) if rng.random() < 0.4 else None
            pid = npid
            npid += 1
            if tls:
                q = rng.random()
                if q < 0.45:
                    ops.append(["conn", pid, src])
                elif q < 0.9:
                    ops.append(["stall", pid, src, rng.choice(STALLS)])
                else:
                    ops.append(["garbage", pid, src])
            else:
                ops.append(["conn", pid, src])
            live.append(pid)
        elif r < 0.44:
            ops.append(["send", rng.choice(live), rng.choice([1, 7, 300])])
        elif r < 0.56:
            pid = rng.choice(live)
            live.remove(pid)
            ops.append(["close", pid])
        elif r < 0.66:
            pid = rng.choice(live)
            live.remove(pid)
            ops.append(["abort", pid])
        elif r < 0.90:
            ops.append(["service", rng.randint(1, 3)])
        elif r < 0.95:
            ops.append(["reopen"])
        else:
            ops.append(["srvclose"])
            ops.append(["reopen"])
    if rng.random() < 0.7:
        ops.append(["service", rng.randint(1, 2)])
    ops.append(["srvclose"])
    return {"kind": "server", "tls": tls, "ops": ops}


def _gen_backlog(rng, maxops):
    """ServerTls with a small listen backlog bl and more peers stalled in the handshake than bl when it is
    closed / reopened (anything the server accepted but has not yet turned into a remoter sits in .axes)"""
    bl = rng.choice([1, 1, 2, 2, 3])
    ops = []
    npid = 0
    live = []
    for _ in range(bl + rng.randint(1, 3)):
        ops.append(["stall", npid, None, rng.choice(STALLS)])
        live.append(npid)
        npid += 1
        if rng.random() < 0.6:
            ops.append(["service", 1])
    for _ in range(rng.randint(0, max(0, maxops - len(ops) - 2))):
        r = rng.random()
        if r < 0.3:
            ops.append(["stall", npid, None, rng.choice(STALLS)])
            live.append(npid)
            npid += 1
        elif r < 0.4:
            ops.append(["conn", npid, None])
            live.append(npid)
            npid += 1
        elif r < 0.5 and live:
            pid = rng.choice(live)
            live.remove(pid)
            ops.append([rng.choice(["close", "abort"]), pid])
        elif r < 0.8:
            ops.append(["service", rng.randint(1, 2)])
        elif r < 0.9:
            ops.append(["reopen"])
        else:
            ops.append(["srvclose"])
            ops.append(["reopen"])
    if rng.random() < 0.7:
        ops.append(["service", 1])
    ops.append(["srvclose"])
    return {"kind": "server", "tls": True, "bl": bl, "ops": ops}


def _gen_client(rng, tls, maxops):
    ops = []
    listening = rng.random() < 0.6
    ops.append(["listen", listening])
    n = rng.randint(4, maxops)
    for _ in range(n):
        r = rng.random()
        if r < 0.14:
            listening = not listening
            ops.append(["listen", listening])
        elif r < 0.26:
            ops.append(["reopen"])
        elif r < 0.52:
            ops.append(["connect", rng.randint(1, 4)])
        elif r < 0.66:
            ops.append(["service", rng.randint(1, 3)])
        elif r < 0.72:
            ops.append(["tx", rng.choice([1, 50])])
        elif r < 0.79:
            ops.append(["peer_close"])
        elif r < 0.84:
            ops.append(["peer_abort"])
        elif r < 0.88 and tls:
            ops.append(["peer_garbage"])
        elif r < 0.93:
            ops.append(["tick", rng.randint(1, 6)])
        elif r < 0.97:
            ops.append(["app_reconnect"])
        else:
            ops.append(["close"])
    ops.append(["close"])
    return {"kind": "client", "tls": tls, "reconnectable": rng.random() < 0.6,
            "tymeout": rng.choice([0.0, 0.25, 0.5]), "peer_tls": rng.choice(["handshake", "handshake", "stall"]),
            "ops": ops}


# a few fixed histories first, so that each mechanism the statement names is exercised in every run
FIXED = [
    {"kind": "server", "tls": False, "ops": [["conn", 0, None], ["service", 1], ["srvclose"]]},
    {"kind": "server", "tls": False, "ops": [["conn", 0, None], ["service", 1], ["close", 0], ["service", 1], ["srvclose"]]},
    {"kind": "server", "tls": False, "ops": [["conn", 0, 0], ["service", 1], ["conn", 1, 0], ["service", 1], ["srvclose"]]},
    {"kind": "server", "tls": True, "ops": [["conn", 0, None], ["service", 1], ["srvclose"]]},
    {"kind": "server", "tls": True, "ops": [["stall", 0, None, "none"], ["service", 2], ["srvclose"]]},
    {"kind": "server", "tls": True, "ops": [["stall", 0, None, "half"], ["service", 2], ["srvclose"]]},
    {"kind": "server", "tls": True, "ops": [["stall", 0, None, "all"], ["service", 2], ["reopen"], ["service", 1], ["srvclose"]]},
    {"kind": "server", "tls": True, "ops": [["conn", 0, 0], ["service", 1], ["conn", 1, 0], ["service", 1], ["srvclose"]]},
    {"kind": "server", "tls": True, "ops": [["stall", 0, 0, "5"], ["service", 1], ["stall", 1, 0, "5"], ["service", 1], ["srvclose"]]},
    {"kind": "server", "tls": True, "ops": [["garbage", 0, None], ["service", 2], ["srvclose"]]},
    {"kind": "server", "tls": False, "ops": [["conn", 0, None], ["abort", 0], ["service", 1], ["srvclose"]]},
    {"kind": "server", "tls": True, "ops": [["stall", 0, None, "none"], ["abort", 0], ["service", 1], ["srvclose"]]},
    {"kind": "server", "tls": True, "bl": 2, "ops": [["stall", 0, None, "none"], ["stall", 1, None, "none"],
                                                   ["stall", 2, None, "none"], ["service", 1], ["srvclose"]]},
    {"kind": "server", "tls": True, "bl": 1, "ops": [["stall", 0, None, "5"], ["service", 1], ["stall", 1, None, "half"],
                                                   ["service", 2], ["reopen"], ["service", 1], ["srvclose"]]},
    {"kind": "server", "tls": True, "bl": 3, "ops": [["stall", 0, None, "all"], ["stall", 1, None, "none"], ["service", 1],
                                                   ["stall", 2, None, "1"], ["stall", 3, None, "none"],
                                                   ["stall", 4, None, "allbut1"], ["service", 2], ["srvclose"]]},
    {"kind": "client", "tls": False, "reconnectable": False, "tymeout": 0.0, "peer_tls": "handshake",
     "ops": [["listen", False], ["connect", 3], ["listen", True], ["connect", 3], ["peer_close"], ["service", 2],
             ["app_reconnect"], ["connect", 3], ["close"]]},
    {"kind": "client", "tls": True, "reconnectable": True, "tymeout": 0.25, "peer_tls": "handshake",
     "ops": [["listen", True], ["connect", 4], ["reopen"], ["connect", 4], ["listen", False], ["peer_abort"],
             ["service", 2], ["app_reconnect"], ["connect", 2], ["tick", 4], ["connect", 2], ["close"]]},
]


def cases(tier, seed, shard, nshards):
    for i, c in enumerate(FIXED):
        if i % nshards == shard:
            yield c
    rng = random.Random(f"{seed}:C11:{shard}")
    n = (2800 if tier == "quick" else 48000) // nshards
    maxops = 12 if tier == "quick" else 18
    for i in range(n):
        r = rng.random()
        if r < 0.25:
            yield _gen_server(rng, False, maxops)
        elif r < 0.57:
            yield _gen_server(rng, True, maxops)
        elif r < 0.65:
            yield _gen_backlog(rng, maxops)
        elif r < 0.83:
            yield _gen_client(rng, False, maxops + 4)
        else:
            yield _gen_client(rng, True, maxops + 4)


# --------------------------------------------------------------------------
# hooks on the real classes: remember every Remoter that is constructed
# --------------------------------------------------------------------------
_hook = {"installed": False, "remoters": None, "scan": None}


def setup(ctx):
    ledgermod.install()
    if not _hook["installed"]:
        orig = serving.Remoter.__init__

        def __init__(self, *pa, **kwa):
            self._vf_cs0 = id(kwa.get("cs", pa[2] if len(pa) > 2 else None))   # the accepted socket it was given
            try:
                return orig(self, *pa, **kwa)
            finally:
                if _hook["remoters"] is not None:
                    _hook["remoters"].append(self)
        __init__.__wrapped__ = orig
        serving.Remoter.__init__ = __init__

        # observe the server's tables after each sub-step of serviceConnects, so that a remoter that is
        # displaced and whose successor disappears in the same service() call is still labelled correctly
        def scan_after(cls, name):
            orig_m = cls.__dict__[name]

            def method(self, *pa, **kwa):
                try:
                    return orig_m(self, *pa, **kwa)
                finally:
                    if _hook["scan"] is not None:
                        _hook["scan"]()
            method.__wrapped__ = orig_m
            setattr(cls, name, method)
        scan_after(serving.Server, "serviceAxes")
        scan_after(serving.ServerTls, "serviceAxes")
        scan_after(serving.ServerTls, "serviceCxes")
        _hook["installed"] = True
    _proc["ports"] = Ports(ctx.shard, offset=0, width=800)


def _pause(rounds):
    """a yield to the loopback stack, never a decision: only used while waiting for a harness precondition"""
    if rounds > 2:
        select.select([], [], [], 0.0005)


# --------------------------------------------------------------------------
# server cases
# --------------------------------------------------------------------------
class ServerRun:
    def __init__(self, case, ctx, led):
        self.case, self.ctx, self.led = case, ctx, led
        self.tls = case["tls"]
        self.server = None
        self.peers = {}        # pid -> dict(sock, raw, src, tls)
        self.srcports = {}     # slot -> port
        self.srcowner = {}     # slot -> pid currently holding it
        self.status = {}       # id(remoter) -> 'cxes' | 'ixes' | 'out'
        self.lost = {}         # id(remoter) -> how it left the server's tables
        self.remoters = []
        self.closes = []       # state-label sets seen at each judged close
        self.accepted_checked = 0
        self.used_src = set()  # source-port slots that connected at least once
        self.unserviced = 0    # peer connects since the last service round
        self.trace = []

    # -- construction --------------------------------------------------------
    def open(self):
        ports = _proc["ports"]
        kw = {}
        cls = serving.Server
        if self.tls:
            cls = serving.ServerTls
            kw = dict(keypath=_cert("server_key.pem"), certpath=_cert("server_cert.pem"), certify=ssl.CERT_NONE)
        if self.case.get("bl"):
            kw["bl"] = self.case["bl"]
        for _ in range(40):
            port = ports.next()
            srv = cls(ha=(HOST, port), **kw)
            if srv.reopen():
                self.server = srv
                self.port = port
                return
            srv.close()
        raise HarnessError("no free listen port found in the shard's range")

    # -- harness peers ---------------------------------------------------------
    def _srcport(self, slot):
        if slot not in self.srcports:
            self.srcports[slot] = _proc["ports"].next()
        return self.srcports[slot]

    def _tcp_connect(self, pid, src):
        bl = self.case.get("bl")
        if bl and self.unserviced >= bl:
            self.service(1)     # let the server accept: a full accept queue drops SYNs and connect() would wait
        self.unserviced += 1
        if src is not None and src in self.srcowner:
            self.abort(self.srcowner.pop(src))         # frees the 4-tuple: RST, no TIME_WAIT
        for attempt in range(30):
            s = self.led.mine(socket.socket(socket.AF_INET, socket.SOCK_STREAM), role="peer")
            try:
                if src is not None:
                    s.setsockopt(socket.SOL_SOCKET, socket.SO_REUSEADDR, 1)
                    s.setsockopt(socket.SOL_SOCKET, socket.SO_LINGER, struct.pack("ii", 1, 0))
                    s.bind((HOST, self._srcport(src)))
                s.settimeout(5.0)
                s.connect((HOST, self.port))
                s.setsockopt(socket.IPPROTO_TCP, socket.TCP_NODELAY, 1)
                s.setblocking(False)
            except OSError as ex:
                s.close()
                if src is not None and src not in self.used_src:
                    del self.srcports[src]               # first use of the slot: somebody else has that port
                    continue
                self.ctx.count("peer_connect_failed")
                self.trace.append(f"peer {pid} connect failed: {ex!r}")
                return None
            if src is not None:
                self.srcowner[src] = pid
            self.peers[pid] = {"sock": s, "src": src, "tls": False}
            self.used_src.add(src)
            return s
        return None

    def conn(self, pid, src):
        s = self._tcp_connect(pid, src)
        if s is None:
            return
        self.ctx.count("peer_connects")
        if src is not None:
            self.ctx.count("peer_connects_fixed_source_port")
        if not self.tls:
            return
        t = _client_ctx().wrap_socket(s, do_handshake_on_connect=False, server_hostname="localhost")
        self.led.mine(t, role="peer-tls")
        self.peers[pid]["sock"] = t
        self.peers[pid]["tls"] = True
        done = False
        for rounds in range(80):
            if not done:
                try:
                    t.do_handshake()
                    done = True
                except (ssl.SSLWantReadError, ssl.SSLWantWriteError):
                    pass
                except OSError as ex:
                    self.ctx.count("peer_tls_handshake_failed")
                    self.trace.append(f"peer {pid} handshake failed {ex!r}")
                    return
            self.service(1)
            ca = self._ca(pid)
            rm = self.server.ixes.get(ca)
            if done and rm is not None and getattr(rm, "connected", False) and rm.cs is not None:
                self.ctx.count("tls_handshakes_completed")
                return
            _pause(rounds)
        self.ctx.count("tls_handshake_not_completed_in_rounds")

    def _ca(self, pid):
        try:
            return self.peers[pid]["sock"].getsockname()
        except OSError:
            return None

    def stall(self, pid, src, k):
        s = self._tcp_connect(pid, src)
        if s is None:
            return
        data = _stall_bytes(k)
        if data:
            s.send(data)
        self.ctx.count("stalled_handshakes_started")
        self.ctx.seen("stall_kinds", k)

    def garbage(self, pid, src):
        s = self._tcp_connect(pid, src)
        if s is None:
            return
        s.send(b"GET / HTTP/1.0\r\n\r\n")
        self.ctx.count("garbage_hellos")

    def send(self, pid, n):
        p = self.peers.get(pid)
        if not p or p["sock"].fileno() == -1:
            return
        try:
            p["sock"].send(b"z" * n)
            self.ctx.count("peer_sends")
        except (ssl.SSLError, OSError):
            self.ctx.count("peer_send_failed")

    def close(self, pid):
        p = self.peers.get(pid)
        if not p or p["sock"].fileno() == -1:
            return
        p["sock"].close()                      # FIN (RST when the peer uses a fixed source port)
        if p["src"] is not None and self.srcowner.get(p["src"]) == pid:
            del self.srcowner[p["src"]]
        self.ctx.count("peer_closes")

    def abort(self, pid):
        p = self.peers.get(pid)
        if not p or p["sock"].fileno() == -1:
            return
        p["sock"].setsockopt(socket.SOL_SOCKET, socket.SO_LINGER, struct.pack("ii", 1, 0))
        p["sock"].close()                      # RST
        if p["src"] is not None and self.srcowner.get(p["src"]) == pid:
            del self.srcowner[p["src"]]
        self.ctx.count("peer_aborts")

    # -- the server under observation --------------------------------------------
    def service(self, n):
        for _ in range(n):
            self.unserviced = 0
            try:
                self.server.service()
                self.ctx.count("server_service_rounds")
            except Exception as ex:   # not this property (C10/C16); the ledger still judges the sockets
                self.ctx.count("server_service_raised")
                self.ctx.seen("service_exceptions", type(ex).__name__)
                self.trace.append(f"service raised {ex!r}")
            self.scan()

    def scan(self):
        srv = self.server
        if srv is None:
            return
        ixes = srv.ixes
        cxes = getattr(srv, "cxes", {})
        for r in self.remoters:
            prev = self.status.get(id(r))
            if prev == "out":
                continue
            ca = r.ca
            where = "cxes" if cxes.get(ca) is r else "ixes" if ixes.get(ca) is r else "out"
            if where == "out":
                if getattr(r, "aborted", False):
                    how = "handshake-aborted"
                elif prev == "ixes" or (prev is None and not self.tls):
                    how = "replaced-in-ixes" if ca in ixes else "removed-from-ixes"
                elif ca in cxes:
                    how = "replaced-in-cxes"
                elif ca in ixes:
                    how = "replaced-in-ixes"
                else:
                    how = "removed-from-cxes"
                self.lost[id(r)] = how
                self.ctx.count("remoters_left_tables." + how)
            self.status[id(r)] = where

    def prune_closed(self):
        for ca, rm in list(self.server.ixes.items()):
            if rm.cs is None:
                self.server.removeIx(ca)
        self.scan()

    def wrapped_or_owned(self):
        """ids of accepted plain sockets that some Remoter took (as .cs, or detached by its TLS wrap)"""
        ids = set()
        for r in self.remoters:
            ids.add(r._vf_cs0)
        return ids

    def states(self):
        """what there is to close right now (state labels, for coverage and the case signature)"""
        self.scan()
        labels = set()
        srv = self.server
        pending = len(getattr(srv, "cxes", {})) + len(srv.axes)
        if srv.axes:
            labels.add("queued-in-axes")
        if self.case.get("bl") and pending > srv.bl:
            self.ctx.count("closes_with_more_pending_handshakes_than_backlog")
        for r in self.remoters:
            st = self.status.get(id(r))
            if r.cs is None:
                continue                      # already closed earlier
            if st == "cxes":
                labels.add("tls-handshake-pending")
            elif st == "ixes":
                labels.add("cutoff-in-ixes" if r.cutoff else "live-in-ixes")
            elif st == "out":
                how = self.lost.get(id(r), "?")
                labels.add("replaced" if how.startswith("replaced") else how)
        return labels

    def judge(self, when, mark, labels):
        """every serving-side hio socket created before the close call (ledger seq < mark) must be closed"""
        ctx, srv = self.ctx, self.server
        ctx.count("server_closes_judged")
        ctx.count("server_closes_judged." + when)
        cxes = getattr(srv, "cxes", {})
        by_sock = {}
        for r in self.remoters:
            if r.cs is not None:
                by_sock[id(r.cs)] = r
        for lb in labels:
            ctx.count("at_close." + lb)
        self.closes.append(sorted(labels))
        for e in self.led.hio("serving"):
            if e.seq >= mark or e.reported:
                continue
            ctx.count("hio_server_sockets_checked")
            if e.kind != "new":
                self.accepted_checked += 1
            if e.kind == "accept" and id(e.sock) not in self.wrapped_or_owned():
                ctx.count("accepted_reset_before_service")
            if not e.open:
                continue
            e.reported = True
            r = by_sock.get(id(e.sock))
            if e.kind == "new":
                label = "listener"
            elif r is None and any(cs is e.sock for cs, _ in srv.axes):
                label = "accepted-still-queued-in-axes"
            elif r is None:
                label = "accepted-never-became-remoter"
            else:
                st = self.status.get(id(r))
                if cxes.get(r.ca) is r:
                    label = "tls-handshake-pending-in-cxes"
                elif srv.ixes.get(r.ca) is r:
                    label = "cutoff-connection-in-ixes" if r.cutoff else "connection-in-ixes"
                else:
                    label = self.lost.get(id(r), "not-in-ixes-or-cxes") + ":" + type(srv).__name__
            ctx.violation(f"server-close-leaves-open:{label}",
                          f"after {type(srv).__name__}.{when}() the hio-created socket {e.describe()} "
                          f"(created via {'>'.join(e.chain)}) still has fileno {e.sock.fileno()}; "
                          f"remoter={'%s ca=%s cutoff=%s' % (type(r).__name__, r.ca, r.cutoff) if r is not None else None}; "
                          f"ixes={list(srv.ixes)} cxes={list(cxes)}",
                          trace=self.trace[-30:])

    def run(self):
        _hook["remoters"] = self.remoters
        ctx = self.ctx
        self.open()
        srv = self.server
        _hook["scan"] = self.scan
        kinds = []
        for op in self.case["ops"]:
            k = op[0]
            kinds.append(k if k != "stall" else "stall:" + op[3])
            self.trace.append(op)
            if k == "conn":
                self.conn(op[1], op[2])
            elif k == "stall":
                self.stall(op[1], op[2], op[3])
            elif k == "garbage":
                self.garbage(op[1], op[2])
            elif k == "send":
                self.send(op[1], op[2])
            elif k == "close":
                self.close(op[1])
            elif k == "abort":
                self.abort(op[1])
            elif k == "service":
                self.service(op[1])
            elif k == "reopen":
                mark = len(self.led.entries)
                labels = self.states()
                ok = srv.reopen()
                self.scan()
                self.judge("reopen", mark, labels)
                self.prune_closed()
                if not ok:      # port taken meanwhile: nothing more can connect, finish the history anyway
                    ctx.count("server_reopen_bind_failed")
            elif k == "srvclose":
                mark = len(self.led.entries)
                labels = self.states()
                srv.close()
                self.scan()
                self.judge("close", mark, labels)
                self.prune_closed()
            else:
                raise HarnessError(f"unknown op {op}")
        if self.accepted_checked:
            ctx.nontrivial(["server", self.tls, kinds, self.closes])
        ctx.seen("close_state_sets", self.closes)
        return kinds

    def cleanup(self):
        _hook["remoters"] = None
        _hook["scan"] = None
        for p in self.peers.values():
            try:
                p["sock"].close()
            except Exception:
                pass
        if self.server is not None:
            try:
                self.server.close()
            except Exception:
                pass


# --------------------------------------------------------------------------
# client cases
# --------------------------------------------------------------------------
class ClientRun:
    def __init__(self, case, ctx, led):
        self.case, self.ctx, self.led = case, ctx, led
        self.tls = case["tls"]
        self.lsock = None
        self.accepted = []     # harness-side accepted sockets: dict(sock, tls, done)
        self.trace = []
        self.tymist = tyming.Tymist(tyme=0.0, tock=0.125)
        self.seen_client_socks = 0

    def listen(self, on):
        if on and self.lsock is None:
            s = self.led.mine(socket.socket(socket.AF_INET, socket.SOCK_STREAM), role="listener")
            s.setsockopt(socket.SOL_SOCKET, socket.SO_REUSEADDR, 1)
            try:
                s.bind((HOST, self.port))
                s.listen(16)
            except OSError:
                s.close()
                self.ctx.count("harness_listener_bind_failed")
                return
            s.setblocking(False)
            self.lsock = s
        elif not on and self.lsock is not None:
            self.lsock.close()
            self.lsock = None

    def pump(self):
        """harness side of the connection: accept what arrived, move TLS handshakes on"""
        if self.lsock is not None:
            while True:
                try:
                    s, _ = self.lsock.accept()
                except OSError:
                    break
                self.led.mine(s, role="accepted")
                s.setsockopt(socket.IPPROTO_TCP, socket.TCP_NODELAY, 1)
                s.setblocking(False)
                a = {"sock": s, "tls": False, "done": not self.tls}
                if self.tls and self.case["peer_tls"] == "handshake":
                    t = _server_ctx().wrap_socket(s, server_side=True, do_handshake_on_connect=False)
                    self.led.mine(t, role="accepted-tls")
                    a.update(sock=t, tls=True)
                self.accepted.append(a)
                self.ctx.count("harness_accepts")
        for a in self.accepted:
            if a["tls"] and not a["done"] and a["sock"].fileno() != -1:
                try:
                    a["sock"].do_handshake()
                    a["done"] = True
                    self.ctx.count("harness_tls_handshakes_completed")
                except (ssl.SSLWantReadError, ssl.SSLWantWriteError):
                    pass
                except OSError:
                    a["sock"].close()

    def peers_close(self, rst):
        for a in self.accepted:
            if a["sock"].fileno() != -1:
                if rst:
                    a["sock"].setsockopt(socket.SOL_SOCKET, socket.SO_LINGER, struct.pack("ii", 1, 0))
                a["sock"].close()
        self.ctx.count("peer_aborts" if rst else "peer_closes")

    def call(self, what, fn):
        try:
            return fn()
        except Exception as ex:      # e.g. ClientTls.handshake re-raises (C10); sockets are still judged
            self.ctx.count("client_call_raised")
            self.ctx.seen("client_exceptions", [what, type(ex).__name__])
            self.trace.append(f"{what} raised {ex!r}")
            return None

    def judge(self, after):
        ctx, cl = self.ctx, self.client
        ctx.count("client_ops_judged")
        entries = self.led.hio("clienting")
        if len(entries) > self.seen_client_socks:
            ctx.count("client_sockets_created", len(entries) - self.seen_client_socks)
            self.seen_client_socks = len(entries)
        open_ = [e for e in entries if e.open]
        newest = entries[-1] if entries else None
        for e in open_:
            if e.sock is cl.cs:
                continue
            if e.reported:
                continue
            e.reported = True
            if cl.cs is None:
                key = "client-socket-open-after-close"
            else:
                key = "client-earlier-socket-left-open:replaced-by-" + (newest.site if newest else "?")
            ctx.violation(key, f"after {after}: hio-created client socket {e.describe()} (created via {'>'.join(e.chain)}) "
                               f"is still open (fileno {e.sock.fileno()}) but client.cs is "
                               f"{'None' if cl.cs is None else 'a different socket #%d' % self.led.entry(cl.cs).seq}; "
                               f"{len(open_)} hio client sockets open", trace=self.trace[-30:])
        if after == "close":
            ctx.count("client_closes_judged")
            if cl.cs is not None:
                ctx.violation("client-cs-not-none-after-close", f"client.cs is {cl.cs!r} after close()", trace=self.trace[-30:])

    def run(self):
        ctx, case = self.ctx, self.case
        self.port = _proc["ports"].next()
        kw = dict(ha=(HOST, self.port), tymth=self.tymist.tymen(), tymeout=case["tymeout"],
                  reconnectable=case["reconnectable"])
        if self.tls:
            cl = clienting.ClientTls(certify=ssl.CERT_NONE, hostify=False, certedhost="localhost", **kw)
        else:
            cl = clienting.Client(**kw)
        self.client = cl
        cl.reopen()
        self.judge("reopen")
        kinds = []
        connected_once = False
        for op in case["ops"]:
            k = op[0]
            kinds.append(k if k != "listen" else f"listen:{op[1]}")
            self.trace.append(op)
            if k == "listen":
                self.listen(op[1])
            elif k == "reopen":
                self.call("reopen", cl.reopen)
                ctx.count("client_reopens")
            elif k in ("connect", "service"):
                for rounds in range(op[1]):
                    before = cl.cs
                    had = cl.connected
                    self.call(k, cl.serviceConnect if k == "connect" else cl.service)
                    if cl.cs is not before and before is not None and self.lsock is None and not had:
                        ctx.count("client_refused_reopens")
                    self.pump()
                    self.judge(k)
                    if cl.connected and not had:
                        ctx.count("client_connects_completed")
                        connected_once = True
                    _pause(rounds)
            elif k == "tx":
                cl.tx(b"q" * op[1])
            elif k == "peer_close":
                self.peers_close(False)
            elif k == "peer_abort":
                self.peers_close(True)
            elif k == "peer_garbage":
                for a in self.accepted:
                    if a["sock"].fileno() != -1 and not a["done"]:
                        a["sock"].close()
                # a connection the harness has not accepted yet gets plain-text garbage instead of a ServerHello
                self.pump_garbage()
            elif k == "tick":
                for _ in range(op[1]):
                    self.tymist.tick()
                    before = cl.cs
                    self.call("serviceConnect", cl.serviceConnect)
                    if cl.cs is not before and not cl.connected and cl.reconnectable and cl.tymeout > 0:
                        ctx.count("client_tymeout_reopens_or_refused")
                    self.pump()
                    self.judge("tick")
            elif k == "app_reconnect":
                if cl.cutoff or not cl.connected:
                    self.call("reopen", cl.reopen)
                    ctx.count("client_app_reconnects")
            elif k == "close":
                self.call("close", cl.close)
                self.judge("close")
                continue
            else:
                raise HarnessError(f"unknown op {op}")
            if cl.cutoff:
                ctx.count("client_cutoffs_seen")
            self.judge(k)
        if self.seen_client_socks >= 2:
            ctx.nontrivial(["client", self.tls, case["reconnectable"], kinds])
        return kinds

    def pump_garbage(self):
        if self.lsock is None:
            return
        while True:
            try:
                s, _ = self.lsock.accept()
            except OSError:
                break
            self.led.mine(s, role="accepted")
            s.setblocking(False)
            try:
                s.send(b"HTTP/1.0 400 no tls here\r\n\r\n")
            except OSError:
                pass
            self.accepted.append({"sock": s, "tls": False, "done": True})
            self.ctx.count("harness_garbage_server_hellos")

    def cleanup(self):
        try:
            self.client.close()
        except Exception:
            pass
        for a in self.accepted:
            try:
                a["sock"].close()
            except Exception:
                pass
        if self.lsock is not None:
            self.lsock.close()


# --------------------------------------------------------------------------
def run_case(case, ctx):
    led = Ledger().begin()
    run = (ServerRun if case["kind"] == "server" else ClientRun)(case, ctx, led)
    kinds = None
    try:
        kinds = run.run()
    finally:
        run.cleanup()
        res = led.finish()
    ctx.count("census_checks")
    if led.orphans:
        ctx.count("ssl_wrap_raised_socket_never_returned_obs", led.orphans)
    ctx.count("ledger_entries", res["n_entries"])
    # anything hio created that survived the endpoint's close() and was not already reported above
    for e in res["leaked"]:
        if not e.reported:
            ctx.violation(f"open-after-final-close:{e.site}",
                          f"hio-created socket {e.describe()} (created via {'>'.join(e.chain)}) was still open "
                          f"after the endpoint's final close()", trace=run.trace[-30:])
    if res["census_extra"]:
        ctx.violation("fd-census:socket-descriptor-not-in-ledger",
                      f"socket descriptors {res['census_extra']} are open after the case although every ledger "
                      f"socket is accounted for (baseline {led.baseline})", trace=run.trace[-30:])
    ctx.sample({"case": case, "ledger": [e.describe() for e in led.entries][:12], "trace_tail": run.trace[-6:]})
