"""C22 - memo receivers survive arbitrary datagrams and deliver only authentic memos.

Monitor shape: fault enumeration against the real receive path with two oracles.

Seed datagrams are produced by the real transmit path (rend/sign) for signed and unsigned codes,
base64 and binary headers, zeroth and non-zeroth grams.  Faults are then enumerated on them -
every single-byte substitution at every offset, every truncation length, every header field filled
with invalid UTF-8 / invalid base64, unknown and ack codes in both encodings, gram numbers and
counts beyond the legal range (unsigned, and properly signed by the key holder), grams signed by a
foreign key, grams signed with a rotated-away key of a transferable (D) vid or for a D/E vid the
receiver has no key for, "warm receiver" histories (a receiver that already delivered genuine memos gets
altered replays of the accepted grams with their original vid+signature, and memos of a second
signer re-using the delivered memo ids, alone and mixed with replays), unsigned grams sent to a receiver that requires signatures, random datagrams - and
handed to a real receiver `Memoer`, alone and mixed with the valid rest of the memo.

  S  (safety)        no call of serviceAllRx()/serviceAllRxOnce() raises, whatever was received;
                     a datagram that pick() rejects leaves the receiver state untouched (dropped);
                     an escaping exception is keyed by (exception type, innermost hio function).
  A  (authenticity)  with authic=True every delivered memo (text, vid) is byte-identical to a memo
                     that the holder of vid's signing key really sent in this case.

A control per seed shows the untampered grams are delivered, so non-delivery of tampered ones means
rejection and not a broken harness.
"""
import random

from hio import hioing
from hio.core.memo.memoing import Memoer
from hio.help import helping

from vf.mon import memoshim as ms

ID = "C22"
LEVEL = "fault_enumeration"
TECHNIQUE = ("fault enumeration on real signed/unsigned grams (byte substitutions at every offset, truncations, field "
             "fills, code/neck edits, foreign signatures, random datagrams) against the real receive path; oracle = no "
             "escaping exception + delivered memos are a subset of what key holders sent")
RULE = ("a case = a seed (gram code x header encoding x receiver authic) and one fault site: (gram, byte offset) with a "
        "set of substitute values, or (gram) with all truncation lengths, or a field fill, a code, a neck value, a "
        "foreign-signature variant, or a batch of random datagrams. Every offset of every seed gram is a site (16 values "
        "per site quick; all 255 for header/signature bytes and 64 for body bytes thorough). The faulty datagram is fed "
        "alone first and then mixed with the valid grams of the memo in two orders. Non-trivial = at least one fault "
        "was injected and the control memo was delivered; distinct = by seed, fault kind and site.")
ASSUMPTIONS = [
    "the attacker does not hold the genuine signers' private keys (it holds its own key pair)",
    "the receiver's keep maps D/E vids to the genuine verification keys",
    "the claimed signer's key is: the key spelled out by the vid for non-transferable B vids; the receiver's keep entry "
    "for D (transferable) and E (digest) vids, no entry = nothing verifies (Memoer.verify / _decodeVID docstrings)",
    "authenticity is claimed only for receivers constructed with authic=True, as in the statement",
]
NSHARDS = {"quick": 16, "thorough": 16}
TIMEOUT_S = {"quick": 240, "thorough": 1800}
REQUIRE = {"inflight_datagrams_fed": 500, "inflight_genuine_memo_delivered_intact": 100,
           "inflight_first_claimant_keeps_memo_id": 30, "warm_receivers": 1500, "warm_hostile_feeds": 3000, "warm_altered_replays_rejected": 1200,
           "midreuse_delivered_attributed_to_second_signer": 20, "midreuse_stale_gram_not_fused": 6,
           "rotation_old_key_rejected": 12, "rotation_current_key_delivered": 24,
           "unknown_transferable_vid_rejected": 12, "unknown_digest_vid_rejected": 6, "faults_injected": 20000, "fault_sites": 900, "fault_kinds": 8, "rejected_by_verify": 3000,
           "rejected_by_pick_other": 1000, "controls_delivered": 200, "authentic_checks": 10000,
           "dropped_state_checks": 5000}
EXHAUSTIVE = {
    "quick": "every byte offset of every seed gram (2 codes x 2 encodings x 3 grams, signed and unsigned; signed seeds "
             "against a non-authic receiver: code/neck/mid offsets only) x 16 "
             "class-representative substitute values; every truncation length; every 'bAA?' / 'bA?A' / 'b?AA' code in both encodings",
    "thorough": "every byte offset of every seed gram (4 codes x 2 encodings x 3 grams) x all 255 substitute values for "
                "header and signature bytes (64 for body bytes); every truncation length; every code as in quick",
}

# class representatives: NUL, LF, space, non-base64 punctuation, base64 pad, base64 digits of both ends, DEL,
# UTF-8 continuation / lead / invalid bytes
QUICK_VALUES = [0x00, 0x0A, 0x20, 0x21, 0x2B, 0x2D, 0x2F, 0x3D, 0x41, 0x42, 0x5F, 0x62, 0x7F, 0x80, 0xC3, 0xFF]
B64 = "ABCDEFGHIJKLMNOPQRSTUVWXYZabcdefghijklmnopqrstuvwxyz0123456789-_"
GENUINE, ATTACKER = 1, 9          # signer indices (memoshim.signer): genuine D-vid signer, attacker B-vid signer


# ---------------------------------------------------------------------------
# seeds
# ---------------------------------------------------------------------------
def seed_cfgs(tier):
    codes = ["bAAA", "bAAC"] if tier == "quick" else ms.ZERO_CODES
    out = []
    for code in codes:
        signed = code in ms.AUTH_ZERO
        for curt in (False, True):
            out.append({"code": code, "curt": curt, "signer": GENUINE if signed else None})
    if tier != "quick":                 # the other two vid kinds (B: key in the vid itself, E: digest) once each
        out.append({"code": "bAAC", "curt": False, "signer": 0})
        out.append({"code": "bAAC", "curt": True, "signer": 2})
    return out


def build_seed(cfg, n=3, tag="genuine-memo"):
    """Genuine grams of an n-gram memo through the real transmit path: (text, vid, grams, gram codes)."""
    code, curt = cfg["code"], cfg["curt"]
    base = Memoer(code=code, curt=curt, size=1).size
    size = base + 5
    for d in range(0, 16):              # smallest size at which this tree's rend works (see C20 notes)
        if ms.layout(code, curt, base + 5 + d)[0] != "fail":
            size = base + 5 + d
            break
    nbytes = ms.nbytes_for(n, code, curt, size, slack=1)
    text = ms.make_text(tag, nbytes or 24, random.Random(5))
    ms.reset_mids()                     # layout probing above consumed memo ids on its first (uncached) run
    grams, tx = ms.render(text, code, curt, size, cfg["signer"], dst="rx")
    vid = ms.signer(cfg["signer"])[0] if cfg["signer"] is not None else None
    gcodes = [code] + [Memoer.Pairs[code]] * (len(grams) - 1)
    return text, vid, grams, gcodes, tx


def cases(tier, seed, shard, nshards):
    quick = tier == "quick"
    ms.install_fake_uuid()
    i = 0
    for cfg in seed_cfgs(tier):
        ms.reset_mids()
        signed = cfg["signer"] is not None
        try:
            text, vid, grams, gcodes, _tx = build_seed(cfg)
        except Exception:
            grams, gcodes = [], []
        modes = [True, False]           # receiver authic
        for authic in modes:
            for gi, g in enumerate(grams):
                labels = ms.field_map(gcodes[gi], cfg["curt"], len(g))
                for off in range(len(g)):
                    if quick and signed and not authic and labels[off] in ("vid", "body", "sig"):
                        continue    # quick: signed seeds x non-authic receiver only for the fields parsed before verify
                    if quick:
                        vals = sorted(set(QUICK_VALUES + [g[off] ^ 0x01, g[off] ^ 0x80]) - {g[off]})
                    elif labels[off] == "body":
                        r = random.Random(f"{seed}:C22:{gi}:{off}")
                        vals = sorted(set(QUICK_VALUES + [g[off] ^ 0x01, g[off] ^ 0x80] +
                                          [r.randrange(256) for _ in range(48)]) - {g[off]})
                    else:
                        vals = [v for v in range(256) if v != g[off]]
                    if i % nshards == shard:
                        yield {"kind": "subst", "cfg": cfg, "authic": authic, "gram": gi, "offset": off,
                               "field": labels[off], "values": vals}
                    i += 1
                if i % nshards == shard:
                    yield {"kind": "trunc", "cfg": cfg, "authic": authic, "gram": gi}
                i += 1
                for field in ("code", "neck", "mid", "vid", "body", "sig"):
                    if field in labels:
                        if i % nshards == shard:
                            yield {"kind": "fill", "cfg": cfg, "authic": authic, "gram": gi, "field": field}
                        i += 1
            for what in ("codes", "neck", "foreign", "unsigned-to-authic", "dup-conflict"):
                if i % nshards == shard:
                    yield {"kind": what, "cfg": cfg, "authic": authic}
                i += 1
    # warm receivers: the receiver has already delivered genuine signed memos when the hostile datagrams arrive
    for code in ms.AUTH_ZERO if not quick else ["bAAC"]:
        for curt in (False, True):
            cfg = {"code": code, "curt": curt, "signer": GENUINE}
            for n in (1, 2, 3):
                ms.reset_mids()
                try:
                    _t, _v, grams, gcodes, _tx = build_seed(cfg, n, "warm-memo")
                except Exception:
                    grams, gcodes = [], []
                for authic in ((True,) if quick else (True, False)):
                    for gi, g in enumerate(grams):
                        labels = ms.field_map(gcodes[gi], curt, len(g))
                        offs = [o for o, l in enumerate(labels) if quick and l in ("code", "neck", "mid", "body")
                                or not quick]
                        step = 12
                        for a in range(0, len(offs), step):
                            if i % nshards == shard:
                                yield {"kind": "warm-subst", "cfg": cfg, "authic": authic, "n": n, "gram": gi,
                                       "offsets": offs[a:a + step], "nvalues": 3 if quick else 12,
                                       "second": (a // step) % 2 == 1}
                            i += 1
                    for what in ("warm-edit", "warm-reuse", "inflight-reuse"):
                        if i % nshards == shard:
                            yield {"kind": what, "cfg": cfg, "authic": authic, "n": n}
                        i += 1
    # key rotation / unknown signers: who is "the claimed signer" for transferable (D) and digest (E) vids
    for code in ms.AUTH_ZERO:
        for curt in (False, True):
            for authic in (True, False):
                for ngrams in (1, 2, 3):
                    if i % nshards == shard:
                        yield {"kind": "rotation", "code": code, "curt": curt, "authic": authic, "ngrams": ngrams}
                    i += 1
    rng = random.Random(f"{seed}:C22:{shard}")
    nrand = (600 if quick else 20000) // nshards
    for _ in range(nrand):
        grams = []
        for _ in range(rng.randint(4, 24)):
            r = rng.random()
            ln = rng.choice([0, 1, 2, 3, 4, 5, 8, 23, 24, 31, 32, 33, 90, 119, 120, 123, 124, 163, 164, 165, 200, 600])
            body = bytes(rng.randrange(256) for _ in range(ln))
            if r < 0.35:      # looks like base64 text header
                head = ("b" + "".join(rng.choice(B64[:12] if rng.random() < 0.7 else B64) for _ in range(3))).encode()
                rest = "".join(rng.choice(B64) for _ in range(rng.choice([0, 4, 28, 72, 116, 160]))).encode()
                body = head + rest + body
            elif r < 0.7:     # looks like base2 binary header
                head = helping.codeB64ToB2("b" + "".join(rng.choice(B64[:12] if rng.random() < 0.7 else B64)
                                                         for _ in range(3)))
                body = head + body
            elif r < 0.8 and body:   # first sextet of a valid header, rest random
                body = bytes([rng.choice([0x60, 0x61, 0x62, 0x63, 0x6C, 0x6D, 0x6E, 0x6F])]) + body[1:]
            grams.append(body.decode("latin-1"))
        yield {"kind": "random", "authic": rng.random() < 0.5, "datagrams": grams,
               "api": rng.choice(["all", "once"])}


# ---------------------------------------------------------------------------
# driving one receiver
# ---------------------------------------------------------------------------
def setup(ctx):
    ms.install_fake_uuid()


class Scenario:
    """One fresh receiver; feed datagrams, service, apply both oracles after every service call."""

    def __init__(self, ctx, authic, authentic, what, api="all", keep=None):
        self.ctx = ctx
        self.authic = authic
        self.authentic = authentic      # set of (text, vid) really sent by key holders
        self.what = what                # fault description for messages / key suffix
        self.api = api
        self.rx = ms.new_rx(authic, ms.keep_of([0, 1, 2]) if keep is None else keep)
        self.ok = True
        self.fed = []

    def state(self):
        rx = self.rx
        return (repr(sorted((m, sorted((k, bytes(v)) for k, v in g.items())) for m, g in rx.rxgs.items())),
                dict(rx.counts), dict(rx.vids), dict(rx.sources), list(rx.rxms), list(rx.inbox))

    def feed(self, datagram, kind, src="attacker"):
        """Hand over one datagram and service.  Returns False when an oracle fired."""
        if not self.ok:
            return False
        ctx, rx = self.ctx, self.rx
        before = self.state()
        nlog = len(rx.picklog)
        rx.wire.append((bytes(datagram), src, kind))
        self.fed.append(bytes(datagram))
        try:
            if self.api == "all":
                rx.serviceAllRx()
            else:
                for _ in range(3):
                    rx.serviceAllRxOnce()
        except Exception as ex:
            self.ok = False
            ctx.count("escapes_total")
            again = ""
            try:                       # does the receiver stay broken?  (witness detail only)
                rx.serviceAllRx()
            except Exception as ex2:
                again = f"; the next serviceAllRx() with nothing received raises again: {type(ex2).__name__}"
            ctx.violation(ms.escape_key(ex),
                          f"receive servicing raised {type(ex).__name__}: {ex} on {self.what}; authic={self.authic}; "
                          f"datagram={bytes(datagram)[:200]!r} (len {len(datagram)}){again}")
            return False
        for tag, outcome, _n in rx.picklog[nlog:]:
            if outcome == "ok":
                ctx.count("accepted_by_pick")
            elif outcome == "MemoerVerifyError":
                ctx.count("rejected_by_verify")
            else:
                ctx.count("rejected_by_pick_other")
        if rx.picklog[nlog:] and all(o != "ok" for _t, o, _n in rx.picklog[nlog:]):
            ctx.count("dropped_state_checks")
            if self.state() != before:
                self.ok = False
                ctx.violation("rejected-gram-changed-state",
                              f"pick rejected the datagram but receiver state changed on {self.what}")
                return False
        return self.check_delivered()

    def check_delivered(self):
        ctx, rx = self.ctx, self.rx
        for entry in list(rx.inbox) + list(rx.rxms):
            text, src, vid = entry
            if self.authic:
                ctx.count("authentic_checks")
                if (text, vid) not in self.authentic:
                    self.ok = False
                    ctx.violation("unauthentic-memo-delivered:" + self.what.split(" ")[0],
                                  f"receiver with authic=True delivered text={text[:60]!r} vid={vid!r} whose grams do not "
                                  f"all verify for the claimed signer (nobody holding that signer's current key sent "
                                  f"it); fault: {self.what}; datagrams fed: "
                                  f"{[d[:60] for d in self.fed[-4:]]!r}")
                    return False
        return True

    def close(self):
        self.rx.close()


def run_mixed(ctx, authic, authentic, grams, gi, bad, what, variant, api="all"):
    """Feed the faulty datagram alone, then mixed with the valid grams (two orders)."""
    sc = Scenario(ctx, authic, authentic, what, api)
    try:
        ctx.count("faults_injected")
        if variant == 0:
            # faulty first (also before the zeroth gram), then every genuine gram in order
            if not sc.feed(bad, "fault"):
                return
            for g in grams:
                if not sc.feed(g, "genuine", "genuine-src"):
                    return
        else:
            # genuine grams with the faulty one in place of gram gi, then the genuine gram gi
            for k, g in enumerate(grams):
                if not sc.feed(bad if k == gi else g, "fault" if k == gi else "genuine",
                               "attacker" if k == gi else "genuine-src"):
                    return
            if not sc.feed(grams[gi], "genuine", "genuine-src"):
                return
        if any((t, v) in authentic for (t, _s, v) in sc.rx.inbox):
            ctx.count("genuine_delivered_despite_fault")
    finally:
        sc.close()


def control(ctx, cfg, text, vid, grams, authic):
    """Untampered grams must be delivered (to a receiver that accepts this kind of gram)."""
    signed = cfg["signer"] is not None
    if authic and not signed:
        return True
    sc = Scenario(ctx, authic, {(text, vid)}, "control")
    try:
        for g in grams:
            if not sc.feed(g, "genuine", "genuine-src"):
                return False
        got = [(t, v) for t, _s, v in sc.rx.inbox]
        if got != [(text, vid)]:
            ctx.violation("control:genuine-memo-not-delivered",
                          f"untampered grams of code={cfg['code']} curt={cfg['curt']} gave {got!r}")
            return False
        ctx.count("controls_delivered")
        return True
    finally:
        sc.close()


def set_field(gram, labels, field, fill):
    out = bytearray(gram)
    idx = [k for k, l in enumerate(labels) if l == field]
    for n, k in enumerate(idx):
        out[k] = fill[n % len(fill)]
    return bytes(out)


def neck_bytes(value, curt):
    return value.to_bytes(3, "big") if curt else helping.intToB64b(value, l=4)


def craft(signer_idx, code, curt, neck, mid, body, claim_vid=None):
    """A well-formed gram built by hand and, for auth codes, properly signed by signer_idx's key through the real
    Memoer.sign (claim_vid lets the attacker claim somebody else's vid in the header)."""
    from base64 import urlsafe_b64decode as dec
    vid, keyage = ms.signer(signer_idx) if signer_idx is not None else (None, None)
    bz, nz, mz, vz, az = Memoer.Sizes[code]
    head = code.encode() + helping.intToB64b(neck, l=4) + mid.encode()
    shown = claim_vid if claim_vid is not None else vid
    if vz:
        head += shown.encode()
    if curt:
        head = dec(head)
    gram = head + body
    if az:
        signer = Memoer(code="bAAC", curt=curt, keep={vid: keyage}, vid=vid)
        gram = gram + signer.sign(vid, gram)
    return gram


# ---------------------------------------------------------------------------
def run_case(case, ctx):
    ms.reset_mids()
    kind = case["kind"]
    ctx.seen("fault_kinds", kind)
    if kind == "random":
        return run_random(case, ctx)
    if kind == "rotation":
        return run_rotation(case, ctx)
    if kind.startswith("warm-"):
        return run_warm(case, ctx)
    if kind == "inflight-reuse":
        return run_inflight(case, ctx)
    cfg, authic = case["cfg"], case["authic"]
    code, curt = cfg["code"], cfg["curt"]
    signed = cfg["signer"] is not None
    try:
        text, vid, grams, gcodes, tx = build_seed(cfg)
    except Exception as ex:
        ctx.violation(ms.escape_key(ex, "tx-escape"), f"could not produce seed grams for {cfg}: {ex!r}")
        return
    if len(grams) < 2:
        raise AssertionError("harness: seed memo has fewer than 2 grams")
    authentic = {(text, vid)} if signed else set()
    if not control(ctx, cfg, text, vid, grams, authic):
        return

    if kind == "subst":
        gi, off = case["gram"], case["offset"]
        ctx.seen("fault_sites", [code, curt, gi, off])
        ctx.count("fault_field_" + case["field"])
        for v in case["values"]:
            bad = bytearray(grams[gi])
            bad[off] = v
            run_mixed(ctx, authic, authentic, grams, gi, bytes(bad),
                      f"subst-{case['field']} gram {gi} offset {off}: 0x{grams[gi][off]:02x}->0x{v:02x} "
                      f"(code={code} curt={curt})", (off + v) % 2)
        ctx.nontrivial(["subst", code, curt, authic, gi, off])
    elif kind == "trunc":
        gi = case["gram"]
        for ln in range(len(grams[gi])):
            ctx.seen("fault_sites", [code, curt, gi, "trunc", ln])
            run_mixed(ctx, authic, authentic, grams, gi, grams[gi][:ln],
                      f"trunc gram {gi} to {ln} of {len(grams[gi])} bytes (code={code} curt={curt})", ln % 2)
        ctx.nontrivial(["trunc", code, curt, authic, gi])
    elif kind == "fill":
        gi, field = case["gram"], case["field"]
        labels = ms.field_map(gcodes[gi], curt, len(grams[gi]))
        fills = [b"\xff", b"\x80", b"\xc3\x28", b"!", b"=", b"A", b"_", b"\x00", b" ", b"+/", b"\xf0\x9f\x98",
                 bytes(range(1, 255, 7))]
        for n, fill in enumerate(fills):
            ctx.seen("fault_sites", [code, curt, gi, "fill", field, n])
            run_mixed(ctx, authic, authentic, grams, gi, set_field(grams[gi], labels, field, fill),
                      f"fill-{field} gram {gi} with {fill[:4]!r} (code={code} curt={curt})", n % 2,
                      api="once" if n % 3 == 0 else "all")
        ctx.nontrivial(["fill", code, curt, authic, gi, field])
    elif kind == "codes":
        from base64 import urlsafe_b64decode as dec
        codes = ["bAA" + c for c in B64] + ["bA" + c + "A" for c in B64] + ["b" + c + "AA" for c in B64] + \
                ["aAAA", "cAAA", "`AAA", "bA", "b", "bAAA"[:3]]
        n = 0
        for gi in (0, 1):
            labels = ms.field_map(gcodes[gi], curt, len(grams[gi]))
            clen = labels.count("code")
            for c in codes:
                if curt and any(ch not in B64 for ch in c):
                    continue                                  # no binary form for a non-base64 character
                if not curt:
                    cb = c.encode()
                elif len(c) == 4:
                    cb = dec(c.encode())                      # 4 sextets -> 3 bytes
                else:
                    cb = dec((c + "AAA")[:4].encode())[:max(1, len(c) * 3 // 4)]   # cut-off binary code
                for bad in (cb + grams[gi][clen:], cb + grams[gi][clen:clen + 40], cb):
                    n += 1
                    ctx.seen("fault_sites", [code, curt, gi, "code", c, len(bad)])
                    run_mixed(ctx, authic, authentic, grams, gi, bad,
                              f"code {c!r} on gram {gi} (len {len(bad)}) (code={code} curt={curt})", n % 2)
        ctx.nontrivial(["codes", code, curt, authic])
    elif kind == "neck":
        run_neck(ctx, cfg, authic, authentic, text, vid, grams, gcodes)
        ctx.nontrivial(["neck", code, curt, authic])
    elif kind == "foreign":
        run_foreign(ctx, cfg, authic, authentic, text, vid, grams, gcodes)
        ctx.nontrivial(["foreign", code, curt, authic])
    elif kind == "unsigned-to-authic":
        # unsigned grams (genuine text!) and signed grams re-labelled as unsigned, to a receiver of either kind
        plain_text = "<plain>" + text
        pgrams, _ = ms.render(plain_text, "bAAA", curt, 64, None)
        sc = Scenario(ctx, authic, authentic, "unsigned-to-authic plain grams")
        try:
            for g in pgrams:
                ctx.count("faults_injected")
                if not sc.feed(g, "fault"):
                    break
        finally:
            sc.close()
        if signed:
            labels = ms.field_map(gcodes[0], curt, len(grams[0]))
            for newcode in ("bAAA", "bAAE", "bAAB"):
                cb = helping.codeB64ToB2(newcode) if curt else newcode.encode()
                bad = cb + grams[0][labels.count("code"):]
                run_mixed(ctx, authic, authentic, grams, 0, bad,
                          f"relabel signed zeroth gram as {newcode} (code={code} curt={curt})", 0)
        ctx.nontrivial(["unsigned-to-authic", code, curt, authic])
    elif kind == "dup-conflict":
        # same memo id and gram number, different body: first one wins is fine, but with authic the forged body
        # must never be part of a delivered memo
        for gi in range(len(grams)):
            labels = ms.field_map(gcodes[gi], curt, len(grams[gi]))
            bad = set_field(grams[gi], labels, "body", b"FORGED!")
            for variant in (0, 1):
                run_mixed(ctx, authic, authentic, grams, gi, bad,
                          f"dup-conflict forged body in gram {gi} (code={code} curt={curt})", variant)
        ctx.nontrivial(["dup-conflict", code, curt, authic])
    else:
        raise AssertionError(kind)


def run_neck(ctx, cfg, authic, authentic, text, vid, grams, gcodes):
    """Gram numbers >= count, counts 0 / 1 / huge: header edits (signature then invalid) and, for signed codes,
    the same grams properly signed by the genuine key holder."""
    code, curt = cfg["code"], cfg["curt"]
    signed = cfg["signer"] is not None
    ncode = Memoer.Pairs[code]
    n = len(grams)
    values = [0, 1, n - 1, n, n + 1, 63, 64, 4095, 2 ** 24 - 1]
    k = 0
    for gi in range(n):
        labels = ms.field_map(gcodes[gi], curt, len(grams[gi]))
        for v in values:
            k += 1
            bad = set_field(grams[gi], labels, "neck", neck_bytes(v, curt))
            if bad == grams[gi]:
                continue
            ctx.seen("fault_sites", [code, curt, gi, "neck", v])
            run_mixed(ctx, authic, authentic, grams, gi, bad,
                      f"neck-edit gram {gi} neck={v} (memo has {n} grams) (code={code} curt={curt})", k % 2)
    # well-formed grams made by a key holder (or anybody, for unsigned codes): count says 2, grams numbered 0 and v
    who = cfg["signer"]
    for v in (2, 3, 7, 2 ** 24 - 1):
        for order in (0, 1):
            mid = Memoer.makeMID()
            t0, t1 = "<crafted>", "tail"
            z = craft(who, code, curt, 2, mid, t0.encode())
            x = craft(who, ncode, curt, v, mid, t1.encode())
            sc = Scenario(ctx, authic, authentic | ({(t0 + t1, vid)} if signed else set()),
                          f"neck-crafted count=2 grams 0 and {v} {'signed by key holder' if signed else 'unsigned'} "
                          f"(code={code} curt={curt})")
            try:
                ctx.count("faults_injected")
                for g in ((z, x) if order == 0 else (x, z)):
                    if not sc.feed(g, "fault", "crafter"):
                        break
            finally:
                sc.close()
    for cnt in (0, 1, 2 ** 24 - 1):
        mid = Memoer.makeMID()
        z = craft(who, code, curt, cnt, mid, b"<count-%d>" % cnt)
        # a key holder who announces count 0/1 and sends one gram has sent that text or the empty text
        allowed = {("<count-%d>" % cnt, vid), ("", vid)} if signed else set()
        sc = Scenario(ctx, authic, authentic | allowed,
                      f"neck-crafted zeroth gram announcing count={cnt} (code={code} curt={curt})")
        try:
            ctx.count("faults_injected")
            sc.feed(z, "fault", "crafter")
        finally:
            sc.close()


SECOND_B, SECOND_D = ATTACKER, 4        # second signer M: own key pair, B vid (self-certifying) resp. D vid (in keep)


def gram_mid(gram, gcode, curt):
    from base64 import urlsafe_b64encode as enc
    labels = ms.field_map(gcode, curt, len(gram))
    midb = bytes(b for b, l in zip(gram, labels) if l == "mid")
    return (enc(midb) if curt else midb).decode()


def run_warm(case, ctx):
    """State across memos: ONE receiver first delivers genuine signed memos of V, then gets hostile datagrams that
    re-use what it has seen: V's accepted grams with altered bytes (original vid + signature), V's memo ids re-used
    by a second signer M, M's grams mixed with replays of V's old grams.  Identical replays of V's grams are not
    faults (and a full identical replay delivering V's memo again is the recorded C20 finding: same text, same vid,
    so it passes this oracle by construction)."""
    kind, cfg, authic, n = case["kind"], case["cfg"], case["authic"], case["n"]
    code, curt = cfg["code"], cfg["curt"]
    ncode = Memoer.Pairs[code]
    keep = ms.keep_of([0, 1, 2, SECOND_D])
    ms.reset_mids()
    try:
        text, vid, grams, gcodes, _tx = build_seed(cfg, n, "warm-memo")
        ms.FAKE_UUID.salt = b"second"
        cfg2 = {"code": code, "curt": not curt, "signer": GENUINE}
        text2, _v2, grams2, gcodes2, _tx2 = build_seed(cfg2, 2, "warm-memo-two")
    except Exception as ex:
        ctx.violation(ms.escape_key(ex, "tx-escape"), f"could not produce warm seeds for {cfg}: {ex!r}")
        return
    mid = gram_mid(grams[0], gcodes[0], curt)
    base_auth = {(text, vid), (text2, vid)}

    def warm(what, extra=(), second=False):
        """Fresh receiver that has delivered V's memo(s); None when the control failed."""
        sc = Scenario(ctx, authic, base_auth | set(extra), what, keep=keep)
        for g in grams + (grams2 if second else []):
            if not sc.feed(g, "genuine", "V-src"):
                sc.close()
                return None
        got = [(t, v) for t, _s, v in sc.rx.inbox]
        want = [(text, vid)] + ([(text2, vid)] if second else [])
        if got != want:
            ctx.violation("control:genuine-memo-not-delivered", f"warm-up of {what}: receiver delivered {got!r}")
            sc.close()
            return None
        ctx.count("warm_receivers")
        return sc

    def hostile(sc, datagrams):
        for g in datagrams:
            ctx.count("warm_hostile_feeds")
            if not sc.feed(g, "fault", "attacker"):
                return False
        return True

    def nothing_new(sc, base):
        """only V's genuine memo(s) (possibly again: identical replays) may be in the inbox"""
        return all((t, v) in base_auth for t, _s, v in sc.rx.inbox)

    if kind == "warm-subst":
        gi = case["gram"]
        for off in case["offsets"]:
            orig = grams[gi][off]
            vals = [orig ^ 0x01, orig ^ 0x20, (orig + 1) % 256, 0x41, 0x5F, 0x62, 0x30, 0x7A, 0x2D, 0x00, 0x80, 0xFF]
            vals = [v for v in dict.fromkeys(vals) if v != orig][:case["nvalues"]]
            for k, v in enumerate(vals):
                bad = bytearray(grams[gi])
                bad[off] = v
                bad = bytes(bad)
                ctx.count("faults_injected")
                ctx.seen("fault_sites", [code, curt, "warm", n, gi, off])
                sc = warm(f"warm-subst gram {gi} offset {off}: 0x{orig:02x}->0x{v:02x} replayed with its original vid and "
                          f"signature after the memo was delivered (code={code} curt={curt} n={n})",
                          second=case["second"])
                if sc is None:
                    return
                try:
                    others = [g for j, g in enumerate(grams) if j != gi]
                    seq = [bad] + others if (off + k) % 2 == 0 else (others[:1] + [bad] + others[1:])
                    if hostile(sc, seq) and nothing_new(sc, base_auth):
                        ctx.count("warm_altered_replays_rejected")
                finally:
                    sc.close()
        ctx.nontrivial([kind, code, curt, authic, n, gi, case["offsets"][:1]])
        return

    if kind == "warm-edit":
        edits = []
        lab0 = ms.field_map(gcodes[0], curt, len(grams[0]))
        for cnt in (1, max(1, n - 1), n + 1):
            if cnt != n:
                z = set_field(grams[0], lab0, "neck", neck_bytes(cnt, curt))
                edits.append((f"count {n}->{cnt} on the delivered zeroth gram", [z] + grams[1:cnt]))
        fresh = Memoer.makeMID()
        from base64 import urlsafe_b64decode as dec
        for gi in range(n):
            lab = ms.field_map(gcodes[gi], curt, len(grams[gi]))
            edits.append((f"body of gram {gi} replaced", [set_field(grams[gi], lab, "body", b"FORGED!")] +
                          [g for j, g in enumerate(grams) if j != gi]))
            edits.append((f"body of gram {gi} replaced, fed after the others",
                          [g for j, g in enumerate(grams) if j != gi] + [set_field(grams[gi], lab, "body", b"FORGED!")]))
            if gi > 0:
                for newn in (0, gi + 1 if gi + 1 < n else gi - 1, n):
                    if newn != gi:
                        moved = set_field(grams[gi], lab, "neck", neck_bytes(newn, curt))
                        edits.append((f"gram number {gi}->{newn}", [grams[0], moved] +
                                      [g for j, g in enumerate(grams) if j not in (0, gi, newn)]))
        # the whole memo under a fresh memo id with a forged body in one gram (original vid + signatures)
        midfill = dec(fresh.encode()) if curt else fresh.encode()
        moved = []
        for gi in range(n):
            lab = ms.field_map(gcodes[gi], curt, len(grams[gi]))
            g = set_field(grams[gi], lab, "mid", midfill)
            if gi == n - 1:
                g = set_field(g, lab, "body", b"FORGED!")
            moved.append(g)
        edits.append(("all grams moved to a fresh memo id, last body forged", moved))
        for what, seq in edits:
            ctx.count("faults_injected")
            sc = warm(f"warm-edit {what} (code={code} curt={curt} n={n})", second=True)
            if sc is None:
                return
            try:
                if hostile(sc, seq) and nothing_new(sc, base_auth):
                    ctx.count("warm_altered_replays_rejected")
            finally:
                sc.close()
        ctx.nontrivial([kind, code, curt, authic, n])
        return

    # warm-reuse: a second signer M re-uses the memo id of V's delivered memo
    for who in (SECOND_B, SECOND_D):
        mvid = ms.signer(who)[0]
        one = "<M-one-gram-memo>"
        m_one = craft(who, code, curt, 1, mid, one.encode())
        m0 = craft(who, code, curt, 2, mid, b"<M-two-")
        m1 = craft(who, ncode, curt, 1, mid, b"gram-memo>")
        two = "<M-two-gram-memo>"
        plans = [("M's one-gram memo under V's delivered memo id", [m_one], {(one, mvid)}, [(one, mvid)]),
                 ("M's two-gram memo under V's delivered memo id", [m0, m1], {(two, mvid)}, [(two, mvid)])]
        if n >= 2:
            plans += [
                ("M's zeroth gram, then a replay of V's old gram 1, then M's gram 1", [m0, grams[1], m1],
                 {(two, mvid)}, [(two, mvid)]),
                ("a replay of V's old gram 1, then M's zeroth gram and gram 1", [grams[1], m0, m1],
                 {(two, mvid)}, None),
                ("M's zeroth gram (count 2) and only replays of V's old gram 1", [m0, grams[1], grams[1]],
                 {(two, mvid)}, []),
            ]
        for what, seq, extra, expect in plans:
            ctx.count("faults_injected")
            sc = warm(f"warm-reuse {what}; M has a {mvid[0]} vid (code={code} curt={curt} n={n})", extra=extra,
                      second=(who == SECOND_D))
            if sc is None:
                return
            try:
                if not hostile(sc, seq):
                    continue
                new = [(t, v) for t, _s, v in sc.rx.inbox if (t, v) not in base_auth]
                if authic and expect is not None and new == expect and expect:
                    ctx.count("midreuse_delivered_attributed_to_second_signer")
                elif authic and expect == [] and not new:
                    ctx.count("midreuse_stale_gram_not_fused")
            finally:
                sc.close()
    ctx.nontrivial([kind, code, curt, authic, n])


def run_inflight(case, ctx):
    """While V's memo is still INCOMPLETE a second key holder E (own key pair, validly self-signed grams) re-uses its
    memo id: a zeroth gram with another body/count, non-zeroth duplicates with another body, in either encoding.
    Whatever is delivered under V's vid must be exactly V's memo; E's text may only come out under E's vid."""
    cfg, authic, n = case["cfg"], case["authic"], case["n"]
    code, curt = cfg["code"], cfg["curt"]
    ncode = Memoer.Pairs[code]
    keep = ms.keep_of([0, 1, 2, SECOND_D])
    ms.reset_mids()
    try:
        text, vid, grams, gcodes, _tx = build_seed(cfg, max(2, n), "inflight-memo")
    except Exception as ex:
        ctx.violation(ms.escape_key(ex, "tx-escape"), f"could not produce seeds for {cfg}: {ex!r}")
        return
    n = len(grams)
    mid = gram_mid(grams[0], gcodes[0], curt)
    for who in (SECOND_B, SECOND_D):
        evid = ms.signer(who)[0]
        for ecurt in (curt, not curt):
            e0 = craft(who, code, ecurt, n, mid, b"<E-FORGED-HEAD>")            # same count as V's memo
            e0one = craft(who, code, ecurt, 1, mid, b"<E-one-gram>")            # claims the memo has one gram
            e0two = craft(who, code, ecurt, 2, mid, b"<E-two-")
            e1 = craft(who, ncode, ecurt, 1, mid, b"gram-memo>")                 # E-signed non-zeroth duplicate
            elast = craft(who, ncode, ecurt, n - 1, mid, b"<E-FORGED-TAIL>")
            own = {("<E-two-gram-memo>", evid), ("<E-one-gram>", evid)}
            rest = grams[1:]
            plans = [
                ("V's zeroth, E's self-signed zeroth with the same memo id, V's remaining grams", [grams[0], e0] + rest),
                ("V's zeroth, E's zeroth claiming count 1, V's remaining grams", [grams[0], e0one] + rest),
                ("V's zeroth, E's non-zeroth duplicate of gram 1, V's remaining grams", [grams[0], e1] + rest),
                ("V's grams except the last, E's duplicate of the last gram, V's last gram",
                 grams[:-1] + [elast, grams[-1]]),
                ("V's grams except the last, E's zeroth, V's last gram", grams[:-1] + [e0, grams[-1]]),
                ("V's zeroth, V's zeroth again, E's zeroth twice, V's rest", [grams[0], grams[0], e0, e0] + rest),
                ("E's zeroth (count 2) first, V's grams, then E's gram 1", [e0two] + grams + [e1]),
                ("E's zeroth first, V's zeroth, E's gram 1, V's rest", [e0two, grams[0], e1] + rest),
            ]
            for k, (what, seq) in enumerate(plans):
                ctx.count("faults_injected")
                sc = Scenario(ctx, authic, {(text, vid)} | own,
                              f"inflight-reuse {what}; E has a {evid[0]} vid, E's grams "
                              f"{'binary' if ecurt else 'base64'} (code={code} curt={curt} n={n})", keep=keep,
                              api="once" if k % 3 == 2 else "all")
                try:
                    ok = True
                    for g in seq:
                        ctx.count("inflight_datagrams_fed")
                        if not sc.feed(g, "fault" if g not in grams else "genuine", "wire"):
                            ok = False
                            break
                    if ok and authic:
                        got = [(t, v) for t, _s, v in sc.rx.inbox]
                        if k < 6 and got == [(text, vid)]:
                            ctx.count("inflight_genuine_memo_delivered_intact")
                        elif k >= 6 and all(x in own for x in got):
                            ctx.count("inflight_first_claimant_keeps_memo_id")
                finally:
                    sc.close()
    ctx.nontrivial(["inflight-reuse", code, curt, authic, n])


OLDKEY, NEWKEY, DIGEST = 22, 25, 23      # memoshim.signer indices: 22 and 25 have D vids, 23 an E vid


def run_rotation(case, ctx):
    """Which key speaks for a vid?  Memoer.verify: "using current verkey for vid"; _decodeVID: only the
    non-transferable code B is self-certifying ("don't look up in keep just get the public key from the vid"), every
    other code (D transferable, E digest) is looked up in the receiver's keep and rejected when missing.
    So for a D vid derived from an old key K1 whose keep entry holds the current key K2, the claimed signer's key is
    K2: grams signed with K1 do not verify for the claimed signer; with no keep entry nothing verifies."""
    code, curt, authic, ngrams = case["code"], case["curt"], case["authic"], case["ngrams"]
    vid_d, key_old = ms.signer(OLDKEY)          # vid spells out the old key K1
    _v, key_new = ms.signer(NEWKEY)             # current key K2 of the same signer
    vid_e, key_e = ms.signer(DIGEST)
    base = Memoer(code=code, curt=curt, size=1).size
    size = base + 7
    nbytes = ms.nbytes_for(ngrams, code, curt, size, slack=1) or 24

    def run(what, keep, text, vid, keyage, expect_delivery, counter=None):
        for variant in (0, 1):
            ms.reset_mids(what)
            try:
                grams = ms.render_as(text, code, curt, size, vid, keyage)
            except Exception as ex:
                ctx.violation(ms.escape_key(ex, "tx-escape"), f"could not render rotation seed: {ex!r}")
                return
            authentic = {(text, vid)} if expect_delivery else set()
            sc = Scenario(ctx, authic, authentic, f"{what} (code={code} curt={curt} grams={len(grams)})", keep=keep)
            try:
                ctx.count("faults_injected")
                n = len(grams)
                order = list(range(n)) if variant == 0 else [0] + list(range(n - 1, 0, -1))   # zeroth first (see C20)
                if variant == 1 and n < 3:
                    continue
                for k in order:
                    if not sc.feed(grams[k], "fault" if not expect_delivery else "genuine", "peer"):
                        return
                got = [(t, v) for t, _s, v in sc.rx.inbox]
                if expect_delivery:
                    if got != [(text, vid)]:
                        ctx.violation("control:memo-signed-with-current-key-not-delivered",
                                      f"{what}: receiver authic={authic} delivered {got!r} instead of the memo signed "
                                      f"with the key its keep holds for {vid}")
                        return
                    if counter:
                        ctx.count(counter)
                elif authic and not got and counter:
                    ctx.count(counter)
            finally:
                sc.close()

    t = ms.make_text("rot", nbytes, random.Random(ngrams))
    rotated = {vid_d: key_new}
    # signer rotated K1 -> K2; receiver knows K2
    run("rotation-current-key", rotated, "<current>" + t, vid_d, key_new, True, "rotation_current_key_delivered")
    run("rotation-old-key", rotated, "<retired>" + t, vid_d, key_old, False, "rotation_old_key_rejected")
    # receiver has no entry for the transferable vid: nothing can verify for it, whatever key signed
    others = ms.keep_of([0, 1, 2])
    run("unknown-transferable-vid", others, "<unknown-D>" + t, vid_d, key_old, False, "unknown_transferable_vid_rejected")
    run("unknown-transferable-vid other key", {}, "<unknown-D2>" + t, vid_d, key_new, False,
        "unknown_transferable_vid_rejected")
    # never rotated: keep key == key in the vid (what the tree's own tests use)
    run("rotation-same-key", {vid_d: key_old}, "<same>" + t, vid_d, key_old, True, "rotation_current_key_delivered")
    # digest vids: in keep -> delivered, missing -> dropped
    run("digest-vid-known", {vid_e: key_e}, "<E>" + t, vid_e, key_e, True)
    run("unknown-digest-vid", {}, "<unknown-E>" + t, vid_e, key_e, False, "unknown_digest_vid_rejected")
    # one memo id, zeroth gram signed with the current key, a later gram with the retired key, then the real one
    if ngrams >= 2:
        ncode = Memoer.Pairs[code]
        for first_bad in (True, False):
            ms.reset_mids("mixed")
            mid = Memoer.makeMID()
            z = craft(NEWKEY, code, curt, 2, mid, b"<mixed>", claim_vid=vid_d)
            good = craft(NEWKEY, ncode, curt, 1, mid, b"genuine-tail")
            bad = craft(OLDKEY, ncode, curt, 1, mid, b"FORGED-tail")
            sc = Scenario(ctx, authic, {("<mixed>genuine-tail", vid_d)},
                          f"rotation-mixed-keys retired-key gram inside a current-key memo (code={code} curt={curt})",
                          keep=rotated)
            try:
                ctx.count("faults_injected")
                for g in ([z, bad, good] if first_bad else [bad, z, bad, good]):
                    if not sc.feed(g, "fault", "peer"):
                        break
                else:
                    if authic and [(t_, v) for t_, _s, v in sc.rx.inbox] == [("<mixed>genuine-tail", vid_d)]:
                        ctx.count("rotation_old_key_rejected")
            finally:
                sc.close()
    ctx.nontrivial(["rotation", code, curt, authic, ngrams])
    ctx.sample({"kind": "rotation", "code": code, "curt": curt, "authic": authic, "grams": ngrams,
                "vid": vid_d, "keep_key": key_new.qvk, "vid_embedded_key": key_old.qvk})


def run_foreign(ctx, cfg, authic, authentic, text, vid, grams, gcodes):
    """The attacker has its own key pair."""
    code, curt = cfg["code"], cfg["curt"]
    avid = ms.signer(ATTACKER)[0]
    zc = code if code in ms.AUTH_ZERO else "bAAC"
    nc = Memoer.Pairs[zc]
    # (a) attacker signs its own memo under its own (non-transferable, self-certifying) vid: authentic for that vid
    mid = Memoer.makeMID()
    a0 = craft(ATTACKER, zc, curt, 2, mid, b"<attacker-")
    a1 = craft(ATTACKER, nc, curt, 1, mid, b"memo>")
    sc = Scenario(ctx, authic, authentic | {("<attacker-memo>", avid)}, "foreign own-vid memo")
    try:
        ctx.count("faults_injected")
        sc.feed(a0, "fault") and sc.feed(a1, "fault")
        if authic and [(t, v) for t, _s, v in sc.rx.inbox] == [("<attacker-memo>", avid)]:
            ctx.count("foreign_own_vid_delivered_as_such")
    finally:
        sc.close()
    # (b) attacker signs with its key but claims a genuine signer's vid (D, B and E kinds)
    for claim in (1, 0, 2):
        cvid = ms.signer(claim)[0]
        mid = Memoer.makeMID()
        f0 = craft(ATTACKER, zc, curt, 2, mid, b"<forged-", claim_vid=cvid)
        f1 = craft(ATTACKER, nc, curt, 1, mid, b"memo>")
        for order in (0, 1):
            sc = Scenario(ctx, authic, authentic, f"foreign key claiming vid kind {cvid[0]} (code={zc} curt={curt})")
            try:
                ctx.count("faults_injected")
                for g in ((f0, f1) if order == 0 else (f1, f0)):
                    if not sc.feed(g, "fault"):
                        break
            finally:
                sc.close()
    # (c) attacker's non-zeroth gram (validly signed by the attacker) injected into a genuine memo
    if cfg["signer"] is not None:
        labels = ms.field_map(gcodes[1], curt, len(grams[1]))
        midb = bytes(b for b, l in zip(grams[1], labels) if l == "mid")
        from base64 import urlsafe_b64encode as enc
        gmid = (enc(midb) if curt else midb).decode()
        inj = craft(ATTACKER, gcodes[1], curt, 1, gmid, b"INJECTED")
        for variant in (0, 1):
            run_mixed(ctx, authic, authentic, grams, 1, inj,
                      f"foreign attacker-signed gram 1 injected into the genuine memo (code={code} curt={curt})", variant)
    # (d) ack codes: unsigned ack and an ack properly signed by the attacker's own key
    mid = Memoer.makeMID()
    for ack, who in (("bAAI", None), ("bAAJ", ATTACKER)):
        for body in (b"", b"x"):
            g = craft(who, ack, curt, 0, mid, body)
            sc = Scenario(ctx, authic, authentic, f"ack code {ack} {'signed by its sender' if who else 'unsigned'} "
                                                  f"(curt={curt})")
            try:
                ctx.count("faults_injected")
                sc.feed(g, "fault")
            finally:
                sc.close()


def run_random(case, ctx):
    sc = Scenario(ctx, case["authic"], set(), "random datagram", case["api"])
    try:
        for d in case["datagrams"]:
            ctx.count("faults_injected")
            data = d.encode("latin-1")
            if not data:
                continue
            if not sc.feed(data, "fault"):
                break
        if sc.ok:
            ctx.count("random_batches_survived")
    finally:
        sc.close()
    ctx.nontrivial(["random", case["datagrams"][:3]])
    ctx.sample({"kind": "random", "authic": case["authic"], "n": len(case["datagrams"]),
                "picklog": [o for _t, o, _n in sc.rx.picklog][:12]})


LEVEL_TEXT = ("Every single-byte substitution site and every truncation length of real signed and unsigned grams is "
              "enumerated (with class-representative values in quick, all values for header/signature bytes in thorough) "
              "together with field fills, unknown/ack codes, out-of-range gram numbers and counts, foreign-key "
              "signatures and random datagrams; each is fed to the real receive path alone and mixed with the valid "
              "grams. Held on the faults enumerated; multi-byte coordinated forgeries beyond these classes are not covered.")
LEVEL_NOTE = "trusted: libsodium/pysodium signatures, the harness transport, the deterministic memo-id source"
