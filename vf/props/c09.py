"""C09 - TCP/TLS byte streams are delivered exactly, in order, under partial I/O.

Monitor shape: invariant at a hook + ground truth held by a harness-owned peer.

The real `tcp.Client` / `tcp.ClientTls` talk to a raw (plain or `ssl`) socket owned by the harness, and a raw
harness socket talks to the real `tcp.Server` / `tcp.ServerTls` (-> `Remoter` / `RemoterTls`).  The hio side's
socket runs under `vf.mon.sockshim`: every send()/recv()/do_handshake() of that one socket follows a per-case
script (pass | truncate to k bytes | would-block | SSLWantRead/Write | short read of k bytes) and every byte that
the real call accepted / returned is recorded.  In "pressure" cases the kernel itself makes the partial sends
(tiny SO_SNDBUF/SO_RCVBUF, a peer that reads slowly, payloads up to 1 MiB).  In "pair" cases both ends are hio
objects, each under its own script.  In "late" cases the client is opened and tx() is called before its server listens
(refused connects and the reconnect tymer replace the client's socket while bytes are queued), then the listener comes up.
In "duplex" cases both directions carry 256 KiB..1 MiB at once through 8-16 kB socket buffers and the far side does not read
while it still has something to write; the hio end must keep reading although its own transmit backlog is stuck.
The attached WireLog takes every (rxed, txed, samed) combination, memory or file backed, also reached via reopen().

With T = concatenation of the payloads handed to tx() so far, after EVERY service call of the monitored end:
  conservation   T == bytes accepted by the real send() calls + bytes(txbs)          (nothing lost / duplicated / reordered)
  receive        rxbs == bytes returned by the real recv() calls, and a prefix of what the far side has written so far
after every read of the far side:
  prefix         far-side received bytes are a prefix of T
when the schedule is over: keep servicing; the run ends when everything is delivered or when NOTHING (no byte, no
scripted action) moved for STALL consecutive rounds although the connection is healthy -> `undelivered`.
  wire log       in-memory WireLog(fmt=b'%(data)b'): tx log == accepted bytes, rx log == bytes returned by recv
Nothing is decided on the clock: `wait_any` is only a yield that lets loopback deliver; verdicts count rounds.
"""
import random

from hio.base import tyming
from hio.core import tcp, wiring

from vf.mon import sockshim as sh
from vf.mon import tcpkit as tk

ID = "C09"
LEVEL = "exploration"
RULE = ("A case = role (Client | ClientTls | Remoter | RemoterTls, or a Client<->Remoter pair, plain or TLS) x a schedule of "
        "tx(payload) / far-side write / service / far-side read steps (payloads: empty, 1..16 B, <= 2 kB, <= 40 kB, "
        "256 KiB..1 MiB in pressure cases; 'late' histories start with tx/service/tymist-tick steps against a port nobody listens on) x per-socket scripts for send (pass, truncate to k in [0,n], EAGAIN/EWOULDBLOCK "
        "or SSLWantRead/Write), recv (pass, short read, would-block while data is pending) and do_handshake (SSLWant*). "
        "Non-trivial = the monitored socket saw at least one partial send AND at least one would-block on send or recv "
        "(injected or kernel-made); distinct = by role + the sequence of injected actions that took effect + shim statistics.")
ASSUMPTIONS = [
    "loopback TCP is reliable and ordered: bytes a kernel send() accepted reach the peer unless the connection is torn down",
    "the far side of a raw-peer case is plain socket / ssl code of the Python stdlib, not hio",
    "would-block on a TLS socket is SSLWantRead/WriteError (what OpenSSL reports), on a plain socket BlockingIOError",
    "no connection-level fault is injected here (that is C10); the connection stays healthy for the whole case",
]
TECHNIQUE = ("invariant-at-hook (conservation / receive equality after every service call, recorded at the socket shim) "
             "+ differential against a harness-owned raw peer")
LEVEL_TEXT = ("Every service call of every generated schedule is judged by byte-exact conservation and receive invariants taken at "
              "the socket boundary, the far side's stream is compared with the transmitted one, and progress is judged in service "
              "rounds.  Held on the schedules and acceptance patterns generated (seeded), not a proof over all of them.")
LEVEL_NOTE = ("trusted: the shim's recording of what the real send/recv accepted/returned (40 lines), the Linux loopback stack, "
              "OpenSSL record layer, stdlib ssl on the far side")
NSHARDS = {"quick": 12, "thorough": 16}
TIMEOUT_S = {"quick": 240, "thorough": 1500}
BUDGET_S = {"quick": 60, "thorough": 480}   # soft stop; REQUIRE below is what makes a short run inconclusive
REQUIRE = {
    "quick": {"conservation_checks": 3000, "partial_sends": 300, "send_blocks": 150, "short_reads": 150,
              "recv_blocks_injected": 100, "real_partial_sends": 5, "wirelog_checks": 200, "tls_cases": 40,
              "pair_cases": 10, "completed_cases": 300, "late_cases_completed": 20, "late_reopens_before_listen": 40,
              "late_cases_reconnectable": 5, "duplex_cases_completed": 20, "duplex_rounds_far_side_writing_not_reading": 200,
              "wirelog_configurations": 8, "wirelog_checks_samed_one_direction": 60, "wirelog_checks_file_backed": 8},
    "thorough": {"conservation_checks": 50000, "partial_sends": 5000, "send_blocks": 2500, "short_reads": 2500,
                 "recv_blocks_injected": 1500, "real_partial_sends": 100, "wirelog_checks": 2500, "tls_cases": 1000,
                 "pair_cases": 250, "completed_cases": 5000, "late_cases_completed": 400, "late_reopens_before_listen": 800,
                 "late_cases_reconnectable": 100, "duplex_cases_completed": 200,
                 "duplex_rounds_far_side_writing_not_reading": 2000, "wirelog_configurations": 10,
                 "wirelog_checks_samed_one_direction": 600, "wirelog_checks_file_backed": 80},
}
PEAK_COUNTERS = ("peak_finish_rounds", "peak_payload_bytes")

ROLES = ["Client", "ClientTls", "Remoter", "RemoterTls"]
STALL = 60          # consecutive rounds in which nothing at all moved => the connection is not making progress
CONNECT_ROUNDS = 400
NCASES = {"quick": 1000, "thorough": 16000}


# --------------------------------------------------------------------------
# case generation
# --------------------------------------------------------------------------
def _payload(rng, cap=40000):
    r = rng.random()
    if r < 0.08:
        return ["lit", ""]
    if r < 0.40:
        n = rng.randint(1, 16)
    elif r < 0.82:
        n = rng.randint(17, 2000)
    else:
        n = rng.randint(2001, cap)
    return ["rnd", rng.getrandbits(32), n]


def _send_script(rng, tls, n):
    out = []
    for _ in range(n):
        r = rng.random()
        if r < 0.25:
            out.append(["pass"])
        elif r < 0.70:
            k = rng.choice([0, 0, 1, 1, 2, 3, 5, 8, 64, 500, 1500, 8000]) if rng.random() < 0.7 else rng.randint(0, 5000)
            out.append(["trunc", k])
        elif tls:
            out.append(["want", rng.choice(["read", "write"])])
        else:
            out.append(["block", rng.choice(["EAGAIN", "EWOULDBLOCK"])])
    return out


def _recv_script(rng, tls, n):
    out = []
    for _ in range(n):
        r = rng.random()
        if r < 0.25:
            out.append(["pass"])
        elif r < 0.70:
            out.append(["short", rng.choice([1, 1, 2, 3, 7, 100, 1000])])
        elif tls:
            out.append(["want", rng.choice(["read", "write"])])
        else:
            out.append(["block", rng.choice(["EAGAIN", "EWOULDBLOCK"])])
    return out


def _hs_script(rng, tls):
    if not tls or rng.random() < 0.4:
        return []
    return {str(i): ["want", rng.choice(["read", "write"])] for i in rng.sample(range(6), rng.randint(1, 3))}


def _scripts(rng, tls, heavy=True):
    hi = 30 if heavy else 6
    return {"send": _send_script(rng, tls, rng.randint(0, hi)),
            "recv": _recv_script(rng, tls, rng.randint(0, hi)),
            "hs": _hs_script(rng, tls)}


def _ops(rng, nops, cap=40000):
    ops = []
    for _ in range(nops):
        r = rng.random()
        if r < 0.28:
            ops.append(["tx", _payload(rng, cap)])
        elif r < 0.46:
            ops.append(["pw", _payload(rng, cap)])
        elif r < 0.84:
            ops.append(["svc"])
        else:
            ops.append(["pr", rng.choice([None, None, 1, 10, 1000, 20000])])
    return ops


def gen_case(rng, tier, flavor, role):
    tls = role.endswith("Tls")
    case = {"flavor": flavor, "role": role, "bs": rng.choice([16, 1024, 8096, 8096, 16192]), "wl": gen_wl(rng)}
    if flavor == "pair":
        case["wl_far"] = gen_wl(rng)
    if flavor == "duplex":
        # Both directions large at once and the far side does not read while it still has something to write
        # (sendall-then-recv): the hio end holds a transmit backlog the peer is not draining and must keep READING,
        # otherwise every kernel buffer fills and the healthy, continuously serviced connection stops for good.
        big = rng.choice([1 << 19, 3 << 18, 1 << 20]) if tier == "thorough" else rng.choice([1 << 18, 3 << 17, 1 << 19])
        case["bs"] = rng.choice([1024, 8096, 16192])
        for k in ("sndbuf", "rcvbuf", "peer_rcvbuf", "peer_sndbuf"):
            case[k] = rng.choice([8192, 16384])
        ops = [["tx", ["rnd", rng.getrandbits(32), big]], ["pw", ["rnd", rng.getrandbits(32), big + rng.randint(-5000, 5000)]]]
        for _ in range(rng.randint(2, 8)):
            ops.append(["svc"] if rng.random() < 0.6 else ["pr", None])
            if rng.random() < 0.2:
                ops.append(["tx", _payload(rng, 3000)])
        case["ops"] = ops
        case["near"] = _scripts(rng, tls, heavy=False)
        return case
    if flavor == "script":
        case["ops"] = _ops(rng, rng.randint(4, 36))
        case["near"] = _scripts(rng, tls)
    elif flavor == "pair":
        case["ops"] = _ops(rng, rng.randint(4, 30), cap=20000)
        case["near"] = _scripts(rng, tls)
        case["far"] = _scripts(rng, tls)
    else:  # pressure: the kernel makes the partial sends
        big = rng.choice([1 << 20, 1 << 20, 600000]) if tier == "thorough" else rng.choice([1 << 18, 1 << 18, 1 << 20])
        case["bs"] = rng.choice([1024, 8096])
        case["sndbuf"] = rng.choice([4096, 16384])       # (the kernel doubles these; below ~4 kB Linux' silly-window
        case["peer_rcvbuf"] = rng.choice([4096, 16384])  #  avoidance leaves progress to the persist timer: seconds per kB)
        ops = [["tx", ["rnd", rng.getrandbits(32), big]]]
        if rng.random() < 0.5:
            ops.append(["pw", ["rnd", rng.getrandbits(32), rng.choice([1 << 16, 1 << 18])]])
        for _ in range(rng.randint(6, 24)):
            ops.append(["svc"])
            if rng.random() < 0.6:
                ops.append(["pr", rng.choice([512, 4096, 30000])])
            if rng.random() < 0.15:
                ops.append(["tx", _payload(rng, 3000)])
        case["ops"] = ops
        case["near"] = _scripts(rng, tls, heavy=False)
    return case


def gen_late(rng, tier):
    """Client opened and written to BEFORE its server listens: refused connects (accept() reopens the socket), the
    reconnect tymer (hand-ticked Tymist) reopening it too, tx() in between; then the listener comes up."""
    role = rng.choice(["Client", "Client", "ClientTls"])
    case = gen_case(rng, tier, "script", role)
    case["flavor"] = "late"
    pre = [["tx", _payload(rng, 3000)]]
    for _ in range(rng.randint(2, 10)):
        r = rng.random()
        pre.append(["tx", _payload(rng, 3000)] if r < 0.3 else ["tick"] if r < 0.5 else ["svc"])
    pre.append(["svc"])
    case["late"] = {"pre": pre, "reconnectable": rng.random() < 0.5, "tymeout": rng.choice([0.125, 0.25, 0.5])}
    return case


def cases(tier, seed, shard, nshards):
    rng = random.Random(f"{seed}:C09:{shard}")
    n = NCASES[tier] // nshards
    for i in range(n):
        r = rng.random()
        role = ROLES[(i + shard) % 4] if rng.random() < 0.75 else rng.choice(ROLES)
        if i == 0 or r < 0.03:
            yield gen_case(rng, tier, "pressure", role)
        elif i == 2 or r < 0.06:
            yield gen_case(rng, tier, "duplex", role)
        elif i == 1 or r < 0.11:
            yield gen_late(rng, tier)
        elif r < 0.21:
            yield gen_case(rng, tier, "pair", rng.choice(["Client", "ClientTls"]))
        else:
            yield gen_case(rng, tier, "script", role)


# --------------------------------------------------------------------------
# harness pieces
# --------------------------------------------------------------------------
class Abort(Exception):
    """A violation was already reported; stop judging this case."""


def materialize(p):
    if p[0] == "lit":
        return p[1].encode("latin-1")
    return random.Random(p[1]).randbytes(p[2])


def mk_script(spec, label):
    return sh.Script(send=spec.get("send"), recv=spec.get("recv"), handshake=spec.get("hs"), label=label, nodelay=True)


WL_DEFAULT = {"rxed": True, "txed": True, "samed": False, "filed": False, "via_reopen": False}


def gen_wl(rng):
    """Every (rxed, txed, samed) combination with at least one direction on, memory or (sometimes) file backed; a samed
    log may also get there by reopen(rxed=False) / reopen(txed=False) on a log that started with both directions."""
    if rng.random() < 0.45:
        return dict(WL_DEFAULT)
    rxed, txed = rng.choice([(True, True), (True, False), (False, True)])
    return {"rxed": rxed, "txed": txed, "samed": rng.random() < 0.6, "filed": rng.random() < 0.06,
            "via_reopen": not (rxed and txed) and rng.random() < 0.5}


def mk_wl(spec=None):
    spec = spec or WL_DEFAULT
    kw = dict(samed=spec["samed"], filed=spec["filed"], fmt=b'%(data)b', name="vfc09", temp=True if spec["filed"] else False)
    if spec["via_reopen"]:
        wl = wiring.WireLog(rxed=True, txed=True, reopen=True, **kw)
        wl.reopen(rxed=spec["rxed"], txed=spec["txed"])
    else:
        wl = wiring.WireLog(rxed=spec["rxed"], txed=spec["txed"], reopen=True, **kw)
    return WlHandle(wl)


class WlHandle:
    """Closes the log AND removes a file backed log's temp directory even when WireLog.close() raises
    (WireLog.flush() dereferences .rxl, which is None on a file backed log with rxed=False - not C09's subject)."""

    def __init__(self, wl):
        self.wl = wl

    def close(self):
        import os
        import shutil
        wl = self.wl
        path = wl.dirPath if wl.filed else None
        try:
            wl.close(clear=bool(wl.filed))
        except Exception:
            for f in (wl.rxl, wl.txl):
                try:
                    if f is not None and not f.closed:
                        f.close()
                except Exception:
                    pass
        if path and os.path.isdir(path) and os.path.basename(path).startswith("test_"):
            shutil.rmtree(path, ignore_errors=True)


class Stream:
    """Incremental 'got is a prefix of want' for two append-only byte strings."""

    def __init__(self):
        self.ok = 0

    def check(self, got, want):
        n = len(got)
        if n < self.ok or n > len(want):
            return False
        if got[self.ok:n] != want[self.ok:n]:
            return False
        self.ok = n
        return True


def first_diff(a, b):
    n = min(len(a), len(b))
    if a[:n] == b[:n]:
        return n
    lo, hi = 0, n
    while lo < hi:  # first differing offset by bisection on prefixes
        mid = (lo + hi) // 2
        if a[:mid + 1] == b[:mid + 1]:
            lo = mid + 1
        else:
            hi = mid
    return lo


class RawFar:
    """Far side = harness-owned raw socket."""

    def __init__(self, peer, write_first=False):
        self.peer = peer
        self.write_first = write_first   # sendall-then-recv: does not read as long as it has something left to write
        self.rounds_not_reading = 0

    def write(self, data):
        self.peer.write(data)

    def pump(self, limit=None):
        self.peer.flush()
        if self.write_first and self.peer.out:
            self.rounds_not_reading += 1
            return
        self.peer.drain(limit)

    def received(self):
        return self.peer.inb

    def written(self):
        # NOT peer.accepted: a TLS write that is still in WANT_WRITE has already put whole records on the wire,
        # so the hio side may legitimately hold bytes the far side's send() has not "returned" yet.
        return self.peer.written

    def pending(self):
        return len(self.peer.out)

    def socks(self):
        return [self.peer.sock]

    def healthy(self):
        return self.peer.error is None and not self.peer.eof


class HioFar:
    """Far side = another hio endpoint under its own script and monitor (pair cases)."""

    def __init__(self, mon):
        self.mon = mon

    def write(self, data):
        self.mon.tx(data)

    def pump(self, limit=None):
        self.mon.service()

    def received(self):
        return self.mon.end.rxbs

    def written(self):
        return self.mon.T

    def pending(self):
        return len(self.mon.end.txbs)

    def socks(self):
        return [self.mon.end.cs]

    def healthy(self):
        return not self.mon.end.cutoff


class Mon:
    """Monitor of one hio endpoint (`end` has tx/txbs/rxbs; `service` services it)."""

    def __init__(self, ctx, role, end, service, script, wl):
        self.ctx = ctx
        self.role = role
        self.end = end
        self._service = service
        self.script = script
        self.wl = wl
        self.far = None
        self.T = bytearray()
        self.s_sent = Stream()
        self.s_far = Stream()
        self.s_rx = Stream()
        self.s_rxw = Stream()
        self.calls = 0

    def trace(self):
        return [list(x) for x in self.script.log[-60:]]

    def tx(self, data):
        self.end.tx(data)
        self.T += data
        self.ctx.peak("peak_payload_bytes", len(data))

    def service(self):
        guarded(self.ctx, self.role, self._service, self)
        self.calls += 1
        self.after_service()

    def after_service(self):
        ctx, role = self.ctx, self.role
        sent, txbs, T = self.script.sent, self.end.txbs, self.T
        ctx.count("conservation_checks")
        if not (len(sent) + len(txbs) == len(T) and self.s_sent.check(sent, T) and txbs == T[len(sent):]):
            both = bytes(sent) + bytes(txbs)
            off = first_diff(both, T)
            ctx.violation("conservation:" + role,
                          f"after service call #{self.calls}: transmitted so far T={len(T)} B, accepted by the socket={len(sent)} B, "
                          f"left in txbs={len(txbs)} B; accepted+txbs differs from T at offset {off} "
                          f"(have {both[off:off + 16]!r}, T has {bytes(T[off:off + 16])!r})", trace=self.trace())
            raise Abort()
        rxbs, recvd = self.end.rxbs, self.script.recvd
        ctx.count("receive_checks")
        if len(rxbs) != len(recvd) or not self.s_rx.check(rxbs, recvd):
            off = first_diff(rxbs, recvd)
            ctx.violation("rxbs-differs-from-recv:" + role,
                          f"after service call #{self.calls}: rxbs has {len(rxbs)} B, the real recv() calls returned {len(recvd)} B; "
                          f"first difference at offset {off} (rxbs {bytes(rxbs[off:off + 16])!r}, recv {bytes(recvd[off:off + 16])!r})",
                          trace=self.trace())
            raise Abort()
        if self.far is not None and not self.s_rxw.check(rxbs, self.far.written()):
            ctx.violation("rx-not-prefix:" + role,
                          f"rxbs ({len(rxbs)} B) is not a prefix of what the far side wrote ({len(self.far.written())} B)",
                          trace=self.trace())
            raise Abort()

    def after_far_read(self):
        got = self.far.received()
        self.ctx.count("peer_prefix_checks")
        if not self.s_far.check(got, self.T):
            off = first_diff(got, self.T)
            self.ctx.violation("peer-not-prefix:" + self.role,
                               f"far side has received {len(got)} B which is not a prefix of the {len(self.T)} B transmitted: "
                               f"first difference at offset {off} (got {bytes(got[off:off + 16])!r}, "
                               f"sent {bytes(self.T[off:off + 16])!r})", trace=self.trace())
            raise Abort()

    def progress(self):
        sc = self.script
        return (len(sc.sent), len(self.end.txbs), len(self.end.rxbs), len(sc.fired), sc.calls["handshake"])

    def stuck(self, before):
        """'tx' / 'rx' when this endpoint has outstanding bytes but made no send / recv call since `before`."""
        calls = self.script.calls
        if self.end.txbs and calls["send"] == before["send"]:
            return "tx"
        if len(self.end.rxbs) < len(self.far.written()) and calls["recv"] == before["recv"]:
            return "rx"   # the far side has written more than we hold and we have stopped reading
        return None

    def tx_done(self):
        return not self.end.txbs and len(self.far.received()) == len(self.T)

    def final_wirelog(self):
        """Whenever a direction is switched on, its log equals the bytes that really crossed the socket in that direction
        (a shared `samed` log with both directions on holds both, chunk by chunk in call order).  A direction that is
        switched off is not judged."""
        ctx = self.ctx
        wl = self.wl
        if wl is None:
            return
        ctx.count("wirelog_checks")
        conf = f"rxed={wl.rxed} txed={wl.txed} samed={wl.samed} filed={wl.filed}"
        ctx.seen("wirelog_configurations", [wl.rxed, wl.txed, wl.samed, wl.filed])
        if not (wl.rxed and wl.txed and not wl.samed and not wl.filed):
            ctx.count("wirelog_checks_nondefault_config")
        if wl.samed and not (wl.rxed and wl.txed):
            ctx.count("wirelog_checks_samed_one_direction")
        if wl.filed:
            ctx.count("wirelog_checks_file_backed")
        both = wl.samed and wl.rxed and wl.txed
        sc = self.script
        if wl.txed:
            tx = wl.readTx()
            want = sc.wire if both else sc.sent
            if tx != bytes(want):
                off = first_diff(tx or b"", want)
                ctx.violation("wirelog-tx:" + self.role,
                              f"tx wire log ({conf}) {'is None' if tx is None else 'has %d B' % len(tx)}, the socket accepted "
                              f"{len(sc.sent)} B{' (+ %d B received into the shared log)' % len(sc.recvd) if both else ''}; "
                              f"first difference at offset {off}", trace=self.trace())
        if wl.rxed:
            rx = wl.readRx()
            want = sc.wire if both else sc.recvd
            if rx != bytes(want):
                off = first_diff(rx or b"", want)
                ctx.violation("wirelog-rx:" + self.role,
                              f"rx wire log ({conf}) {'is None' if rx is None else 'has %d B' % len(rx)}, recv() returned "
                              f"{len(sc.recvd)} B{' (+ %d B sent into the shared log)' % len(sc.sent) if both else ''}; "
                              f"first difference at offset {off}", trace=self.trace())


def guarded(ctx, role, fn, mon=None):
    """hio servicing of a healthy connection must not raise; an exception here is the code's, not the harness's."""
    try:
        ctx.count("service_calls")
        return fn()
    except Exception as ex:
        frames = tk.hio_frames(ex.__traceback__)
        where = frames[-1][0] if frames else "?"
        ctx.violation(f"escape:{role}:{type(ex).__name__}:{where}",
                      f"{type(ex).__name__}: {ex} left servicing of a healthy connection; hio frames {frames[-4:]}",
                      trace=mon.trace() if mon else None)
        raise Abort()


_state = {"ports": None}


def setup(ctx):
    sh.install()
    _state["ports"] = tk.Ports(ctx.shard, 0)


def teardown(ctx):
    sh.uninstall()


# --------------------------------------------------------------------------
# building the connection for each role
# --------------------------------------------------------------------------
def _tune(sock, case):
    import socket as _s
    if case.get("sndbuf") and sock is not None:
        sock.setsockopt(_s.SOL_SOCKET, _s.SO_SNDBUF, case["sndbuf"])
    if case.get("rcvbuf") and sock is not None:
        sock.setsockopt(_s.SOL_SOCKET, _s.SO_RCVBUF, case["rcvbuf"])


def connect_client_raw(case, ctx, cl):
    role = case["role"]
    tls = role.endswith("Tls")
    late = case.get("late")
    wl = cl.add(mk_wl(case.get("wl"))).wl
    tymist = tyming.Tymist(tock=0.125)
    if late:
        port = tk.quiet_port(_state["ports"])   # nobody listens there yet: connects are refused
        ls = None
        kw = {"reconnectable": late["reconnectable"], "tymeout": late["tymeout"]}
    else:
        ls = cl.add(tk.harness_listener(rcvbuf=case.get("peer_rcvbuf")))
        port = ls.getsockname()[1]
        kw = {}
    client = cl.add(tk.open_client(tcp, port, tls=tls, wl=wl, bs=case["bs"], tymth=tymist.tymen(), **kw))
    script = sh.register(client.cs, mk_script(case["near"], role))
    _tune(client.cs, case)
    mon = Mon(ctx, role, client, client.service, script, wl)
    reopens = 0

    def follow():
        """A refused connect / expired reconnect tymer makes the client replace its socket: same script, same record."""
        nonlocal reopens
        if client.cs is not None and sh.script_of(client.cs) is not script:
            sh.register(client.cs, script)
            reopens += 1

    if late:
        for op in late["pre"]:
            if op[0] == "tx":
                mon.tx(materialize(op[1]))
            elif op[0] == "tick":
                tymist.tick()
            else:
                mon.service()     # conservation is judged here too: nothing sent yet, so txbs must still be all of T
                follow()
        if client.connected or client.accepted:
            raise RuntimeError("harness: the quiet port accepted a connection")
        ctx.count("late_cases")
        ctx.count("late_reopens_before_listen", reopens)
        ctx.count("late_bytes_queued_before_listen", len(mon.T))
        if late["reconnectable"]:
            ctx.count("late_cases_reconnectable")
        ls = cl.add(tk.harness_listener(rcvbuf=case.get("peer_rcvbuf"), port=port))
    peer = None
    for _ in range(CONNECT_ROUNDS):
        if late:
            mon.service()   # tyme stands still now: a reconnect tymeout shorter than a connect would never connect
            follow()
        else:
            guarded(ctx, role, client.service, mon)
        if peer is None:
            try:
                s = tk.accept_from(ls, client.cs)
                if s is not None:
                    peer = cl.add(tk.RawPeer(s, tk.peer_server_ctx() if tls else None, server_side=True))
            except BlockingIOError:
                pass
        else:
            peer.step_handshake()
        if client.connected and peer is not None and peer.ready:
            break
        tk.wait_any([ls] if peer is None else [peer.sock, client.cs], 2)
    else:
        raise RuntimeError(f"harness: {role} did not connect in {CONNECT_ROUNDS} rounds (peer error {peer and peer.error!r})")
    if sh.script_of(client.cs) is not script:
        raise RuntimeError("harness: client socket was replaced while connecting")
    mon.far = RawFar(peer, write_first=case["flavor"] == "duplex")
    return [mon]


def connect_remoter_raw(case, ctx, cl):
    role = case["role"]
    tls = role.endswith("Tls")
    wl = cl.add(mk_wl(case.get("wl"))).wl
    server = cl.add(tk.open_server(tcp, _state["ports"], tls=tls, wl=wl, bs=case["bs"], tymth=tyming.Tymist().tymen()))
    _tune(server.ss, case)  # accepted sockets inherit the listener's buffer sizes
    script = mk_script(case["near"], role)
    mine = []   # only OUR peer's accepted socket gets the script (other agents share this loopback)
    sh.expect_accept(server.ss, lambda addr: script if mine and addr == mine[0] else None)
    peer = cl.add(tk.connect_peer(server.ha[1], tls=tls, rcvbuf=case.get("peer_rcvbuf"), sndbuf=case.get("peer_sndbuf")))
    mine.append(peer.addr)   # hio accepts only inside the service calls below
    for _ in range(CONNECT_ROUNDS):
        guarded(ctx, role, server.service)
        peer.step_handshake()
        if peer.addr in server.ixes and peer.ready:
            break
        tk.wait_any([peer.sock], 2)
    else:
        raise RuntimeError(f"harness: {role} was not accepted in {CONNECT_ROUNDS} rounds (peer error {peer.error!r})")
    end = server.ixes[peer.addr]
    mon = Mon(ctx, role, end, server.service, script, wl)
    mon.far = RawFar(peer, write_first=case["flavor"] == "duplex")
    return [mon]


def connect_pair(case, ctx, cl):
    """hio Client(Tls) <-> hio Server(Tls)/Remoter(Tls), each side under its own script and monitor."""
    crole = case["role"]
    tls = crole.endswith("Tls")
    rrole = "RemoterTls" if tls else "Remoter"
    wls, wlc = cl.add(mk_wl(case.get("wl_far"))).wl, cl.add(mk_wl(case.get("wl"))).wl
    server = cl.add(tk.open_server(tcp, _state["ports"], tls=tls, wl=wls, bs=case["bs"], tymth=tyming.Tymist().tymen()))
    rscript = mk_script(case["far"], rrole)
    sh.expect_accept(server.ss, lambda addr: rscript if client.cs is not None and addr == client.cs.getsockname() else None)
    client = cl.add(tk.open_client(tcp, server.ha[1], tls=tls, wl=wlc, bs=case["bs"], tymth=tyming.Tymist().tymen()))
    cscript = sh.register(client.cs, mk_script(case["near"], crole))
    cmon = Mon(ctx, crole, client, client.service, cscript, wlc)
    for _ in range(CONNECT_ROUNDS):
        guarded(ctx, crole, client.service, cmon)
        guarded(ctx, rrole, server.service)
        if client.connected and client.ca in server.ixes:
            break
        tk.wait_any([client.cs], 2)
    else:
        raise RuntimeError(f"harness: pair {crole} did not connect in {CONNECT_ROUNDS} rounds")
    if sh.script_of(client.cs) is not cscript:
        raise RuntimeError("harness: client socket was replaced while connecting")
    rmon = Mon(ctx, rrole, server.ixes[client.ca], server.service, rscript, wls)
    cmon.far = HioFar(rmon)
    rmon.far = HioFar(cmon)
    return [cmon, rmon]


# --------------------------------------------------------------------------
# one case
# --------------------------------------------------------------------------
def run_case(case, ctx):
    cl = tk.Closer()
    try:
        try:
            _run(case, ctx, cl)
        except Abort:
            ctx.count("aborted_after_violation")
    finally:
        cl.close_all()
        sh.reset()


def _run(case, ctx, cl):
    flavor, role = case["flavor"], case["role"]
    if flavor == "pair":
        mons = connect_pair(case, ctx, cl)
    elif role.startswith("Client"):
        mons = connect_client_raw(case, ctx, cl)
    else:
        mons = connect_remoter_raw(case, ctx, cl)
    near = mons[0]
    far = near.far
    pair = len(mons) == 2

    def far_pump(limit=None):
        far.pump(limit)
        near.after_far_read()
        if pair:
            pass  # mons[1].service() already judged its own invariants inside pump()

    for op in case["ops"]:
        kind = op[0]
        if kind == "tx":
            near.tx(materialize(op[1]))
        elif kind == "pw":
            far.write(materialize(op[1]))
        elif kind == "svc":
            near.service()
            if pair:
                mons[1].after_far_read()
        else:
            far_pump(op[1])

    # keep servicing: everything must arrive
    total = len(near.T) + len(far.written())
    maxr = 2000 + total // 32
    stall = 0
    rounds = 0
    done = False
    last = None
    snap = None
    for rounds in range(1, maxr + 1):
        near.service()
        if pair:
            mons[1].after_far_read()
        far_pump()
        done = near.tx_done() and not far.pending() and len(near.end.rxbs) == len(far.written())
        if done:
            break
        sig = (near.progress(), len(far.received()), far.pending(), mons[1].progress() if pair else None)
        if sig != last:
            stall = 0
            last = sig
            continue
        stall += 1
        if stall == 1:
            snap = [dict(m.script.calls) for m in mons]
        if stall >= STALL:
            # Nothing moved for STALL rounds.  It is the code's doing only if an endpoint with outstanding bytes has
            # stopped calling send()/recv() on its healthy socket; a kernel that is slow to move bytes is not.
            for m, before in zip(mons, snap):
                why = m.stuck(before)
                if why:
                    end = m.end
                    ctx.violation(f"undelivered:{m.role}:{why}",
                                  f"{m.role} made no {'send' if why == 'tx' else 'recv'} call in {STALL} consecutive service rounds "
                                  f"although the connection is healthy and bytes are outstanding: txbs={len(end.txbs)} B, "
                                  f"accepted={len(m.script.sent)} of T={len(m.T)} B, rxbs={len(end.rxbs)} of "
                                  f"{len(m.far.written())} B written by the far side, cutoff={end.cutoff}, "
                                  f"connected={getattr(end, 'connected', None)}", trace=m.trace())
                    raise Abort()
            if not far.healthy():
                raise RuntimeError("harness: far side of the connection failed")
            if stall >= 8 * STALL:
                raise RuntimeError("harness: kernel did not move outstanding bytes although both ends keep trying")
        tk.wait_any(far.socks() + [near.end.cs], 5 if stall < STALL else 20)
    ctx.peak("peak_finish_rounds", rounds)
    if not done:
        raise RuntimeError(f"harness: round budget {maxr} used up while bytes were still moving")

    for m in mons:
        m.final_wirelog()

    # ---- observations --------------------------------------------------------
    ctx.count("completed_cases")
    ctx.count("role_" + role + ("_pair" if pair else ""))
    if role.endswith("Tls"):
        ctx.count("tls_cases")
    if pair:
        ctx.count("pair_cases")
    if flavor == "pressure":
        ctx.count("pressure_cases")
    if flavor == "late":
        ctx.count("late_cases_completed")
    if flavor == "duplex":
        ctx.count("duplex_cases_completed")
        ctx.count("duplex_rounds_far_side_writing_not_reading", far.rounds_not_reading)
        ctx.count("duplex_bytes_each_way", min(len(near.T), len(far.written())))
    nontrivial = False
    for m in mons:
        st = m.script.stats
        for k in ("partial_sends", "real_partial_sends", "zero_sends", "short_reads", "send_blocks_injected", "send_blocks_real",
                  "recv_blocks_injected", "recv_blocks_real", "handshake_blocks_injected", "trunc_skipped_pending_write"):
            if st.get(k):
                ctx.count(k, st[k])
        sb = st.get("send_blocks_injected", 0) + st.get("send_blocks_real", 0)
        ctx.count("send_blocks", sb)
        ctx.count("bytes_tx", len(m.T))
        ctx.count("bytes_rx", len(m.end.rxbs))
        ctx.count("send_calls", m.script.calls["send"])
        ctx.count("recv_calls", m.script.calls["recv"])
        if any(not materialize(op[1]) for op in case["ops"] if op[0] in ("tx", "pw")):
            ctx.count("cases_with_empty_payload")
        if st.get("partial_sends") and (sb or st.get("recv_blocks_injected")):
            nontrivial = True
    if nontrivial:
        ctx.nontrivial([role, flavor, [m.script.fired for m in mons], [sorted(m.script.stats.items()) for m in mons]])
    ctx.seen("fired_action_sequences", [m.script.fired for m in mons])
    if flavor != "script" or len(case["ops"]) < 12:
        ctx.sample({"case": {k: v for k, v in case.items() if k != "ops"}, "ops": case["ops"][:12],
                    "observed": {m.role: {"stats": m.script.stats, "T": len(m.T), "accepted": len(m.script.sent),
                                          "rxbs": len(m.end.rxbs), "calls": m.script.calls,
                                          "shim_log_tail": [list(x) for x in m.script.log[-8:]]} for m in mons},
                    "finish_rounds": rounds})
