"""C23 - durable queues (Durq) and durable sets (Dusq) are FIFO models and survive reopen.

Monitor shape: reference model run in lock-step (vf.models.store.QueueModel = deque,
OSetQueueModel = insertion-ordered set with FIFO pull).  The real objects are used the way the
tree uses them: a `Subery` (LMDB) opened on a directory, a `Hold` holding it, `hold[key] = Durq()`
(injection + sync).  After EVERY operation the monitor compares with the model
  * the return value where the statement fixes it (pull / count / emptive=False raising),
  * the in-memory content `list(q)` / `len(q)`,
  * the durable copy twice: through hio (`subery.drqs|dsqs.get(key)`, deserialised) and through a
    plain LMDB cursor opened by the harness (independent of hio's scan code): same values, same order,
    nothing else in the sub-database.
With two queues at sibling keys (K and K + '.' + text, K + '_' + text, ...) in the same sub-database EVERY queue is compared
after EVERY operation on either of them (keys `sibling-memory-mismatch`, `sibling-durable-mismatch`): an operation on K
must not touch what is stored for its sibling.  Sibling keys that sort inside K's hidden ordinal range (`K.<32 hex>...`,
`K.b`) are C24's recorded key-encoding weakness and are kept out of this check (asserted on the PAIRS table).
Refused operations: extend/update with a batch holding an element that is no registered dataclass (None, int, str at
any position) or with a one-shot iterable.  The model does not apply an operation that raised: memory and the durable copy
must be what they were (`rejected-op-changed-content:<Cls>.<op>`); a call that returned must have applied nothing or the
whole batch of acceptable values, the same in memory and on disk.
At a reopen point the Subery is closed, every in-memory object is dropped, the same directory is
opened again (new Subery instance, or `.reopen()` of the same one), a new Hold and a new EMPTY
Durq/Dusq are created at the same key; after the injection sync the content must equal the model.
Thorough tier adds real crashes: the history runs in a forked child which acknowledges each
operation over a pipe and dies by SIGKILL - either sent by the parent at a chosen acknowledged
prefix (asynchronous, lands before/inside/after the next operation) or self-inflicted at the n-th
durable write, just before or just after it (deterministic crash point).  The parent then reopens
the directory: content must equal the model after the acknowledged prefix or after prefix+1.
"""
import atexit
import itertools
import os
import random
import select
import shutil
import signal
import time

from hio.base.during import Subery
from hio.base.hier import Durq, Dusq, Bag, IceBag, Hold

from vf.models import store

ID = "C23"
LEVEL = "fault_enumeration"
RULE = ("operation histories over {push v, pull, extend/update [..], remove v (Dusq), clear, count v (Durq)} on the 4-value "
        "registered-dataclass domain {Bag(0), Bag(1), IceBag(0), IceBag(1)} (equal field values in two classes, duplicates "
        "inside extend/update lists). Every history of length <= 3 (quick) / <= 4 (thorough) over a 9-op (Durq) / 10-op (Dusq) "
        "alphabet is run once per reopen position (after op 1..len), so a close/reopen is tried between every two operations; "
        "a fixed schedule of refused batches (class x 13 batches: None / int / str at the first, a middle and the last position of "
        "an extend/update list or tuple, one-shot generators and iterators with and without such an element, x empty / non-empty "
        "queue, each also through the constructor) run without a reopen and with a reopen after every position - a call that "
        "raised must leave memory and the durable copy as they were, a call that returned must have applied nothing or the "
        "complete batch; "
        "a fixed schedule of two-queue scripts (class x 10 sibling key pairs K/S in ONE sub-database - plain prefixes, "
        "S = K+'.'+text, nested dots, tuple forms - x injection order x 6 triggers that make hio delete all values at K: clear, "
        "pin, forced sync, pull to empty, clear+inject a preloaded queue, clear+extend+clear) is run without a reopen and with a "
        "reopen after every single position; after EVERY op the memory and durable copies of BOTH queues are compared; "
        "random histories of length 10..60 over a richer alphabet (push None, pull(emptive=False), pin, forced sync; half of "
        "them with a second queue at a sibling key) get 1..4 reopens at random positions; thorough also enumerates length-5 "
        "histories as far as a soft time limit goes and runs forked-child crash cases (SIGKILL at an acknowledged prefix or at the "
        "n-th durable write). Non-trivial = at least one reopen/crash happened while the model was non-empty and at least one "
        "operation changed the content; distinct = by (class, operation outcomes, reopen positions, content at each reopen).")
ASSUMPTIONS = ["single process, single-threaded use of one Subery at a time; a crash is the death of the process (SIGKILL), "
               "not loss of power: committed LMDB transactions are in the page cache / tmpfs",
               "values are registered dataclasses (Bag, IceBag) as in the tree's tests; the durable copy is judged in the "
               "serialised form `ClassName\\n{json}` read back by a plain LMDB cursor",
               "return values of push/extend/update/clear/remove are not fixed by the statement and are only recorded; "
               "Dusq.remove of a value that is not contained may return False or raise KeyError (both are documented)",
               "scratch LMDB directories live on tmpfs (/dev/shm) when available"]
TECHNIQUE = ("lock-step reference model (deque / ordered set) over enumerated and random op histories, durable copy read back "
             "through hio and through an independent raw LMDB cursor, real close/reopen at every position, forked-child "
             "SIGKILL crash points")
LEVEL_TEXT = ("Every operation of every history is judged against the model in memory and on disk, and a real close/reopen of "
              "the LMDB directory is tried between every two operations of every history up to a bounded length, at random "
              "points of long histories, and (thorough) at process-kill points. Held on what was observed, not a proof for "
              "unbounded histories or for power-loss crashes.")
LEVEL_NOTE = "trusted: the 40-line queue/ordered-set models, py-lmdb raw cursors, Linux fork/SIGKILL semantics"
NSHARDS = {"quick": 16, "thorough": 16}
TIMEOUT_S = {"quick": 900, "thorough": 2400}       # watchdog only
BUDGET_S = {"quick": 600, "thorough": 1800}        # driver backstop; the module cuts its OPTIONAL phases itself after SOFT_S
SOFT_S = {"quick": 40, "thorough": 240}
REQUIRE = {
    "quick": {"enum_phase_completed": 16, "two_queue_schedule_completed": 16, "batch_schedule_completed": 16, "rejected_batches_judged": 500,
              "rejected_batches_after_valid_prefix": 200, "dotted_sibling_nonempty_checks": 3000,
              "delete_all_at_K_with_dotted_sibling_nonempty": 300, "ops_checked": 10000, "reopens_checked": 3000, "reopens_nonempty": 1000, "raw_durable_reads": 10000,
              "pulls_nonempty": 1000},
    "thorough": {"enum_phase_completed": 16, "two_queue_schedule_completed": 16, "batch_schedule_completed": 16, "rejected_batches_judged": 1000,
                 "rejected_batches_after_valid_prefix": 400, "dotted_sibling_nonempty_checks": 6000,
                 "delete_all_at_K_with_dotted_sibling_nonempty": 600, "crash_phase_completed": 16, "ops_checked": 100000, "reopens_checked": 50000, "reopens_nonempty": 20000, "raw_durable_reads": 100000,
                 "pulls_nonempty": 10000, "crash_kills": 100, "crash_kills_nonempty": 40},
}
EXHAUSTIVE = {"quick": "all op histories of length <= 3 over the 9-op Durq and 10-op Dusq alphabets x every reopen position",
              "thorough": "all op histories of length <= 4 over the 9-op Durq and 10-op Dusq alphabets x every reopen position"}

DOMAIN = [("Bag", 0), ("Bag", 1), ("IceBag", 0), ("IceBag", 1)]
_CLS = {"Bag": Bag, "IceBag": IceBag}
_IDX = {d: i for i, d in enumerate(DOMAIN)}

ALPHA = {
    "durq": [["push", 0], ["push", 1], ["push", 2], ["push", 3], ["pull"], ["extend", [0, 0]], ["extend", [1, 2, 3]],
             ["clear"], ["count", 0]],
    "dusq": [["push", 0], ["push", 1], ["push", 2], ["push", 3], ["pull"], ["update", [0, 0, 1]], ["update", [2, 1, 3]],
             ["remove", 0], ["remove", 1], ["clear"]],
}
CLSNAME = {"durq": "Durq", "dusq": "Dusq"}


# sibling key pairs [K, S] living in ONE sub-database: plain prefixes, S = K + '.' + text (dotted keys are legal: the hidden
# ordinal is split off at the RIGHTMOST '.'), nested dots, tuple forms (Hold joins them with '_').  No S may sort inside
# K's hidden ordinal range (that is C24's recorded encoding weakness, e.g. 'K.<32 hex>', 'K.b'): asserted below.
PAIRS = [["q", "qq"], ["a", "a_b"], ["a", ["a", "b"]], ["x", "x1"],
         ["inbox", "inbox.retry"], ["q", "q.x.y"], ["a.b", "a.b.retry"], ["k", "k.z"],
         [["my", "q"], "my_q.s1"], [["in", "box"], "in_box.r.s"]]


def kstr(key):
    """the str key Hold derives (tuple parts joined with '_')"""
    return key if isinstance(key, str) else "_".join(key)


def kreal(key):
    return key if isinstance(key, str) else tuple(key)


for _a, _b in PAIRS:
    assert not store.iokey_in_range(kstr(_b).encode(), kstr(_a).encode()), (_a, _b)
    assert not store.iokey_in_range(kstr(_a).encode(), kstr(_b).encode()), (_a, _b)


def mk(i):
    """a FRESH instance for domain index i (equality is by class and field value, never by identity)"""
    name, v = DOMAIN[i]
    return _CLS[name](value=v)


def idx(obj):
    return _IDX.get((type(obj).__name__, getattr(obj, "value", None)), ("?", repr(obj)))


# --------------------------------------------------------------------------
# case generation
# --------------------------------------------------------------------------
def _rand_ops(rng, qk, n, two):
    ops = []
    for _ in range(n):
        w = 1 if (two and rng.random() < 0.4) else 0
        r = rng.random()
        if r < 0.34:
            op = ["push", rng.randrange(4)]
        elif r < 0.56:
            op = ["pull"]
        elif r < 0.60:
            op = ["pullx"]
        elif r < 0.63:
            op = ["pushnone"]
        elif r < 0.75:
            op = ["extend" if qk == "durq" else "update", [rng.randrange(4) for _ in range(rng.randint(0, 5))]]
        elif r < 0.80:
            items = [rng.randrange(4) for _ in range(rng.randint(0, 4))]
            form = rng.choice(["list", "list", "tuple", "gen", "iter"])
            if form in ("list", "tuple") or rng.random() < 0.3:      # an unacceptable element somewhere in the batch
                items.insert(rng.randint(0, len(items)), rng.choice(BAD))
            op = ["batch", items, form]
        elif r < 0.92:
            op = ["count", rng.randrange(4)] if qk == "durq" else ["remove", rng.randrange(4)]
        elif r < 0.95:
            op = ["clear"]
        elif r < 0.975:
            op = ["pin"]
        else:
            op = ["syncf"]
        ops.append([w] + op)
    return ops


def _crash_case(rng):
    qk = rng.choice(["durq", "dusq"])
    n = rng.randint(3, 14)
    # (pin is two LMDB transactions by construction - remove all, then put - and the statement does not list it: not a crash op)
    ops = [o[1:] for o in _rand_ops(rng, qk, n, False) if o[1] not in ("pullx", "pushnone", "pin", "syncf", "batch")] or [["push", 1]]
    if rng.random() < 0.5:
        return {"kind": "crash", "q": qk, "key": "q", "ops": ops, "mode": "async",
                "k": rng.randrange(len(ops)), "spin": rng.choice([0, 0, 50, 200, 1000, 5000, 20000])}
    return {"kind": "crash", "q": qk, "key": "q", "ops": ops, "mode": "fail",
            "n": rng.randint(1, len(ops)), "phase": rng.choice(["before", "after"])}


# batches the tree refuses or cannot consume twice: elements that are no registered dataclass (None, int, str - Durq.extend
# and Dusq.update raise HierError for them) at every position of the batch, and one-shot iterables (generator, iterator)
BAD = ["N", "I", "S"]
_BADOBJ = {"N": None, "I": 5, "S": "Bag(value=0)"}
BATCHES = [[["N"], "list"], [[0, "N"], "list"], [[0, 1, "N", 2], "list"], [["N", 0], "list"], [[0, "I"], "tuple"],
           [[1, "S", 2], "list"], [[2, 2, "N"], "tuple"], [[0, 1, 2, 3, "I"], "list"],
           [[0, 1], "gen"], [[2], "iter"], [[], "gen"], [[0, "N", 1], "gen"], [[3, 3, "S"], "iter"]]


def batch_schedule():
    """deterministic: class x batch x (empty | non-empty queue before); each script is run without a reopen and with a
    reopen after every single position"""
    for qk in ("durq", "dusq"):
        ext = "extend" if qk == "durq" else "update"
        for items, form in BATCHES:
            for pre in ([], [[0, "push", 1], [0, ext, [2, 0]]]):
                ops = pre + [[0, "batch", items, form], [0, "push", 3], [0, "pull"], [0, "batch", items, form], [0, "pull"],
                             [0, "ctorbad", items, form]]
                yield {"kind": "two", "q": qk, "keys": ["q"], "trigger": f"batch:{items}:{form}", "ops": ops, "how": "new"}


TRIGGERS = {
    "clear": lambda ext: [["K", "clear"]],
    "pin": lambda ext: [["K", "pin"]],
    "syncf": lambda ext: [["K", "syncf"]],
    "pull-to-empty": lambda ext: [["K", "pull"], ["K", "pull"], ["K", "pull"], ["K", "pull"]],
    "clear-inject": lambda ext: [["K", "clear"], ["K", "inject", [1, 1, 2]]],
    "clear-extend": lambda ext: [["K", "clear"], ["K", ext, [2, 3]], ["K", "clear"]],
}


def two_queue_schedule():
    """deterministic: class x sibling pair x injection order x trigger; run_case runs each script without a reopen and with
    a reopen after every single position (a reopen while K is empty makes the new K queue pin its empty content)"""
    for qk in ("durq", "dusq"):
        ext = "extend" if qk == "durq" else "update"
        for pair in PAIRS:
            for order in (0, 1):
                keys = pair if order == 0 else [pair[1], pair[0]]
                role = {"K": order, "S": 1 - order}
                for name, trig in TRIGGERS.items():
                    script = ([["S", "push", 0], ["S", ext, [1, 2]], ["K", "push", 3], ["K", ext, [0, 1]]] + trig(ext)
                              + [["S", "pull"], ["K", "push", 2], ["S", "push", 3], ["S", "clear"], ["K", "pull"]])
                    yield {"kind": "two", "q": qk, "keys": keys, "trigger": name,
                           "ops": [[role[o[0]]] + o[1:] for o in script], "how": "new" if order == 0 else "same"}


def cases(tier, seed, shard, nshards):
    t0 = time.monotonic()
    late = lambda: time.monotonic() - t0 > SOFT_S[tier]
    maxlen = 3 if tier == "quick" else 4
    i = 0
    for ln in range(1, maxlen + 1):
        for qk in ("durq", "dusq"):
            al = ALPHA[qk]
            for hist in itertools.product(range(len(al)), repeat=ln):
                if i % nshards == shard:
                    yield {"kind": "enum", "q": qk, "key": "q", "ops": [al[k] for k in hist]}
                i += 1
    yield {"kind": "marker", "q": "-", "what": "enum_phase_completed"}   # REQUIREd: the EXHAUSTIVE claim depends on it
    # fixed schedule: two queues at sibling keys in one sub-database, every operation that makes hio delete "all values
    # at K" (clear, pin, sync of an empty queue -> pin, injecting a preloaded queue) while the sibling holds values
    for j, c in enumerate(two_queue_schedule()):
        if j % nshards == shard:
            yield c
    yield {"kind": "marker", "q": "-", "what": "two_queue_schedule_completed"}
    # fixed schedule: batches with an unacceptable element at every position / one-shot iterables
    for j, c in enumerate(batch_schedule()):
        if j % nshards == shard:
            yield c
    yield {"kind": "marker", "q": "-", "what": "batch_schedule_completed"}
    rng = random.Random(f"{seed}:C23:{shard}")
    if tier == "thorough":
        for _ in range(960 // nshards):
            yield _crash_case(rng)
        yield {"kind": "marker", "q": "-", "what": "crash_phase_completed"}
    # from here on the phases are optional depth: a minimum is always run, the rest only while the shard is younger than
    # SOFT_S (the enumeration and the crash cases above are never cut; on a loaded machine they may use the time alone)
    nrand = (1280 if tier == "quick" else 12000) // nshards
    nmin = (320 if tier == "quick" else 1600) // nshards
    for n in range(nrand):
        if n >= nmin and late():
            yield {"kind": "marker", "q": "-", "what": "optional_phases_cut_by_soft_limit"}
            return
        qk = rng.choice(["durq", "dusq"])
        two = rng.random() < 0.5
        ln = rng.randint(10, 60)
        ops = _rand_ops(rng, qk, ln, two)
        pts = sorted(set(rng.randint(1, ln) for _ in range(rng.randint(1, 4))))
        key, other = rng.choice(PAIRS)
        if rng.random() < 0.5:
            key, other = other, key
        yield {"kind": "rand", "q": qk, "key": key, "other": other if two else None, "ops": ops, "reopen": pts,
               "how": rng.choice(["new", "new", "same"])}
    if tier == "thorough":
        # length-5 histories, every reopen position, in a seed-dependent order, as far as the soft limit allows
        for qk in ("durq", "dusq"):
            al = ALPHA[qk]
            n5 = len(al) ** 5
            mine = [j for j in range(shard, n5, nshards)]
            rng.shuffle(mine)
            for j in mine[: 16000 // nshards]:
                if late():
                    yield {"kind": "marker", "q": "-", "what": "optional_phases_cut_by_soft_limit"}
                    return
                hist = []
                for _ in range(5):
                    j, r = divmod(j, len(al))
                    hist.append(al[r])
                yield {"kind": "enum", "q": qk, "key": "q", "ops": hist, "len5": True}


# --------------------------------------------------------------------------
# shard state: one scratch root, one Subery kept open between runs (contents dropped per run)
# --------------------------------------------------------------------------
_S = {"root": None, "sub": None, "pid": None}


def _cleanup():
    if _S["pid"] != os.getpid():
        return
    _close_store()
    if _S["root"]:
        shutil.rmtree(_S["root"], ignore_errors=True)
        _S["root"] = None


def setup(ctx):
    if _S["root"] is None:
        _S["root"] = store.scratch_root("vf-c23")
        _S["pid"] = os.getpid()
        atexit.register(_cleanup)


def teardown(ctx):
    _cleanup()


def _open(name="main"):
    return Subery(name=name, headDirPath=_S["root"], temp=False, reopen=True)


def _close_store():
    sub = _S["sub"]
    _S["sub"] = None
    if sub is not None:
        try:
            sub.close()
        except Exception:
            pass


def _fresh_store():
    """an open Subery on the shard's directory with empty drqs / dsqs"""
    if _S["root"] is None:
        setup(None)
    sub = _S["sub"]
    if sub is None or not sub.opened or sub.env is None:
        sub = _S["sub"] = _open()
    store.raw_drop(sub.env, sub.drqs.sdb)
    store.raw_drop(sub.env, sub.dsqs.sdb)
    return sub


def _sdb_of(sub, qk):
    return sub.drqs if qk == "durq" else sub.dsqs


def _new_q(qk):
    return Durq() if qk == "durq" else Dusq()


def _model(qk):
    return store.QueueModel() if qk == "durq" else store.OSetQueueModel()


# --------------------------------------------------------------------------
# applying one operation to the real object
# --------------------------------------------------------------------------
def _batch_obj(items, form):
    vals = [mk(i) if isinstance(i, int) else _BADOBJ[i] for i in items]
    if form == "gen":
        return (v for v in vals)
    if form == "iter":
        return iter(vals)
    return tuple(vals) if form == "tuple" else vals


def step_batch(ctx, sub, qk, key, q, model, op, others=()):
    """extend/update with a batch that holds an unacceptable element, or with a one-shot iterable.  The statement lets the
    implementation refuse such a batch; what it cannot do is half of it: after a call that RAISED the content - in memory and
    on disk - must be what it was (the model does not apply a rejected operation); after a call that returned, the content
    must be either unchanged or the complete batch of acceptable values, and memory and durable copy must agree on which."""
    cls = CLSNAME[qk]
    meth = "extend" if qk == "durq" else "update"
    items, form = op[1], op[2]
    valid = [i for i in items if isinstance(i, int)]
    has_bad = len(valid) != len(items)
    before = model.items()
    applied = model.copy()
    model_op(applied, [meth, valid])
    out = do_op(q, op)
    ctx.count("ops_checked")
    ctx.count("op:batch")
    try:
        mem = [idx(v) for v in q]
    except Exception as ex:
        ctx.violation(f"escape:{type(ex).__name__}:{cls}.__iter__", f"after {meth}: iterating raised {ex!r}")
        return None
    raised = out[0] == "raise"
    if not has_bad and form in ("list", "tuple"):
        cands = [applied.items()] if not raised else []
    elif raised:
        cands = [before]
    else:
        cands = [before, applied.items()]
    if raised or has_bad or form in ("gen", "iter"):
        ctx.count("rejected_batches_judged" if raised else "unusual_batches_returned")
        if raised and has_bad and isinstance(items[0], int):
            ctx.count("rejected_batches_after_valid_prefix")
        ctx.seen("batch_outcomes", [cls, form, has_bad, out[1] if raised else "returned", mem != before])
    if mem not in cands:
        if raised:
            ctx.violation(f"rejected-op-changed-content:{cls}.{meth}",
                          f"{cls}.{meth}({form} {items}) raised {out[2]!r} but the in-memory content changed from {before} "
                          f"to {mem}: a rejected operation must leave the queue as it was")
        else:
            ctx.violation(f"batch-mismatch:{cls}.{meth}",
                          f"{cls}.{meth}({form} {items}) returned {out[1]!r}: content {mem}, before {before}, "
                          f"acceptable values applied would be {applied.items()}")
        return None
    if mem == applied.items() and mem != before:
        model_op(model, [meth, valid])
    if not check_content(ctx, sub, qk, key, q, model, "after", meth + "-batch", others):
        return None
    return (out[1] if raised else "ret") + (":chg" if mem != before else ":same")


def do_op(q, op):
    """-> ("ret", value-as-domain-index-or-plain) | ("raise", ExcTypeName, exc)"""
    name = op[0]
    try:
        if name == "push":
            r = q.push(mk(op[1]))
        elif name == "pushnone":
            r = q.push(None)
        elif name == "pull":
            r = q.pull()
            r = idx(r) if r is not None else None
        elif name == "pullx":
            r = q.pull(emptive=False)
            r = idx(r) if r is not None else None
        elif name == "extend":
            r = q.extend([mk(i) for i in op[1]])
        elif name == "update":
            r = q.update([mk(i) for i in op[1]])
        elif name == "remove":
            r = q.remove(mk(op[1]))
        elif name == "clear":
            r = q.clear()
        elif name == "count":
            r = q.count(mk(op[1]))
        elif name == "batch":
            r = (q.extend if isinstance(q, Durq) else q.update)(_batch_obj(op[1], op[2]))
        elif name == "pin":
            r = q.pin()
        elif name == "syncf":
            r = q.sync(force=True)
        else:
            raise AssertionError(name)
    except AssertionError:
        raise
    except Exception as ex:
        return ("raise", type(ex).__name__, ex)
    return ("ret", r)


def model_op(model, op):
    name = op[0]
    return model.apply(name, op[1] if len(op) > 1 else None)


# --------------------------------------------------------------------------
# the comparisons
# --------------------------------------------------------------------------
def check_content(ctx, sub, qk, key, q, model, where, opname, others=()):
    """in-memory, durable-through-hio and durable-through-raw-cursor content == model.  True when all agree."""
    cls = CLSNAME[qk]
    want = model.items()
    try:
        mem = [idx(v) for v in q]
        ln = len(q)
    except Exception as ex:
        ctx.violation(f"escape:{type(ex).__name__}:{cls}.__iter__", f"{where}: iterating raised {ex!r}")
        return False
    if mem != want or ln != len(want):
        if where == "reopen":
            ctx.violation(f"reopen-mismatch:{cls}", f"after close/reopen + sync at key {key!r}: content {mem} (len {ln}), "
                                                    f"model {want}")
        elif where == "sibling":
            ctx.violation(f"sibling-memory-mismatch:{cls}.{opname}",
                          f"after {opname} on ANOTHER queue: list(q) at {key!r} = {mem} len={ln}, model {want}")
        else:
            ctx.violation(f"memory-mismatch:{cls}.{opname}", f"after {opname}: list(q)={mem} len={ln}, model {want}")
        return False
    sdb = _sdb_of(sub, qk)
    # raw cursor: exactly the model's values, in ordinal order, under this key; other keys only if they are known queues
    ctx.count("raw_durable_reads")
    raw = store.raw_io_lists(sub.env, sdb.sdb)
    mine = [(n, v) for n, v in (store.parse_dom(b) for b in raw.get(key.encode(), []))]
    mine = [_IDX.get(t, t) for t in mine]
    if mine != want:
        ctx.violation({"reopen": f"reopen-durable-mismatch:{cls}", "sibling": f"sibling-durable-mismatch:{cls}.{opname}"}
                      .get(where, f"durable-mismatch:{cls}.{opname}"),
                      f"{where} {opname}: durable copy (raw LMDB cursor) at {key!r} is {mine}, model {want}; "
                      f"raw keys={[k for k, _ in store.raw_items(sub.env, sdb.sdb)]}")
        return False
    allowed = {key.encode()} | {kstr(o).encode() for o in others}
    extra = [k for k in raw if k not in allowed]
    if extra:
        ctx.violation(f"durable-foreign-entries:{cls}.{opname}", f"{where} {opname}: sub-database holds entries under {extra}")
        return False
    try:
        viahio = [idx(v) for v in sdb.get(key)]
        cnt = sdb.cnt(key)
    except Exception as ex:
        ctx.violation(f"escape:{type(ex).__name__}:{type(sdb).__name__}.get", f"{where} {opname}: durable read raised {ex!r}")
        return False
    if viahio != want or cnt != len(want):
        ctx.violation(("sibling-" if where == "sibling" else "") + f"durable-read-mismatch:{cls}.{opname}", f"{where} {opname}: sdb.get({key!r})={viahio} cnt={cnt}, "
                                                               f"model {want}")
        return False
    return True


def step(ctx, sub, qk, key, q, model, op, others=()):
    """one lock-step operation; returns outcome tag or None after a violation (caller stops the run)"""
    cls = CLSNAME[qk]
    before = model.items()
    exp = model_op(model, op)
    out = do_op(q, op)
    ctx.count("ops_checked")
    ctx.count("op:" + op[0])
    if out[0] == "raise":
        if exp[0] == "raise" and exp[1] == out[1]:
            ctx.count("documented_raises")
        elif exp[0] == "absent" and out[1] == "KeyError":
            ctx.count("remove_absent_keyerror")
        else:
            ctx.violation(f"escape:{out[1]}:{cls}.{op[0]}",
                          f"{cls}.{op[0]}({op[1:] and op[1]}) raised {out[2]!r}; content before {before}; "
                          f"the model performs the operation without error")
            return None
    why = store.judge(exp, out[:2])
    if why:
        ctx.violation(f"retval:{cls}.{op[0]}", f"{cls}.{op[0]}({op[1:] and op[1]}) on content {before}: {why}")
        return None
    if op[0] in ("pull", "pullx") and before:
        ctx.count("pulls_nonempty")
    if exp[0] == "any" and out[0] == "ret":
        ctx.seen("unjudged_return_values", [cls, op[0], repr(out[1]), before != model.items()])
    if not check_content(ctx, sub, qk, key, q, model, "after", op[0], others):
        return None
    tag = out[1] if out[0] == "raise" else ("chg" if before != model.items() else "same")
    return tag


def attach(sub, qk, key):
    hold = Hold(_hold_subery=sub)
    q = _new_q(qk)
    hold[key] = q          # Hold.__setitem__ -> inject -> q.sync()
    return hold, q


def reopen(ctx, sub, how):
    """real close + reopen of the same directory; every old in-memory object is dropped by the caller"""
    if how == "same":
        sub.reopen()
        new = sub
    else:
        sub.close()
        new = _open()
    _S["sub"] = new
    ctx.count("reopens_checked")
    return new


# --------------------------------------------------------------------------
# run one history with reopens at the given positions (1-based: after that many ops)
# --------------------------------------------------------------------------
def _preloaded_raw(qk, batch):
    return Durq(batch) if qk == "durq" else Dusq(batch)


def _preloaded(qk, vals):
    return Durq([mk(i) for i in vals]) if qk == "durq" else Dusq([mk(i) for i in vals])


def run_history(ctx, qk, keys, ops, positions, how):
    """ops: [which, name, arg?]; keys: [key0, key1?] (str or list = tuple form).  After EVERY op the content of ALL queues
    (memory, durable via raw cursor, durable via hio) is compared with their models, and again after every reopen.
    Returns (ok, outcomes, reopen snapshots, nonempty reopen seen)."""
    sub = _fresh_store()
    cls = CLSNAME[qk]
    skeys = [kstr(k) for k in keys]
    qs, models = [], []
    hold = Hold(_hold_subery=sub)
    for k in keys:
        q = _new_q(qk)
        hold[kreal(k)] = q
        qs.append(q)
        models.append(_model(qk))
    outcomes, snaps = [], []
    nonempty = False

    def dotted_victims(w):
        """siblings whose key is keys[w] + '.' + text and which hold values (what a prefix delete at keys[w] would wipe)"""
        return [v for v in range(len(keys)) if v != w and skeys[v].startswith(skeys[w] + ".") and models[v].items()]

    for i, wop in enumerate(ops):
        w, op = wop[0], wop[1:]
        before = models[w].items()
        victims = dotted_victims(w)
        if op[0] == "inject":
            # a NEW preloaded queue object replaces the (empty) one at this key: Hold injects it, sync finds no durable copy
            # and pins the preloaded content.  Only generated where the model is empty.
            if before:
                ctx.count("inject_skipped_nonempty")
                continue
            q = _preloaded(qk, op[1])
            try:
                hold[kreal(keys[w])] = q
            except Exception as ex:
                ctx.violation(f"escape:{type(ex).__name__}:{cls}.inject", f"injecting a preloaded {cls} at {skeys[w]!r} raised {ex!r}")
                return False, outcomes, snaps, nonempty
            qs[w] = q
            model_op(models[w], ["extend" if qk == "durq" else "update", op[1]])
            ctx.count("ops_checked")
            ctx.count("op:inject")
            if not check_content(ctx, sub, qk, skeys[w], q, models[w], "after", "inject", others=keys):
                return False, outcomes, snaps, nonempty
            tag = "chg"
        elif op[0] == "ctorbad":
            # constructor prefill with such a batch: either it raises (no object) or the object holds a complete batch
            try:
                obj = _preloaded_raw(qk, _batch_obj(op[1], op[2]))
            except Exception as ex:
                ctx.count("ctor_prefill_rejected")
                tag = type(ex).__name__
            else:
                got = [idx(v) for v in obj]
                valid = [x for x in op[1] if isinstance(x, int)]
                full = _model(qk)
                model_op(full, ["extend" if qk == "durq" else "update", valid])
                if got not in ([], full.items()):
                    ctx.violation(f"batch-mismatch:{cls}.__init__", f"{cls}({op[2]} {op[1]}) holds {got}")
                    return False, outcomes, snaps, nonempty
                tag = "ret"
            ctx.count("ops_checked")
            ctx.count("op:ctorbad")
        elif op[0] == "batch":
            tag = step_batch(ctx, sub, qk, skeys[w], qs[w], models[w], op, others=keys)
            if tag is None:
                return False, outcomes, snaps, nonempty
            tag = "chg" if tag.endswith(":chg") else tag
        else:
            tag = step(ctx, sub, qk, skeys[w], qs[w], models[w], op, others=keys)
            if tag is None:
                return False, outcomes, snaps, nonempty
        if victims and (op[0] in ("pin", "inject") or (op[0] == "clear" and before)):
            ctx.count("delete_all_at_K_with_dotted_sibling_nonempty")
        # every OTHER queue must be exactly what it was: in memory and on disk
        for v in range(len(keys)):
            if v == w:
                continue
            ctx.count("sibling_checks")
            if models[v].items():
                ctx.count("sibling_nonempty_checks")
                if skeys[v].startswith(skeys[w] + ".") or skeys[w].startswith(skeys[v] + "."):
                    ctx.count("dotted_sibling_nonempty_checks")
            if not check_content(ctx, sub, qk, skeys[v], qs[v], models[v], "sibling", op[0], others=keys):
                return False, outcomes, snaps, nonempty
        outcomes.append([w, op[0], tag])
        if (i + 1) in positions:
            del hold, qs, q
            sub = reopen(ctx, sub, how)
            hold = Hold(_hold_subery=sub)
            qs = []
            for v, k in enumerate(keys):
                if not models[v].items() and dotted_victims(v):
                    ctx.count("delete_all_at_K_with_dotted_sibling_nonempty")   # empty K: sync -> pin -> delete all at K
                q = _new_q(qk)
                hold[kreal(k)] = q
                qs.append(q)
            snap = []
            for k, q, m in zip(skeys, qs, models):
                if not check_content(ctx, sub, qk, k, q, m, "reopen", op[0], others=keys):
                    return False, outcomes, snaps, nonempty
                snap.append(m.items())
                if m.items():
                    nonempty = True
                    ctx.count("reopens_nonempty")
            snaps.append([i + 1, snap])
    return True, outcomes, snaps, nonempty


def run_case(case, ctx):
    kind = case["kind"]
    qk = case["q"]
    if kind == "marker":
        ctx.count(case["what"])
        return
    if kind == "enum":
        ops = [[0] + op for op in case["ops"]]
        for p in range(1, len(ops) + 1):
            if p > 1:
                ctx.evaluations += 1   # each reopen position is its own execution of the history
            ok, outcomes, snaps, nonempty = run_history(ctx, qk, [case["key"]], ops, {p}, "new")
            if case.get("len5"):
                ctx.count("len5_runs")
            if not ok:
                return
            if nonempty and any(t[2] == "chg" for t in outcomes):
                ctx.nontrivial([qk, outcomes, snaps])
            ctx.seen("reopen_contents", [qk, snaps[-1][1] if snaps else None])
        if len(ops) == 3:
            ctx.sample({"case": case, "outcomes": outcomes, "content_at_last_reopen": snaps})
        return
    if kind == "two":
        n = len(case["ops"])
        for pos in [set()] + [{p} for p in range(1, n + 1)]:
            ctx.evaluations += 1 if pos else 0
            ok, outcomes, snaps, nonempty = run_history(ctx, qk, case["keys"], case["ops"], pos, case["how"])
            ctx.count("two_queue_scripted_runs")
            if not ok:
                return
            if nonempty and any(t[2] == "chg" for t in outcomes):
                ctx.nontrivial([qk, "two", [kstr(k) for k in case["keys"]], outcomes, snaps])
        ctx.seen("two_queue_configurations", [qk, [kstr(k) for k in case["keys"]], case["trigger"]])
        ctx.sample({"case": case, "outcomes": outcomes, "content_at_last_reopen": snaps})
        return
    if kind == "rand":
        keys = [case["key"]] + ([case["other"]] if case.get("other") else [])
        ok, outcomes, snaps, nonempty = run_history(ctx, qk, keys, case["ops"], set(case["reopen"]), case["how"])
        if not ok:
            return
        ctx.count("random_histories")
        if nonempty and any(t[2] == "chg" for t in outcomes):
            ctx.nontrivial([qk, outcomes, snaps])
        ctx.seen("reopen_contents", [qk, snaps])
        ctx.sample({"case": {k: case[k] for k in ("q", "key", "other", "reopen", "how")}, "n_ops": len(case["ops"]),
                    "content_at_reopens": snaps})
        return
    if kind == "crash":
        run_crash(case, ctx)
        return
    raise AssertionError(kind)


# --------------------------------------------------------------------------
# true crashes: forked child, pipe acknowledgements, SIGKILL
# --------------------------------------------------------------------------
def _read1(fd, timeout=120.0):
    """one byte or b'' on EOF; a silent child for `timeout` s is a harness problem (-> inconclusive), not a verdict"""
    r, _, _ = select.select([fd], [], [], timeout)
    if not r:
        raise RuntimeError("crash child silent for %.0f s" % timeout)
    return os.read(fd, 1)


def _child(qk, key, ops, rfd, wfd, fail):
    """never returns"""
    try:
        sub = _open("crash")
        hold, q = attach(sub, qk, key)
        if fail:
            sdb = _sdb_of(sub, qk)
            state = {"n": 0}
            target, phase = fail

            def wrap(name):
                orig = getattr(sdb, name)

                def w(*pa, **kwa):
                    state["n"] += 1
                    hit = state["n"] == target
                    if hit and phase == "before":
                        os.kill(os.getpid(), signal.SIGKILL)
                    r = orig(*pa, **kwa)
                    if hit:
                        os.kill(os.getpid(), signal.SIGKILL)
                    return r
                return w
            for name in ("add", "put", "pop", "rem", "pin"):
                setattr(sdb, name, wrap(name))
        os.write(wfd, b"R")
        for op in ops:
            if not os.read(rfd, 1):
                break
            out = do_op(q, op)
            if out[0] == "raise":
                nm = out[1].encode()[:60]
                os.write(wfd, b"E" + bytes([len(nm)]) + nm)
            else:
                os.write(wfd, b"K")
        os.read(rfd, 1)   # wait for EOF / kill
    except BaseException as ex:  # setup trouble: tell the parent, it reports a harness error
        try:
            os.write(wfd, b"X")
        except Exception:
            pass
    finally:
        os._exit(0)


def run_crash(case, ctx):
    qk, key, ops = case["q"], case["key"], case["ops"]
    cls = CLSNAME[qk]
    _close_store()                      # no LMDB environment is open in this process while it forks
    if _S["root"] is None:
        setup(None)
    cdir = os.path.join(_S["root"], "hio", "db", "crash")
    shutil.rmtree(cdir, ignore_errors=True)
    fail = (case["n"], case["phase"]) if case["mode"] == "fail" else None
    r1, w1 = os.pipe()
    r2, w2 = os.pipe()
    pid = os.fork()
    if pid == 0:
        os.close(w1)
        os.close(r2)
        _child(qk, key, ops, r1, w2, fail)
    os.close(r1)
    os.close(w2)
    acked = 0
    escaped = None
    died = False
    try:
        limit = case["k"] if fail is None else len(ops)
        # release `limit` operations at once: no ping-pong (under machine load every round trip costs a scheduling delay);
        # the child still acknowledges each operation after it returned
        try:
            if limit:
                os.write(w1, b"g" * limit)
        except BrokenPipeError:
            died = True
        b = _read1(r2)
        if b != b"R":
            raise RuntimeError(f"crash child failed to set up ({b!r})")
        while acked < limit and not died:
            b = _read1(r2)
            if b == b"":
                died = True
                break
            if b == b"E":
                n = _read1(r2)[0]
                nm = b""
                while len(nm) < n:
                    nm += os.read(r2, n - len(nm))
                escaped = (acked, nm.decode())
                break
            acked += 1
        if fail is None and escaped is None:
            # asynchronous kill: release the next op, spin a case-given number of iterations, kill
            try:
                os.write(w1, b"g")
            except BrokenPipeError:
                pass
            for _ in range(case["spin"]):
                pass
    finally:
        try:
            os.kill(pid, signal.SIGKILL)
        except ProcessLookupError:
            pass
        os.waitpid(pid, 0)
        os.close(w1)
        os.close(r2)
    try:
        if escaped is not None:
            k, nm = escaped
            model = _model(qk)
            for op in ops[:k]:
                model_op(model, op)
            exp = model_op(model.copy(), ops[k])
            if not (exp[0] == "absent" and nm == "KeyError"):
                ctx.violation(f"escape:{nm}:{cls}.{ops[k][0]}",
                              f"(crash child) {cls}.{ops[k][0]}({ops[k][1:] and ops[k][1]}) raised {nm}; content before "
                              f"{model.items()}")
                ctx.count("crash_cases_abandoned_on_escape")
                return
            ctx.count("crash_cases_abandoned_on_escape")
            return
        # expected content
        m0 = _model(qk)
        for op in ops[:acked]:
            model_op(m0, op)
        m1 = m0.copy()
        if acked < len(ops):
            model_op(m1, ops[acked])
        if fail is not None and not died:
            ctx.count("crash_failpoint_not_reached")
            allowed = [m0.items()]
        elif fail is not None:
            allowed = [m0.items()] if case["phase"] == "before" else [m1.items()]
            ctx.count("crash_kills")
            ctx.count("crash_kills_failpoint_" + case["phase"])
        else:
            allowed = [m0.items(), m1.items()]
            ctx.count("crash_kills")
            ctx.count("crash_kills_async")
        sub = _open("crash")
        try:
            hold, q = attach(sub, qk, key)
            got = [idx(v) for v in q]
            sdb = _sdb_of(sub, qk)
            raw = store.raw_io_lists(sub.env, sdb.sdb)
            ctx.count("raw_durable_reads")
            rawmine = [_IDX.get(t, t) for t in (store.parse_dom(b) for b in raw.get(key.encode(), []))]
            if got not in allowed or rawmine != got:
                ctx.violation(f"crash-recovery-mismatch:{cls}:{case['mode']}",
                              f"child killed after {acked} acknowledged ops ({case['mode']}"
                              f"{'/' + case['phase'] if fail else ''}): content after reopen+sync {got}, raw durable "
                              f"{rawmine}, allowed {allowed}")
                return
            if got:
                ctx.count("crash_kills_nonempty")
            if fail is None:
                ctx.count("crash_async_saw_prefix" if got == allowed[0] else "crash_async_saw_prefix_plus_1")
            # the recovered store must keep working as the model: one more push + pull round
            mm = (m0 if got == m0.items() else m1).copy()
            for op in (["push", 3], ["pull"]):
                if step(ctx, sub, qk, key, q, mm, op) is None:
                    return
            if got:
                ctx.nontrivial([qk, "crash", case["mode"], case.get("phase"), got, [o[0] for o in ops[:acked]]])
            ctx.seen("crash_recovered_contents", [qk, got])
            ctx.sample({"case": case, "acked": acked, "recovered": got, "allowed": allowed})
        finally:
            sub.close()
    finally:
        shutil.rmtree(cdir, ignore_errors=True)
