"""C13 - HTTP message parsing does not depend on how the bytes are fragmented.

Monitor shape: metamorphic comparison of executions of the REAL parsers + ground truth from the generator.
For every generated well-formed message sequence (vf.gen_http) the bytes are fed to a fresh `Requestant` / `Respondent`
  (a) whole           -> R(whole), which must equal the generator's own description of every message (T: ground truth)
  (b) in partitions   -> R(partition) must equal R(whole) (M: the statement itself), for
      every 2-piece split (exhaustive), all 1-byte reads, random k-cuts, all cuts between a CR and its LF at once and
      random subsets of those mixed with random cuts.
R = per ended message: start-line fields, header pairs in order, body, trailers, chunk parms, chunked/length, persisted,
errored, error; plus bytes left in the buffer, the state of a message still in progress, and an escaped exception.
Violation keys name the mechanism:
  eol-precedence:lf-line-with-crlf-later     T or M fails on an input where an LF-terminated head/trailer line is followed,
                                             anywhere later in the byte string, by a CRLF, AND the tree's parseLine is observed
                                             (vf.mon.http_parse.line_probe) to pick terminators by type instead of position
  escape:<Exc>:<hio function>                an exception left parse() on a well-formed message (fed whole)
  truth:<kind>:<framing>:<field>             R(whole) differs from the description in <field>
  frag:<kind>:<framing>:<field>              R(partition) differs from R(whole), first in <field>
  stale-trailers-after-reuse                 a pipelined message without trailers reports the trailers of an earlier message
                                             of the same parser object (ground-truth half; same mechanism as in C17)
SERVER-DRIVEN mode (request sequences): the same comparison through the real `serving.Server` object - its service()
rounds run over a stub connection (vf.mon.http_server), one scripted read per round - so that requestant/responder reuse
on a kept connection is exercised: keep-alive sequences of 2-3 requests, pipelined (every 2-split of the byte string)
and sequential (each later request sent after the previous response, every 2-split of the 2nd and 3rd request, service
rounds between the pieces).  What the WSGI app saw per request must equal the description and every request must get
its response, in order.  Keys: server:truth:<field>, server:frag:<field>, server:escape:<Exc>:<function>.
BIG messages: a fixed schedule of messages with a body / single chunk larger than 64 KiB (whole, head splits, 1-byte).
"""
import random
from urllib.parse import unquote

from vf import gen_http as G
from vf.mon import http_parse as H
from vf.mon import http_server as S

ID = "C13"
LEVEL = "exploration"
TECHNIQUE = ("metamorphic comparison of real parser executions (whole feed vs every tried partition of the same bytes) "
             "plus ground truth from the message generator")
RULE = ("seeded well-formed requests/responses and pipelined sequences of 1-4 (Content-Length, chunked with extensions and "
        "trailers, close-delimited, bodiless; each message uniformly CRLF or uniformly bare-LF in head and trailer lines; "
        "hostile bodies with CR, LF, blank-line, last-chunk and start-line look-alikes; responses preceded by one or two "
        "'100 Continue' interim responses with 0-2 header lines: a fixed schedule of 72 shapes = interim count x interim "
        "headers x eol x final framing x alone/pipelined, plus about 1 random response in 6), total size <= 2 KiB quick / "
        "16 KiB thorough; each fed whole and in every 2-piece split, all-1-byte, random k-cuts and CR|LF cuts. "
        "Non-trivial = the whole feed ended every message of the sequence and at least one split inside a head and one "
        "inside a body were compared; distinct = by (kind, per message: framing, eol, version, persistence, header "
        "count>0, body has CR/LF/CRLF, chunk count, extensions?, trailers?).")
ASSUMPTIONS = [
    "well-formed means: header lines are 'Name: value' with unique names, no edge whitespace, no CR/LF inside values",
    "bare-LF style applies to start line, header lines, the blank line and trailer lines; chunk-size lines and chunk "
    "data are CRLF-terminated as in parseChunk's documented ABNF",
    "the parsers are driven as Client.serviceResponse / Server.serviceReqs drive them: append to .msg, parse() until no "
    "progress, makeParser() after each ended message; close-delimited responses end with close() then parse()",
    "persistence ground truth: 1.1 persistent unless 'Connection: close' or close-delimited; 1.0 only with 'Connection: keep-alive'",
    "an interim '100 Continue' response (status line, 0-2 header lines, blank line, same eol) is skipped by the client: the "
    "ground truth of such a message is the final response only",
    "event streams are not generated here (C15)",
]
LEVEL_TEXT = ("Every generated message sequence is parsed by the real code once whole and once per partition; the 2-piece "
              "partitions are complete for every sequence, longer partitions are sampled. Held on the sequences and "
              "partitions counted in the evidence, not a proof for all messages.")
LEVEL_NOTE = "trusted: vf.gen_http encoder and its ground-truth fields (cross-checked by its own chunk decoder), dict/list equality"
NSHARDS = {"quick": 16, "thorough": 16}
TIMEOUT_S = {"quick": 300, "thorough": 3600}
BUDGET_S = {"quick": 40, "thorough": 450}
REQUIRE = {"feeds": 20000, "two_split_partitions": 10000, "one_byte_partitions": 100, "random_partitions": 500,
           "crlf_cut_partitions": 100, "messages_ended_whole": 300, "truth_checks": 300,
           "framing:length": 40, "framing:chunked": 40, "framing:close": 10, "framing:none": 10,
           "eol:lf": 40, "eol:crlf": 40, "pipelined_sequences": 40, "cut_between_cr_and_lf": 500,
           "responses_with_interim": 72, "interim_with_headers": 30, "two_splits_inside_interim_block": 1000,
           "interim_then:length": 10, "interim_then:chunked": 10, "interim_then:close": 10,
           "server_sequences": 32, "server_feeds": 5000, "server_two_splits_of_later_requests": 3000,
           "server_sequential_feeds": 2000, "server_requests_recovered_whole": 64, "big_messages_over_64KiB": 4,
           "huge_messages_over_256KiB": 6, "huge_whole_feeds_matching_truth": 6, "huge_server_role_drives": 8}
EXHAUSTIVE = {"quick": "for every generated sequence: all partitions of its bytes into two reads",
              "thorough": "for every generated sequence: all partitions of its bytes into two reads"}

PROBE = "POST /x HTTP/1.1\nHost: h\nContent-Length: 6\n\nab\r\ncd"


def _probe_case():
    d = dict(kind="request", eol="lf", framing="length", version="1.1", method="POST", target="/x", path="/x", query="",
             fragment="", scheme="", hostname=None, port=None, headers=[["Host", "h"], ["Content-Length", "6"]],
             body="ab\r\ncd", persist=True)
    d["raw"] = G.b2s(G.encode(d))
    assert d["raw"] == PROBE
    return {"kind": "request", "origin": "design-probe", "msgs": [d], "rand": [], "req_method": "GET"}


def _plan(rng, seq, tier):
    raw = b"".join(G.s2b(d["raw"]) for d in seq)
    n = len(raw)
    rand = []
    for _ in range(6 if tier == "quick" else 12):
        rand.append(G.random_cuts(rng, n, rng.choice([2, 3, 4, 8, 16, n // 3 + 1])))
    cl = G.crlf_cuts(raw)
    for _ in range(3):
        if cl:
            sub = set(rng.sample(cl, rng.randint(1, len(cl))))
            sub |= set(G.random_cuts(rng, n, rng.randint(0, 5)))
            rand.append(sorted(sub))
    return rand


def interim_schedule():
    """the fixed (seed independent) schedule of responses preceded by 100-Continue interim responses"""
    k = 0
    for count in (1, 2):
        for nh in (0, 1, 2):
            for eol in ("crlf", "lf"):
                for framing in ("length", "chunked", "close"):
                    for pipelined in (False, True):
                        yield k, count, nh, eol, framing, pipelined
                        k += 1


def server_case(r, tier, k):
    n = 2 + k % 2
    seq = G.gen_sequence(r, "request", n=n, maxbody=40 if tier == "quick" else r.choice([40, 300]),
                         eol=["crlf", "lf", "mixed"][k % 3], persist=True if k % 4 else None)
    raw = b"".join(G.s2b(d["raw"]) for d in seq)
    return {"kind": "request", "origin": "server", "msgs": seq, "app_mode": ["length", "chunked"][(k // 2) % 2],
            "rounds_between": 1 + k % 3, "rand": [G.random_cuts(r, len(raw), c) for c in (2, 3, 5, 9)], "req_method": "GET"}


def big_case(k):
    """message with more than 64 KiB behind the head: Content-Length body / one big chunk / close-delimited"""
    r = random.Random(f"C13:big:{k}")
    kind, framing, eol = [("response", "length", "crlf"), ("request", "chunked", "crlf"), ("response", "close", "lf"),
                          ("request", "length", "lf"), ("response", "chunked", "lf"), ("request", "length", "crlf")][k % 6]
    size = [70, 100, 80, 130, 90, 200][k % 6] * 1024
    unit = G.gen_body(r, 3000) + b"\r\n0\r\n\r\nHTTP/1.1 200 OK\n\n"
    body = (unit * (size // len(unit) + 1))[:size]
    d = (G.gen_response if kind == "response" else G.gen_request)(r, framing=framing, eol=eol, version="1.1", maxbody=8,
                                                                  exts=False, trailers=True)
    d["body"] = G.b2s(body)
    if framing == "length":
        for h in d["headers"]:
            if h[0].lower() == "content-length":
                h[1] = str(len(body))
    elif framing == "chunked":
        d["chunks"] = [["%x" % len(body), [], G.b2s(body)]]
        d["parms"] = {n: v for n, v in d["last"][1]}
    d["raw"] = G.b2s(G.encode(d))
    headlen = len(d["raw"]) - len(body) if framing != "chunked" else d["raw"].index(d["body"][:64])
    n = len(d["raw"])
    return {"kind": kind, "origin": "big", "msgs": [d], "req_method": "GET", "split_limit": headlen + 40,
            "extra_splits": sorted({65536, 65537, headlen + 65536, n - 1, n - 2, n - 7} & set(range(1, n))),
            "rand": [G.random_cuts(r, n, c) for c in (2, 5)] + [list(range(70000, n, 70000))]}


HUGE = [("response", "length", "crlf", 300), ("response", "chunked", "crlf", 600), ("response", "close", "lf", 300),
        ("request", "length", "crlf", 600), ("request", "chunked", "lf", 300), ("response", "length", "lf", 600)]


def huge_case(k):
    """client-role and server-role messages of ~300 / ~600 KiB (more than 4 x MAX_LINE_SIZE buffered behind the head).
    The bulk of the body has no CR/LF at all (hio's line search is quadratic in the buffered size); the hostile part is a
    short prefix and suffix."""
    kind, framing, eol, kib = HUGE[k]
    r = random.Random(f"C13:huge:{k}")
    size = kib * 1024 + r.randint(1, 999)
    bulk = bytes(range(0x20, 0x7f)) + b"\x00\xff\x80\t"
    body = G.gen_body(r, 1500) + (bulk * (size // len(bulk) + 1))[:size] + b"\r\n0\r\n\r\nHTTP/1.1 200 OK\r\n\r\n" + G.gen_body(r, 200)
    d = (G.gen_response if kind == "response" else G.gen_request)(r, framing=framing, eol=eol, version="1.1", maxbody=8,
                                                                  exts=True, trailers=True, persist=(framing != "close"))
    d["body"] = G.b2s(body)
    if framing == "length":
        for h in d["headers"]:
            if h[0].lower() == "content-length":
                h[1] = str(len(body))
    elif framing == "chunked":
        exts = [["big", "1"], ["x", None]]
        d["chunks"] = [[G.size_token(r, len(body)), exts, G.b2s(body)]]
        d["trailers"] = d["trailers"] or [["X-Sum", "9"]]
        d["parms"] = {n: v for n, v in exts + d["last"][1]}
    d["raw"] = G.b2s(G.encode(d))
    raw = d["raw"]
    n = len(raw)
    headlen = raw.index(d["body"][:64])
    first = raw.index("\n") + 1
    reads64 = list(range(65536, n, 65536))
    return {"kind": kind, "origin": "big", "huge": True, "msgs": [d], "req_method": "GET", "split_limit": headlen + 40,
            "one_byte_limit": headlen + 40,
            "extra_splits": sorted({first, n // 2, 65536, 262144, 262145, headlen + 262144, headlen + 262145, n - 1, n - 7}
                                   & set(range(1, n))),
            "rand": [reads64, [first, n // 2], G.random_cuts(r, n, 2), G.random_cuts(r, n, 5), list(range(300000, n, 300000))]}


def cases(tier, seed, shard, nshards):
    if shard == 0:
        yield _probe_case()
    for k in range(len(HUGE)):
        if (k + 4) % nshards == shard:
            yield huge_case(k)
    for k in range(32):     # fixed sample of server-driven keep-alive sequences
        if k % nshards == shard:
            yield server_case(random.Random(f"C13:server:{k}"), tier, k)
    for k in range(4 if tier == "quick" else 6):
        if k % nshards == shard:
            yield big_case(k)
    if tier != "quick":     # seeded server-driven sequences (before the bulk, so a time-budget stop cannot skip them)
        srng = random.Random(f"{seed}:C13:server:{shard}")
        for j in range(12):
            yield server_case(srng, tier, srng.randrange(1000))
    for k, count, nh, eol, framing, pipelined in interim_schedule():
        if k % nshards != shard:
            continue
        r = random.Random(f"C13:interim:{k}")
        o = dict(eol=eol, maxbody=40, interim=count, interim_headers=nh, req_method="GET")
        seq = []
        if pipelined:   # a persistent self-delimiting response first, the last one also has an interim response
            seq.append(G.gen_response(r, framing=r.choice(["length", "chunked"]), version="1.1", persist=True,
                                      **dict(o, interim=r.choice([0, 1]))))
        seq.append(G.gen_response(r, framing=framing, version="1.1", **o))
        yield {"kind": "response", "origin": "interim-schedule", "msgs": seq, "rand": _plan(r, seq, tier), "req_method": "GET"}
    rng = random.Random(f"{seed}:C13:{shard}")
    ncases = (144 if tier == "quick" else 3200) // nshards * 4
    maxtotal = 2048 if tier == "quick" else 16384
    for i in range(ncases):
        kind = rng.choice(["request", "response"])
        r = rng.random()
        if tier == "quick":
            maxbody = 24 if r < 0.55 else (120 if r < 0.9 else 900)
        else:
            maxbody = 24 if r < 0.5 else (200 if r < 0.85 else (2000 if r < 0.97 else 12000))
        eol = rng.choice(["crlf", "crlf", "lf", "lf", "mixed"])
        seq = G.gen_sequence(rng, kind, maxtotal=maxtotal, maxbody=maxbody, eol=eol, interim="random")
        yield {"kind": kind, "origin": "gen", "msgs": seq, "rand": _plan(rng, seq, tier),
               "req_method": seq[0].get("req_method", "GET")}


# --------------------------------------------------------------------------
# oracles
# --------------------------------------------------------------------------
def expected(desc):
    e = {}
    if desc["kind"] == "request":
        for k in ("method", "path", "query", "fragment", "scheme", "hostname", "port"):
            e[k] = desc[k]
        e["url"] = desc["target"]
    else:
        e["status"] = desc["status"]
        e["reason"] = desc["reason"]
    e["version"] = [1, 1] if desc["version"] == "1.1" else [1, 0]
    e["headers"] = [list(h) for h in desc["headers"]]
    e["body"] = desc["body"]
    e["persisted"] = desc["persist"]
    e["errored"] = False
    e["error"] = None
    return e


ORDER = ["method", "url", "path", "query", "fragment", "scheme", "hostname", "port", "status", "reason", "version",
         "headers", "body", "trails", "persisted", "errored", "error"]


def truth_diff(snap, desc, first):
    """first field of the snapshot that contradicts the description, or None"""
    e = expected(desc)
    for k in ORDER:
        if k == "trails":
            want = [list(t) for t in desc.get("trailers", [])] if desc["framing"] == "chunked" else []
            if (snap["trails"] or []) != want:   # judged per message, also on a reused parser
                return k, snap["trails"], want
            continue
        if k in e and snap.get(k) != e[k]:
            return k, snap.get(k), e[k]
    return None


def frag_diff(a, b):
    """first difference between two feed results (comparable form) -> (msg index or None, field)"""
    if a["raised"] != b["raised"] and (a["raised"] is None or b["raised"] is None or a["raised"][:2] != b["raised"][:2]):
        return None, "raised"
    for i, (x, y) in enumerate(zip(a["msgs"], b["msgs"])):
        if x != y:
            for k in ORDER + ["parms", "chunked", "length"]:
                if x.get(k) != y.get(k):
                    return i, k
            return i, "?"
    if len(a["msgs"]) != len(b["msgs"]):
        return min(len(a["msgs"]), len(b["msgs"])), "ended"
    for k in ("left", "open"):
        if a[k] != b[k]:
            return None, k
    return None


def precedence_trigger(descs, raw):
    """an LF-terminated head line that has a CRLF somewhere later in the byte string"""
    pos = 0
    for d in descs:
        if d["eol"] == "lf":
            first_lf = raw.find(b"\n", pos)
            if first_lf >= 0 and raw.find(b"\r\n", first_lf) >= 0:
                return True
        pos += len(d["raw"])
    return False


PRECEDENCE_KEY = "eol-precedence:lf-line-with-crlf-later"


def body_class(d):
    b = d["body"]
    return [("\r\n" in b), ("\r" in b.replace("\r\n", "")), ("\n" in b.replace("\r\n", ""))]


def env_diff(call, d):
    """first thing the WSGI app saw that contradicts the request description, or None"""
    want = [("REQUEST_METHOD", d["method"]), ("QUERY_STRING", d["query"]), ("SERVER_PROTOCOL", "HTTP/" + d["version"]),
            ("body", d["body"]), ("CONTENT_LENGTH", str(len(d["body"])))]
    for k, v in want:
        if call.get(k) != v:
            return k, call.get(k), v
    if unquote(call.get("PATH_INFO", "")) != d["path"]:
        return "PATH_INFO", call.get("PATH_INFO"), d["path"]
    for n, v in d["headers"]:
        k = "HTTP_" + n.replace("-", "_").upper()
        if call.get(k) != v:
            return k, call.get(k), v
    return None


def run_server_case(case, ctx):
    descs = case["msgs"]
    raws = [G.s2b(d["raw"]) for d in descs]
    raw = b"".join(raws)
    n = len(raw)
    mode, rb = case["app_mode"], case["rounds_between"]
    reported = set()

    def report(key, msg):
        if key not in reported:
            reported.add(key)
            ctx.violation(key, msg + f"; app_mode={mode} rounds_between={rb} bytes={raw[:300]!r}")

    def comparable(res):
        return {"calls": res["calls"], "markers": res["markers"], "closed": res["closed"], "left": res["left"],
                "raised": res["raised"][:2] if res["raised"] else None}

    ctx.count("server_sequences")
    whole = S.drive([raw], mode, rb)
    ctx.count("server_feeds")
    W = comparable(whole)
    ok = True
    if whole["raised"]:
        ok = False
        report(f"server:escape:{whole['raised'][0]}:{whole['raised'][1]}", f"Server.service() raised {whole['raised']} (one read)")
    else:
        for i, d in enumerate(descs):
            if i >= len(whole["calls"]):
                ok = False
                report("server:truth:request-not-delivered", f"request {i} of {len(descs)} never reached the app (one read); "
                       f"left={whole['left'][:60]!r} closed={whole['closed']}")
                break
            ed = env_diff(whole["calls"][i], d)
            if ed:
                ok = False
                report(f"server:truth:{ed[0] if not ed[0].startswith('HTTP_') else 'header'}",
                       f"request {i} (one read): app saw {ed[0]}={ed[1]!r}, generated {ed[2]!r}")
                break
            ctx.count("server_requests_recovered_whole")
        if ok and (len(whole["calls"]) != len(descs) or whole["markers"] != list(range(len(descs)))):
            ok = False
            report("server:truth:responses", f"{len(descs)} requests in one read: app calls={len(whole['calls'])} "
                   f"responses written={whole['markers']}")

    def attempt(schedule, family, what):
        res = S.drive(schedule, mode, rb)
        ctx.count("server_feeds")
        ctx.count(family)
        ctx.count("server_service_rounds", res["rounds"])
        c = comparable(res)
        if c != W:
            field = next(k for k in ("raised", "calls", "markers", "closed", "left") if c[k] != W[k])
            shown = (len(c["calls"]), len(W["calls"])) if field == "calls" and len(c["calls"]) != len(W["calls"]) else (c[field], W[field])
            report(f"server:escape:{res['raised'][0]}:{res['raised'][1]}" if (field == "raised" and res["raised"]) else f"server:frag:{field}",
                   f"{family} {what}: {field} is {shown[0]!r} but {shown[1]!r} when the sequence arrives in one read "
                   f"(app calls {len(c['calls'])}/{len(descs)}, responses {c['markers']}, closed={c['closed']}, unread={c['left'][:60]!r})")

    # pipelined: every 2-split of the whole byte string (so every 2-split of the 2nd and 3rd request too)
    first = len(raws[0])
    for c in range(1, n):
        attempt([raw[:c], raw[c:]], "server_pipelined_feeds", f"cut={c}")
        if c > first:
            ctx.count("server_two_splits_of_later_requests")
    attempt([raw[i:i + 1] for i in range(n)], "server_pipelined_feeds", "1-byte reads")
    for cuts in case["rand"]:
        if cuts:
            attempt(G.pieces(raw, cuts), "server_pipelined_feeds", f"cuts={cuts}")
    # sequential keep-alive: request i is sent after response i-1 was written; every 2-split of request i >= 1
    for i in range(1, len(raws)):
        pre = []
        for j in range(i):
            pre += [raws[j], ("await", j + 1)]
        post = []
        for j in range(i + 1, len(raws)):
            post += [("await", j), raws[j]]
        for c in range(1, len(raws[i])):
            attempt(pre + [raws[i][:c], raws[i][c:]] + post, "server_sequential_feeds", f"request {i} cut={c}")
            ctx.count("server_two_splits_of_later_requests")
    sig = ["server", mode, rb, [[d["framing"], d["eol"], d["version"], d["persist"]] for d in descs]]
    ctx.seen("sequence_shapes", sig)
    if ok:
        ctx.nontrivial(sig)
    if not reported:
        ctx.sample({"server_driven": True, "bytes": raw[:300], "requests": len(descs), "app_saw": whole["calls"][:1],
                    "feeds": 2 * n})


def huge_server_role(case, ctx, d, raw, report):
    """the same huge request through the real Server object (stub connection): whole / start line then rest / halves / 64 KiB reads"""
    n = len(raw)
    first = raw.index(b"\n") + 1
    base = None
    for name, cuts in (("whole", []), ("start-line-then-rest", [first]), ("halves", [n // 2]), ("64KiB-reads", list(range(65536, n, 65536)))):
        res = S.drive(G.pieces(raw, cuts), "length", 1)
        ctx.count("huge_server_role_drives")
        if res["raised"]:
            report(f"server:escape:{res['raised'][0]}:{res['raised'][1]}", f"huge request, {name}: Server.service() raised {res['raised']}")
            continue
        ed = env_diff(res["calls"][0], d) if res["calls"] else ("request-not-delivered", None, None)
        if ed or res["markers"] != [0]:
            shown = (ed[0], (ed[1] or "")[:60], (ed[2] or "")[:60]) if ed else ("responses", res["markers"], [0])
            report(f"server:truth:{shown[0] if not shown[0].startswith('HTTP_') else 'header'}",
                   f"huge request ({n} bytes), {name}: app saw {shown[0]}={shown[1]!r}, expected {shown[2]!r}; "
                   f"calls={len(res['calls'])} responses={res['markers']} closed={res['closed']} unread={len(res['left'])}")
        cmp_ = (res["calls"], res["markers"], res["closed"], res["left"])
        if base is None:
            base = cmp_
        elif cmp_ != base:
            report("server:frag:calls", f"huge request ({n} bytes), {name}: differs from the one-read delivery "
                                        f"(calls {len(res['calls'])} vs {len(base[0])}, responses {res['markers']} vs {base[1]})")


def run_case(case, ctx):
    if case["origin"] == "server":
        return run_server_case(case, ctx)
    kind = case["kind"]
    descs = case["msgs"]
    raw = b"".join(G.s2b(d["raw"]) for d in descs)
    n = len(raw)
    close = kind == "response" and descs[-1]["framing"] == "close"
    method = case.get("req_method", "GET")
    # the label is used only when the tree's line splitter is observed to choose terminators by type
    trig = H.line_probe()["precedence"] and precedence_trigger(descs, raw)
    ctx.count("line_splitter_probe:by-type" if H.line_probe()["precedence"] else "line_splitter_probe:by-position")
    reported = set()

    def report(key, msg):
        if key not in reported:
            reported.add(key)
            ctx.violation(key, msg)

    def fr(i):
        return descs[min(i, len(descs) - 1)]["framing"] if i is not None else descs[-1]["framing"]

    # ---- (a) whole feed + ground truth ------------------------------------
    whole = H.feed(kind, [raw], close, method)
    ctx.count("feeds")
    ctx.count("bytes_fed", n)
    W = H.comparable(whole)
    ctx.count("messages_ended_whole", len(whole["msgs"]))
    if len(descs) > 1:
        ctx.count("pipelined_sequences")
    for d in descs:
        ctx.count("framing:" + d["framing"])
        ctx.count("eol:" + d["eol"])
        if d["framing"] == "chunked":
            ctx.count("chunked_with_extensions" if d["parms"] else "chunked_without_extensions")
            ctx.count("chunked_with_trailers" if d["trailers"] else "chunked_without_trailers")
        if d.get("interim"):
            ctx.count("responses_with_interim")
            ctx.count("interim_then:" + d["framing"])
            if any(hs for _, hs in d["interim"]):
                ctx.count("interim_with_headers")
            if len(d["interim"]) > 1:
                ctx.count("responses_with_two_interim")
    # every offset strictly inside an interim block is a 2-split position below (exhaustive)
    pos = 0
    for d in descs:
        ib = len(G.interim_bytes(d)) if d["kind"] == "response" else 0
        ctx.count("two_splits_inside_interim_block", max(0, min(ib, n - 1 - pos)))
        pos += len(d["raw"])
    truth_ok = True
    if whole["raised"]:
        truth_ok = False
        t, f, m = whole["raised"]
        report(PRECEDENCE_KEY if trig else f"escape:{t}:{f}",
               f"whole feed of a well-formed {kind} sequence raised {t} in {f}: {m}; bytes={raw[:300]!r}")
    else:
        for i, d in enumerate(descs):
            ctx.count("truth_checks")
            if i >= len(whole["msgs"]):
                truth_ok = False
                report(PRECEDENCE_KEY if trig else f"truth:{kind}:{d['framing']}:not-ended",
                       f"message {i} of {len(descs)} never ended when fed whole (left={whole['left'][:80]!r} "
                       f"open={whole['open']}); bytes={raw[:300]!r}")
                break
            td = truth_diff(whole["msgs"][i], d, i == 0)
            if td and td[0] == "trails" and not td[2] and td[1] in [x.get("trailers") for x in descs[:i]]:
                truth_ok = False
                report("stale-trailers-after-reuse",
                       f"message {i} ({d['framing']}, no trailers) on the reused {'Respondent' if kind == 'response' else 'Requestant'} "
                       f"reports .trails={td[1]}: the trailers of an earlier message of the sequence (in every partition alike)")
                break
            if td:
                truth_ok = False
                report(PRECEDENCE_KEY if trig else f"truth:{kind}:{d['framing']}:{td[0]}",
                       f"message {i} fed whole: {td[0]} parsed as {td[1]!r}, generated as {td[2]!r}; bytes={raw[:300]!r}")
                break
            p = whole["msgs"][i].get("parms") or {}
            if d["framing"] == "chunked":
                ctx.count("parms_as_generated" if p == {k: v for k, v in d["parms"].items()} else "parms_differ_observation")
        if truth_ok and (len(whole["msgs"]) != len(descs) or whole["left"] or whole["open"]):
            truth_ok = False
            report(PRECEDENCE_KEY if trig else f"truth:{kind}:{descs[-1]['framing']}:leftover",
                   f"after the whole feed: {len(whole['msgs'])} messages for {len(descs)} sent, left={whole['left'][:80]!r} "
                   f"open={whole['open']}")

    # ---- (b) partitions ------------------------------------------------------
    def try_partition(cuts, family):
        res = H.feed(kind, G.pieces(raw, cuts), close, method)
        ctx.count("feeds")
        ctx.count(family)
        ctx.count("parse_calls", res["parses"])
        fd = frag_diff(W, H.comparable(res))
        if fd:
            i, field = fd
            a = whole["msgs"][i].get(field) if (i is not None and i < len(whole["msgs"])) else whole.get(field)
            r2 = H.comparable(res)
            b = r2["msgs"][i].get(field) if (i is not None and i < len(r2["msgs"])) else r2.get(field)
            if field == "ended":
                a, b = len(whole["msgs"]), len(r2["msgs"])
            report(PRECEDENCE_KEY if trig else f"frag:{kind}:{fr(i)}:{field}",
                   f"{family} cuts={cuts[:12]}{'...' if len(cuts) > 12 else ''}: {field} of message {i} is {b!r} but "
                   f"{a!r} when fed whole; raised whole={whole['raised']} split={res['raised']}; bytes={raw[:300]!r}")
            return False
        return True

    crlf = G.crlf_cuts(raw)
    cs = set(crlf)
    ctx.count("cut_between_cr_and_lf", len(crlf))
    limit = case.get("split_limit")     # big messages: two-splits through the head and at listed offsets only
    if limit:
        ctx.count("huge_messages_over_256KiB" if case.get("huge") else "big_messages_over_64KiB")
        if case.get("huge") and truth_ok:
            ctx.count("huge_whole_feeds_matching_truth")
    for c in (range(1, n) if not limit else sorted(set(range(1, min(n, limit))) | set(case["extra_splits"]))):
        try_partition([c], "two_split_partitions")
    obl = case.get("one_byte_limit")   # huge messages: 1-byte reads through the head, then 64 KiB reads
    if obl:
        try_partition(list(range(1, min(n, obl))) + list(range(obl + 65536, n, 65536)), "one_byte_partitions")
        if kind == "request":
            huge_server_role(case, ctx, descs[0], raw, report)
    elif n > 1:
        try_partition(G.all_one_byte(n), "one_byte_partitions")
    if crlf:
        try_partition(crlf, "crlf_cut_partitions")
    for cuts in case["rand"]:
        if cuts:
            try_partition(cuts, "crlf_cut_partitions" if cs.issuperset(cuts) else "random_partitions")

    sig = [kind, [[d["framing"], d["eol"], d["version"], d["persist"], len(d["headers"]) > 1, body_class(d),
                   len(d.get("chunks", [])), bool(d.get("parms")), bool(d.get("trailers")),
                   [len(hs) for _, hs in d.get("interim") or []]] for d in descs]]
    ctx.seen("sequence_shapes", sig)
    if truth_ok and n > 1:
        ctx.nontrivial(sig)
    if case["origin"] == "design-probe" or (len(descs) > 1 and not reported):
        ctx.sample({"bytes": raw[:400], "messages": len(descs), "parsed_whole": whole["msgs"][:1],
                    "partitions_compared": n + len(case["rand"]), "violations": sorted(reported)})
