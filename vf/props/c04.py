"""C04 - nesting doers inside a tock-0 DoDoer is observationally transparent.

Monitor shape: metamorphic comparison of two executions of the real code.  A flat
program P (leaves listed directly in the Doist) and regroupings N(P) (random runs
of consecutive siblings wrapped, recursively, in DoDoer(tock=0, always=False)) are
run with fresh doer instances; both traces are projected onto the leaves and
compared on the four aspects the statement names:
  enter order | the (leaf, tyme) recur sequence | completion cycle + done flags | forced-exit order
"""
import copy
import random

from vf import sched, gen_sched
from vf.models import cycle

ID = "C04"
LEVEL = "exploration"
TECHNIQUE = "metamorphic/differential comparison of real executions (flat vs regrouped under tock-0 DoDoers), leaf-projected traces"
RULE = ("random flat programs (<= 8 leaves of 5 kinds, per-step yields incl. 0/None/fractions/multiples of tock, completion "
        "or limit) x 3 (quick) / 5 (thorough) random regroupings into nested tock-0 DoDoers (depth <= 3, singleton groups and "
        "groups whose members all finish at enter included). Non-trivial = >= 3 leaves, >= 3 cycles, >= 1 group of >= 2 "
        "members; distinct = by (leaf scripts, grouping shape, tock, start, limit).")
LEVEL_TEXT = ("Each regrouping is an independent real execution compared event-by-event (projected on leaves) with the flat "
              "execution of the same leaf scripts. Held on the pairs observed within the stated bounds.")
LEVEL_NOTE = "trusted: the trace recorder in vf/sched.py; the classification of one known mechanism uses vf/models/cycle.py"
ASSUMPTIONS = ["runs end by completion or limit only (the statement's scope)", "dyadic numbers so tymes compare exactly"]
NSHARDS = {"quick": 8, "thorough": 16}
REQUIRE = {"negative_tock_pairs_compared": 200, "rehomed_pairs_compared": 800, "nondyadic_pairs_compared": 300, "pairs_compared": 2000, "leaf_recur_steps_compared": 20000, "forced_exit_orders_compared": 300,
           "groups_depth2plus": 100}


def regroup(rng, nodes, ids, depth):
    """wrap random runs of consecutive siblings into tock-0 DoDoers, recursively"""
    out = []
    i = 0
    while i < len(nodes):
        if depth > 0 and rng.random() < 0.45:
            m = rng.randint(1, min(4, len(nodes) - i))
            members = regroup(rng, nodes[i:i + m], ids, depth - 1)
            out.append({"id": ids.group(), "kind": "dodoer", "tock": 0.0, "always": False, "doers": members})
            i += m
        else:
            out.append(nodes[i])
            i += 1
    return out


def cases(tier, seed, shard, nshards):
    rng = random.Random(f"{seed}:C04:{shard}")
    n = (2000 if tier == "quick" else 30000) // nshards
    k = 3 if tier == "quick" else 5
    for _ in range(n):
        nondy = rng.random() < 0.2
        flat = gen_sched.gen_prog(rng, dyadic=not nondy, nmax=8, depth=0, group_p=0.0,
                                  leaf_kw={"enter_finish_p": rng.choice([0.05, 0.3])})
        if nondy:
            # non-dyadic floats: two real executions do the same float operations, so they must still agree exactly.
            # Only strictly positive yields here: the recorded asap-inside-a-DoDoer finding is classified with an
            # exact-rational model, which cannot be trusted to classify next to float ties.
            pos = [0.1, 0.07, 1 / 3, 0.7, 0.25, 1.1, 0.2, 0.3]
            for lf in gen_sched.leaves_of(flat["doers"]):
                lf["ys"] = [y if y else rng.choice(pos) for y in (lf.get("ys") or [])] or [rng.choice(pos)]
        if not nondy and rng.random() < 0.12:
            # negative yielded tocks (dyadic): whatever a flat Doist makes of them, grouping must not change it.  No 0/None
            # yields here, so the recorded asap-inside-a-DoDoer finding cannot be involved and no model is consulted.
            flat["negative"] = True
            for lf in gen_sched.leaves_of(flat["doers"]):
                ys = [y if y else rng.choice([0.25, 0.5, 1.0, 2.0]) for y in (lf.get("ys") or [])] or [rng.choice([0.5, 1.0])]
                if rng.random() < 0.6:
                    ys[rng.randrange(len(ys))] = rng.choice([-1.0, -0.25, -2.0, -0.5])
                lf["ys"] = ys
        flat["rehome_tyme"] = rng.choice([None, None, 0.0, 5.0, 2.5]) if not nondy else rng.choice([None, 0.0, 2.7])
        nested = []
        for _ in range(k):
            ids = gen_sched.Ids()
            ids.n = 100
            p = copy.deepcopy(flat)
            p["doers"] = regroup(rng, p["doers"], ids, 3)
            if any(d["kind"] == "dodoer" for d in p["doers"]):
                nested.append(p)
        if nested:
            yield {"flat": flat, "nested": nested}


def project(run, leaf_ids):
    enters, recurs, exits, forced = [], [], [], []
    ncyc = 0
    for kind, did, t, info in run.trace:
        if kind == "cycle":
            ncyc += 1
        if did not in leaf_ids:
            continue
        if kind == "enter":
            enters.append(did)
        elif kind == "recur":
            recurs.append((did, info["sent"]))
        elif kind == "cease":
            forced.append(did)
        elif kind == "exit":
            exits.append(did)
    flags = {i: run.done_of(i) for i in leaf_ids}
    return {"enters": enters, "recurs": recurs, "forced": forced, "exits": exits, "ncyc": ncyc,
            "done": run.doist.done, "flags": flags, "result": run.result}


def depth_of(nodes):
    d = 0
    for n in nodes:
        if n["kind"] == "dodoer":
            d = max(d, 1 + depth_of(n["doers"]))
    return d


def model_recurs(prog, asap, leaf_ids):
    m = cycle.Model(prog, asap, True).run()
    return [(i, float(t)) for (k, i, t) in m.recurs if i in leaf_ids], m


def run_case(case, ctx):
    flat = case["flat"]
    leaf_ids = {lf["id"] for lf in gen_sched.leaves_of(flat["doers"])}
    modelled = flat.get("dyadic", True) and not flat.get("negative")
    if modelled:
        mflat = cycle.Model(flat, "next", True).run()
        if mflat.done == "runaway":
            ctx.count("model_runaway_skipped")
            return
        budget = mflat.ncycles * 2 + 20
    else:
        budget = sched.cycle_budget(flat)
    rf = sched.execute(flat, max_cycles=budget)
    pf = project(rf, leaf_ids)
    if pf["result"][0] != "return":
        ctx.violation("flat-run-did-not-return", f"{pf['result']}", trace=sched.compact(rf))
        return
    for ni, nested in enumerate(case["nested"]):
        if ni:
            ctx.evaluations += 1   # every (flat, regrouping) pair is one evaluated case
        rn = sched.execute(nested, max_cycles=budget)
        pn = project(rn, leaf_ids)
        ctx.count("pairs_compared")
        if not flat.get("dyadic", True):
            ctx.count("nondyadic_pairs_compared")
        if flat.get("negative"):
            ctx.count("negative_tock_pairs_compared")
        ctx.count("leaf_recur_steps_compared", len(pf["recurs"]))
        if pf["forced"]:
            ctx.count("forced_exit_orders_compared")
        d = depth_of(nested["doers"])
        if d >= 2:
            ctx.count("groups_depth2plus")
        ctx.seen("grouping_shapes", gen_sched.shape_sig(nested["doers"]))
        bad = None
        if pn["result"][0] != "return":
            bad = ("result", f"nested run ended with {pn['result']}")
        elif pn["enters"] != pf["enters"]:
            bad = ("enter-order", f"flat {pf['enters']} nested {pn['enters']}")
        elif pn["recurs"] != pf["recurs"]:
            i = next((j for j, (a, b) in enumerate(zip(pf["recurs"], pn["recurs"])) if a != b),
                     min(len(pf["recurs"]), len(pn["recurs"])))
            bad = ("recurs", f"first difference at leaf step #{i}: flat {pf['recurs'][i:i+3]} nested {pn['recurs'][i:i+3]}")
        elif pn["ncyc"] != pf["ncyc"] or pn["done"] != pf["done"]:
            bad = ("completion", f"flat cycles={pf['ncyc']} done={pf['done']}; nested cycles={pn['ncyc']} done={pn['done']}")
        elif pn["flags"] != pf["flags"]:
            bad = ("done-flags", f"flat {pf['flags']} nested {pn['flags']}")
        elif pn["forced"] != pf["forced"] or pn["exits"] != pf["exits"]:
            bad = ("forced-exit-order", f"flat forced={pf['forced']} exits={pf['exits']}; nested forced={pn['forced']} exits={pn['exits']}")
        if bad:
            key = "nesting-not-transparent:" + bad[0]
            if bad[0] in ("recurs", "completion", "done-flags", "forced-exit-order") and modelled:
                # known mechanism: inside a tock-0 DoDoer an asap re-run is stored as due = current tyme
                # (tyme + DoDoer.tock) instead of the next cycle's tyme, so a later positive tock is counted from
                # one cycle too early.  Recognised by the nested run matching the literal "own tock" model exactly
                # while the flat run matches the documented model.
                own, _ = model_recurs(nested, "own", leaf_ids)
                nxt, _ = model_recurs(flat, "next", leaf_ids)
                if pn["recurs"] == own and pf["recurs"] == nxt and own != nxt:
                    key = "asap-inside-tock0-dodoer-due-not-advanced"
            ctx.violation(key, bad[1], case={"flat": flat, "nested": [nested]},
                          trace=["FLAT"] + sched.compact(rf, 150) + ["NESTED"] + sched.compact(rn, 200))
            continue
        # the same doer objects re-homed under a NEW Doist that starts at another tyme: still transparent
        if flat.get("rehome_tyme") is not None and pf["result"][0] == "return":
            f2 = dict(flat, tyme=flat["rehome_tyme"], do_args=False)
            n2 = dict(nested, tyme=flat["rehome_tyme"], do_args=False)
            rf2 = sched.execute(f2, max_cycles=budget, reuse=rf if ni == 0 else sched.execute(flat, max_cycles=budget))
            rn2 = sched.execute(n2, max_cycles=budget, reuse=rn)
            pf2, pn2 = project(rf2, leaf_ids), project(rn2, leaf_ids)
            ctx.count("rehomed_pairs_compared")
            diff = next((k for k in ("result", "enters", "recurs", "ncyc", "done", "flags", "forced", "exits")
                         if pf2[k] != pn2[k]), None)
            if diff:
                key = "nesting-not-transparent:after-rehoming-under-new-doist:" + diff
                own, _ = model_recurs(n2, "own", leaf_ids) if modelled else (None, None)
                nxt, _ = model_recurs(f2, "next", leaf_ids) if modelled else (None, None)
                if own is not None and pn2["recurs"] == own and pf2["recurs"] == nxt and own != nxt:
                    key = "asap-inside-tock0-dodoer-due-not-advanced"
                ctx.violation(key, f"second run from tyme {flat['rehome_tyme']}: flat {str(pf2[diff])[:300]} nested {str(pn2[diff])[:300]}",
                              case={"flat": flat, "nested": [nested]},
                              trace=["FLAT2"] + sched.compact(rf2, 120) + ["NESTED2"] + sched.compact(rn2, 160))
                continue
        nl = len(leaf_ids)
        if nl >= 3 and pf["ncyc"] >= 3 and any(len(g["doers"]) >= 2 for g in gen_sched.groups_of(nested["doers"])):
            ctx.nontrivial([[(lf["kind"], lf.get("ys"), lf.get("end"), lf.get("enter")) for lf in gen_sched.leaves_of(flat["doers"])],
                            gen_sched.shape_sig(nested["doers"]), flat["tock"], flat["tyme"], flat["limit"]])
            ctx.sample({"flat_leaves": [lf["id"] for lf in gen_sched.leaves_of(flat["doers"])],
                        "grouping": gen_sched.shape_sig(nested["doers"]), "limit": flat["limit"], "tock": flat["tock"],
                        "cycles": pf["ncyc"], "leaf_recurs_head": pf["recurs"][:12], "forced": pf["forced"]})
