"""C21 - memo transmission loses no gram under transport back-pressure.

Monitor shape: lock-step reference model + invariant at a hook.

A real `Memoer` gets a queue of grams with unique contents and a transport `send()` that follows a
script: accept k bytes of what is offered (0 = would-block, partial, all) or raise one of the errnos
the tree treats as "destination unreachable".  The harness then only calls the public service
methods.  Two observers:

  M  (reference model, in send()): the bytes the transport ACCEPTS must be, in order, exactly the
     queued grams: each accepted chunk continues the current gram at the current offset and goes
     to that gram's destination.  A gram (or its remainder) may be skipped only if a send that
     offered it raised an unreachable errno.  Anything else is lost / duplicated / reordered /
     misdirected bytes.
  H  (hook on Memoer._serviceOnceTxGrams, class level, evaluated in a finally after every call):
     conservation - what the model says is still owed must be exactly txbs-remainder ++ txgs;
     a gram that is in neither can never be sent.
  P  (bounded progress): once the script is exhausted every send accepts everything; after at most
     2*grams+5 further service calls txgs and txbs must be empty and the model at the end.  When they
     are not, the state is inspected: a remainder parked in txbs that no service call touches any
     more can never be sent.

  D  (dead peers): a destination can turn unreachable for good after its gram's first send(s)
     accepted nothing or only a part (remainder parked in txbs): from then on every send to it
     raises the errno, also during the progress phase.  The gram in flight may be dropped; every
     gram queued behind it for a live destination must still be sent within the bound, and no
     single service call may keep calling send() without end.

  K  (socket level): real udp / uxd PeerMemoer whose socket object is replaced by a proxy with a
     scripted sendto(): EAGAIN, EWOULDBLOCK, ENOBUFS, ENOMEM (all four mean "would block, retry":
     the peer's send() must report 0 and the gram must survive), unreachable errnos (may drop),
     a truncated real sendto (partial) or the real sendto.  Same model, same bound.

Also a few runs over real sockets (UXD datagram peers with a small send buffer so the kernel really
reports would-block; UDP loopback incl. an unreachable port), same model on what sendto accepted.
"""
import errno
import hashlib
import itertools
import os
import random
import shutil
import socket
import tempfile

from hio.core.memo import memoing
from hio.core.memo.memoing import Memoer

from vf.mon import memoshim as ms

ID = "C21"
LEVEL = "fault_enumeration"
TECHNIQUE = ("scripted-transport fault enumeration with a lock-step model of the accepted byte stream, a conservation "
             "invariant hooked on _serviceOnceTxGrams and a bounded-progress check; plus real UXD/UDP sockets")
RULE = ("a case = a queue of 1-8 grams with unique contents to 1-4 destinations x a script of per-send outcomes (accept "
        "0 / 1 / half / all-1 / all / k bytes, or an unreachable errno) x the service API used (Once, greedy, AllTx, "
        "serviceAll, serviceLocal). Exhaustive: every script of length <= 5 (quick) / <= 6 (thorough) over "
        "{0,1,half,all-1,all} on a 3-gram 2-destination queue with two APIs; every script of length <= 3 (quick) / <= 4 "
        "(thorough) over those 5 outcomes + the 10 unreachable errnos; dead-peer cases: every sequence of length <= 2 "
        "(quick) / <= 3 (thorough) of zero/partial acceptances of one gram followed by a PERMANENT unreachable errno for "
        "its destination (each of the 10 errnos), with grams for live destinations queued behind, x 6 service APIs x 2 "
        "queue positions; random longer scripts with late-queued grams and dead peers. "
        "Non-trivial = the script contains at least one partial or zero acceptance or errno; distinct = by queue shape, "
        "script and API.")
ASSUMPTIONS = [
    "a transport that accepts k bytes has taken the first k bytes of what it was offered",
    "would-block is reported as an accepted count of 0 (what udping/uxding.Peer.send return for EAGAIN/ENOBUFS)",
    "unreachable = the ten errnos _serviceOnceTxGrams lists; other errnos are outside the statement and not injected",
    "once the script ends the transport accepts everything (needed to state 'eventually' as a bound)",
]
NSHARDS = {"quick": 8, "thorough": 16}
TIMEOUT_S = {"quick": 240, "thorough": 1500}
REQUIRE = {"socket_script_runs": 150, "sock_inject_EAGAIN": 20, "sock_inject_EWOULDBLOCK": 20, "sock_inject_ENOBUFS": 20,
           "sock_inject_ENOMEM": 20, "sock_wouldblock_on_retry": 20, "unreachable_after_zero_or_partial": 1500, "dead_peer_cases_drained": 1000, "hook_evaluations": 20000, "sends_partial": 5000, "sends_zero": 5000, "sends_unreachable": 1000,
           "grams_sent_in_full": 20000, "grams_dropped_unreachable": 500, "progress_checks": 5000,
           "real_socket_runs": 4, "real_wouldblock_seen": 1, "real_unreachable_after_wouldblock": 1}
EXHAUSTIVE = {
    "quick": "all acceptance scripts of length <= 5 over {0,1,half,all-1,all} (3905) x 2 service APIs; all scripts of "
             "length <= 3 over those + 10 unreachable errnos (3615); all zero/partial prefixes of length <= 2 followed "
             "by a permanently unreachable destination x 10 errnos x 6 APIs x 2 queue positions (2400)",
    "thorough": "all acceptance scripts of length <= 6 over {0,1,half,all-1,all} (19530) x 2 service APIs; all scripts "
                "of length <= 4 over those + 10 unreachable errnos (54240); all zero/partial prefixes of length <= 3 "
                "followed by a permanently unreachable destination x 10 errnos x 6 APIs x 2 queue positions (10080)",
}

A5 = [0, 1, "half", "all-1", "all"]
APIS = ["once", "greedy", "alltx", "allonce", "service", "local"]


# ---------------------------------------------------------------------------
# cases
# ---------------------------------------------------------------------------
def cases(tier, seed, shard, nshards):
    quick = tier == "quick"
    i = 0
    q3 = [[8, 0], [5, 1], [9, 0]]
    for ln in range(1, (5 if quick else 6) + 1):
        for script in itertools.product(A5, repeat=ln):
            for api in ("once", "greedy"):
                if i % nshards == shard:
                    yield {"kind": "enum-accept", "grams": q3, "script": list(script), "api": api, "late": []}
                i += 1
    A15 = A5 + ms.UNREACHABLE
    q4 = [[6, 0], [4, 1], [7, 0], [3, 2]]
    for ln in range(1, (3 if quick else 4) + 1):
        for script in itertools.product(A15, repeat=ln):
            if not any(isinstance(a, str) and a.startswith("E") for a in script):
                continue
            if i % nshards == shard:
                yield {"kind": "enum-unreach", "grams": q4, "script": list(script),
                       "api": APIS[i % 3], "late": []}
            i += 1
    # dead peers: gram for dst9 gets a prefix of zero/partial acceptances, then dst9 is unreachable for good
    P4 = [0, 1, "half", "all-1"]
    for ln in range(1, (2 if quick else 3) + 1):
        for prefix in itertools.product(P4, repeat=ln):
            for en in ms.UNREACHABLE:
                for api in APIS:
                    for pos in (0, 1):
                        if i % nshards == shard:
                            grams = [[7, 0], [5, 1], [6, 0]]
                            grams.insert(pos, [16, 9])
                            # sends to live destinations accept everything; the prefix applies to dst9 only
                            yield {"kind": "enum-dead", "grams": grams, "script": [], "api": api, "late": [],
                                   "dead": [[9, list(prefix), en]]}
                        i += 1
    # socket-level scripts on real udp / uxd peers
    S9 = ["real", "half", "EAGAIN", "EWOULDBLOCK", "ENOBUFS", "ENOMEM", "ECONNREFUSED", "ENOENT", "EHOSTUNREACH"]
    for ln in range(1, (2 if quick else 3) + 1):
        for script in itertools.product(S9, repeat=ln):
            if all(a == "real" for a in script):
                continue
            for transport in ("udp", "uxd"):
                if i % nshards == shard:
                    yield {"kind": "sock-" + transport, "script": list(script), "api": APIS[i % 3]}
                i += 1
    srng = random.Random(f"{seed}:C21:sock:{shard}")
    for k in range((80 if quick else 1600) // nshards):
        yield {"kind": "sock-" + srng.choice(["udp", "uxd"]), "api": srng.choice(APIS[:3]),
               "script": [srng.choice(S9[:6] if srng.random() < 0.8 else S9) for _ in range(srng.randint(3, 14))]}
    # real sockets: a handful per run, spread over shards
    nreal = 6 if quick else 24
    for k in range(nreal):
        if k % nshards == shard:
            kind = ["real-uxd", "real-udp", "real-uxd-dead", "real-udp-unreach", "real-uxd", "real-uxd-dead"][k % 6]
            yield {"kind": kind, "ngrams": 24 + 4 * (k % 5), "gsize": 1200 + 300 * (k % 3),
                   "drain": 1 + k % 3, "api": ["greedy", "once", "service"][k % 3], "port": 46000 + 37 * k}
    rng = random.Random(f"{seed}:C21:{shard}")
    nrand = (4000 if quick else 160000) // nshards
    for _ in range(nrand):
        big = rng.random() < 0.15
        n = rng.randint(1, 8)
        ndst = rng.randint(1, 4)
        grams = [[rng.randint(1, 3000) if big else rng.randint(1, 31), rng.randrange(ndst)] for _ in range(n)]
        script = []
        p_err = rng.choice([0.0, 0.0, 0.1, 0.3])
        for _ in range(rng.randint(1, 40)):
            r = rng.random()
            if r < p_err:
                script.append(rng.choice(ms.UNREACHABLE))
            elif r < p_err + 0.25:
                script.append(0)
            elif r < p_err + 0.6:
                script.append(rng.choice([1, "half", "all-1", rng.randint(1, 40)]))
            else:
                script.append("all")
        late = []
        if rng.random() < 0.3 and n < 8:
            for _ in range(rng.randint(1, 8 - n)):
                late.append([rng.randint(1, 12), rng.randint(1, 31), rng.randrange(ndst)])
        case = {"kind": "rand-memo" if rng.random() < 0.1 else "rand", "grams": grams, "script": script,
                "api": rng.choice(APIS), "late": late}
        if case["kind"] == "rand" and rng.random() < 0.3:
            # one destination dies for good after a few zero/partial acceptances of whatever is sent to it
            case["dead"] = [[rng.randrange(ndst), [rng.choice([0, 0, 1, "half", "all-1", rng.randint(1, 20)])
                                                  for _ in range(rng.randint(0, 4))], rng.choice(ms.UNREACHABLE)]]
        yield case


# ---------------------------------------------------------------------------
# reference model of the accepted byte stream
# ---------------------------------------------------------------------------
class Violation(Exception):
    def __init__(self, key, msg):
        super().__init__(msg)
        self.key = key
        self.msg = msg


class Model:
    def __init__(self):
        self.G = []          # queued grams: bytes
        self.D = []          # their destinations
        self.i = 0           # current gram
        self.o = 0           # bytes of it accepted so far
        self.unreach = set()  # grams for which a send offering them raised an unreachable errno
        self.hist = {}       # gram -> outcomes of the sends that offered it
        self.full = []       # grams accepted in full
        self.dropped = []    # (gram, offset) legitimately dropped
        self.log = []        # transport log for the witness

    def queue(self, gram, dst):
        self.G.append(bytes(gram))
        self.D.append(dst)

    def locate(self, data, dst):
        """(gram, offset) whose remainder the offered buffer is; the position the model expects wins ties."""
        k, off = self.i, self.o
        while k < len(self.G):          # the owed position, or the next one after grams that may be dropped
            if dst == self.D[k] and data == self.G[k][off:]:
                return (k, off)
            if k not in self.unreach:
                break
            k, off = k + 1, 0
        cands = [j for j, g in enumerate(self.G) if self.D[j] == dst and data and g.endswith(data)]
        if not cands:
            return None
        later = [j for j in cands if j >= self.i]
        j = later[0] if later else cands[-1]
        return (j, len(self.G[j]) - len(data))

    def shape(self, j):
        """Outcomes of the sends that offered gram j, run-length compressed: Z zero accepted, P partial, E errno."""
        s = ""
        for out in self.hist.get(j, []):
            t = "E" if isinstance(out, str) else ("Z" if out == 0 else "P")
            if not s or s[-1] != t:
                s += t
        return s or "never-offered"

    def offered(self, data, dst, outcome):
        loc = self.locate(data, dst)
        j = loc[0] if loc else None
        if j is not None:
            self.hist.setdefault(j, []).append(outcome if isinstance(outcome, str) else
                                               (0 if outcome == 0 else ("all" if outcome >= len(data) else outcome)))
        self.log.append([dst, len(data), outcome, j])
        if isinstance(outcome, str):
            if j is not None:
                self.unreach.add(j)
            return
        if outcome > 0:
            self.accept(loc, data[:outcome], dst)

    def _skip_dropped(self):
        while self.i < len(self.G) and self.i in self.unreach:
            self.dropped.append((self.i, self.o))
            self.i += 1
            self.o = 0

    def accept(self, loc, chunk, dst):
        if loc is None:
            where = next(((j, g.find(chunk)) for j, g in enumerate(self.G) if chunk in g), None)
            if where is None:
                raise Violation("foreign-bytes-sent", f"transport accepted {chunk[:24]!r}.. which is in no queued gram")
            if dst != self.D[where[0]]:
                raise Violation("misdirected", f"bytes of gram {where[0]} (for {self.D[where[0]]!r}) accepted for "
                                               f"destination {dst!r}")
            raise Violation("not-a-gram-remainder", f"transport was offered and accepted bytes from the middle of gram "
                                                    f"{where[0]} (offset {where[1]}, {len(chunk)} bytes) not reaching its end")
        j, off = loc
        # grams the tree gave up on after an unreachable error may be skipped: the statement allows that
        while self.i < j and self.i in self.unreach:
            self.dropped.append((self.i, self.o))
            self.i += 1
            self.o = 0
        if (j, off) == (self.i, self.o):
            self.o += len(chunk)
            if self.o == len(self.G[j]):
                self.full.append(j)
                self.i += 1
                self.o = 0
            return
        if j > self.i:
            lost = self.i
            raise Violation(f"lost:send-history-{self.shape(lost)}",
                            f"gram {lost} (offset {self.o}/{len(self.G[lost])}) was skipped: the transport next accepted "
                            f"bytes of gram {j}; no unreachable error was ever reported for gram {lost}; its send "
                            f"outcomes: {self.hist.get(lost)}")
        if j < self.i or off < self.o:
            raise Violation("duplicated-or-reordered",
                            f"transport accepted bytes of gram {j} offset {off} again/out of order while gram {self.i} "
                            f"offset {self.o} is owed")
        raise Violation("bytes-skipped-within-gram",
                        f"gram {j}: accepted bytes at offset {off} while offset {self.o} is owed")

    def owed(self, allow_drop=True):
        """Alternatives for what txbs ++ txgs must hold now: list of lists of (bytes, dst)."""
        alts = []
        i, o = self.i, self.o
        while True:
            rem = []
            if i < len(self.G):
                rem.append((self.G[i][o:], self.D[i]))
                rem += [(self.G[j], self.D[j]) for j in range(i + 1, len(self.G))]
            alts.append(rem)
            if allow_drop and i < len(self.G) and i in self.unreach:
                i, o = i + 1, 0
                continue
            break
        return alts


class SpinAbort(BaseException):
    """Raised by the scripted transport when ONE service call keeps calling send() far beyond what the queue can
    explain; BaseException so that no handler in hio swallows it."""


class ScriptedMemoer(Memoer):
    """Real Memoer; only the transport stub send() is replaced by the scripted transport."""

    def __init__(self, script, ctx, dead=(), **kwa):
        super().__init__(**kwa)
        self._vf_model = Model()
        self._vf_script = list(script)
        self._vf_ctx = ctx
        self._vf_violation = None
        self._vf_sends = 0
        self._vf_call_sends = 0
        self._vf_spin = False
        # destination -> [outcomes of its first sends, errno raised for ever after]
        self._vf_dead = {f"dst{d}": [list(prefix), en] for d, prefix, en in dead}

    def send(self, gram, dst, *, echoic=False):
        self._vf_sends += 1
        self._vf_call_sends += 1
        if self._vf_call_sends > 4 * len(self._vf_model.G) + 20:
            self._vf_spin = True
            raise SpinAbort()
        data = bytes(gram)
        if dst in self._vf_dead:
            prefix, en = self._vf_dead[dst]
            act = prefix.pop(0) if prefix else en
        else:
            act = self._vf_script.pop(0) if self._vf_script else "all"
        ctx = self._vf_ctx
        if isinstance(act, str) and act.startswith("E"):
            ctx.count("sends_unreachable")
            loc = self._vf_model.locate(data, dst)
            if loc is not None and any(not isinstance(o, str) for o in self._vf_model.hist.get(loc[0], [])):
                ctx.count("unreachable_after_zero_or_partial")
            self._vf_observe(data, dst, act)
            raise OSError(getattr(errno, act), os.strerror(getattr(errno, act)))
        n = {"all": len(data), "half": len(data) // 2, "all-1": max(0, len(data) - 1)}.get(act, act)
        n = max(0, min(int(n), len(data)))
        ctx.count("sends_zero" if n == 0 else ("sends_all" if n == len(data) else "sends_partial"))
        self._vf_observe(data, dst, n)
        return n

    def _vf_observe(self, data, dst, outcome):
        if self._vf_violation is None:
            try:
                self._vf_model.offered(data, dst, outcome)
            except Violation as v:
                self._vf_violation = v


# ---- hook -------------------------------------------------------------------
_state = {"installed": False}


def _wrap_service_once(orig):
    def wrapper(self, *pa, **kwa):
        model = getattr(self, "_vf_model", None)
        try:
            return orig(self, *pa, **kwa)
        finally:
            if model is not None and getattr(self, "_vf_violation", None) is None and \
                    not getattr(self, "_vf_spin", False):
                self._vf_ctx.count("hook_evaluations")
                gram, dst = self.txbs
                actual = ([(bytes(gram), dst)] if dst is not None else []) + [(bytes(g), d) for g, d in self.txgs]
                actual = [(g, d) for g, d in actual if g]
                alts = [[(g, d) for g, d in alt if g] for alt in model.owed()]
                if actual not in alts:
                    self._vf_violation = _conservation_violation(model, actual, alts)
    wrapper.__wrapped__ = orig
    return wrapper


def _conservation_violation(model, actual, alts):
    # judge against the alternative (with/without the permitted drops) that explains most of the queue state
    best = None
    for alt in alts:
        have = list(actual)
        missing = []
        for item in alt:
            if item in have:
                have.remove(item)
            else:
                missing.append(item)
        if best is None or len(missing) <= len(best[0]):
            best = (missing, have, alt)
    missing, extra, owed = best
    if missing:
        g, d = missing[0]
        j = next((k for k in range(model.i, len(model.G)) if model.G[k].endswith(g) and model.D[k] == d
                  and k not in model.unreach), model.i)
        return Violation(f"lost:send-history-{model.shape(j)}",
                         f"after a service call gram {j} (owed bytes {len(g)}, dst {d!r}) is neither in txbs nor in txgs "
                         f"although the transport never took it and never reported its destination unreachable; "
                         f"its send outcomes so far: {model.hist.get(j)}; txbs+txgs now hold "
                         f"{[(len(x), y) for x, y in actual]}")
    return Violation("conservation:queue-holds-unowed-bytes",
                     f"txbs+txgs hold {[(x[:12], y) for x, y in actual]} but only {[(x[:12], y) for x, y in owed]} is owed")


def setup(ctx):
    ms.install_fake_uuid()
    if not _state["installed"]:
        Memoer._serviceOnceTxGrams = _wrap_service_once(Memoer._serviceOnceTxGrams)
        _state["installed"] = True


# ---------------------------------------------------------------------------
def gram_bytes(idx, n, small):
    if small:
        return bytes(((idx * 32 + p) % 256) for p in range(n))
    out = b""
    k = 0
    while len(out) < n:
        out += hashlib.sha256(b"vf-c21-gram:%d:%d" % (idx, k)).digest()
        k += 1
    return out[:n]


def call_api(m, api):
    m._vf_call_sends = 0
    if api == "once":
        m.serviceTxGramsOnce()
    elif api == "greedy":
        m.serviceTxGrams()
    elif api == "alltx":
        m.serviceAllTx()
    elif api == "allonce":
        m.serviceAllTxOnce()
    elif api == "service":
        m.serviceAll()
    elif api == "local":
        m.serviceLocal()
    else:
        raise AssertionError(api)


def finish(case, ctx, m, trace):
    """Bounded progress + end-state ledger; returns after reporting at most one violation."""
    model = m._vf_model
    if m._vf_violation is not None:
        v = m._vf_violation
        ctx.violation(v.key, v.msg + f" | api={case['api']} transport log (dst, offered, outcome, gram): {model.log[-12:]}",
                      trace=trace)
        return False
    return True


STARVED_KEY = "starved:unreachable-remainder-kept-in-txbs-blocks-queue"


def _starved(m):
    """State inspection: txbs still holds (part of) a gram for which the transport has reported its destination
    unreachable (the gram the tree should have given up on), so nothing behind it can move."""
    model = m._vf_model
    gram, dst = m.txbs
    if dst is None or not bytes(gram):
        return False
    loc = model.locate(bytes(gram), dst)
    return loc is not None and loc[0] in model.unreach


def _starved_msg(m, when):
    model = m._vf_model
    gram, dst = m.txbs
    j = model.locate(bytes(gram), dst)[0]
    behind = [(len(g), d) for g, d in m.txgs]
    return (f"{when}: {len(gram)} bytes of gram {j} stay in txbs for {dst!r} although every retry raises an "
            f"unreachable errno (send outcomes {model.hist.get(j)}); it is neither dropped nor does the queue move "
            f"on: {len(behind)} gram(s) behind it {behind[:4]} are never offered to the transport; transport log "
            f"{model.log[-6:]}")


def progress_phase(case, ctx, m, trace):
    model = m._vf_model
    api = case["api"]
    m._vf_script = []             # from now on the transport accepts everything
    bound = 2 * len(model.G) + 5
    last_sends = None
    for r in range(bound):
        before = m._vf_sends
        call_api(m, api)
        last_sends = m._vf_sends - before
        trace.append(["progress-call", last_sends])
        if not finish(case, ctx, m, trace):
            return False
        if model.i >= len(model.G) and not m.txgs and m.txbs[1] is None:
            break
    ctx.count("progress_checks")
    done = model.i >= len(model.G)
    if not done and model.i in model.unreach and not m.txgs and m.txbs[1] is None:
        # the last gram(s) were dropped as unreachable: nothing is owed any more
        model._skip_dropped()
        done = model.i >= len(model.G)
    if done and not m.txgs and m.txbs[1] is None:
        return True
    gram, dst = m.txbs
    if _starved(m):
        ctx.violation(STARVED_KEY, _starved_msg(m, f"{bound} calls of {api} after the live destinations accept everything"),
                      trace=trace)
        return False
    if not m.txgs and dst is not None and last_sends == 0:
        ctx.violation("stuck:remainder-in-txbs-not-serviced-when-txgs-empty",
                      f"after the transport accepts everything, {bound} calls of {api} left {len(gram)} bytes of gram "
                      f"{model.i} parked in txbs for {dst!r}: txgs is empty and the service method makes no send call at "
                      f"all, so the remainder can never be sent; transport log {model.log[-8:]}", trace=trace)
        return False
    ctx.violation("stuck:no-progress-within-bound",
                  f"{bound} service calls with an all-accepting transport did not drain the queue: model at gram "
                  f"{model.i}/{len(model.G)} offset {model.o}, txgs={len(m.txgs)} txbs=({len(gram)}, {dst!r}), sends in "
                  f"last call {last_sends}", trace=trace)
    return False


def run_case(case, ctx):
    if case["kind"].startswith("real-"):
        return run_real(case, ctx)
    if case["kind"].startswith("sock-"):
        return run_sock(case, ctx)
    ms.reset_mids()
    small = sum(n for n, _ in case["grams"]) + sum(n for _, n, _ in case["late"]) <= 248 and \
        len(case["grams"]) + len(case["late"]) <= 8
    m = ScriptedMemoer(case["script"], ctx, dead=case.get("dead", ()),
                       size=64 if case["kind"] == "rand-memo" else None)
    m.reopen()
    model = m._vf_model
    trace = []
    try:
        idx = 0
        if case["kind"] == "rand-memo":
            # the queue is produced by the real memoit/rend path: contents are unique through memo id + gram number
            for n, d in case["grams"]:
                m.memoit(f"<memo{idx}>" + (hashlib.sha256(b"memo%d" % idx).hexdigest() * 3)[:n % 150], f"dst{d}")
                idx += 1
            m.serviceTxMemos()
            for g, d in m.txgs:
                model.queue(g, d)
        else:
            for n, d in case["grams"]:
                g = gram_bytes(idx, n, small)
                m.gramit(g, f"dst{d}")
                model.queue(g, f"dst{d}")
                idx += 1
        late = sorted(case["late"])
        script_len = len(case["script"])
        rounds = script_len + 2 * (len(model.G) + len(late)) + 5
        for r in range(1, rounds + 1):
            while late and late[0][0] <= r:
                _, n, d = late.pop(0)
                g = gram_bytes(idx, n, small)
                m.gramit(g, f"dst{d}")
                model.queue(g, f"dst{d}")
                idx += 1
            before = m._vf_sends
            call_api(m, case["api"])
            trace.append(["call", m._vf_sends - before])
            if not finish(case, ctx, m, trace):
                return
            if not m._vf_script and not late:
                break
        for _, n, d in late:      # anything not yet queued is queued now
            g = gram_bytes(idx, n, small)
            m.gramit(g, f"dst{d}")
            model.queue(g, f"dst{d}")
            idx += 1
        if not progress_phase(case, ctx, m, trace):
            return
    except Violation:
        raise AssertionError("harness: model violation escaped")
    except SpinAbort:
        if _starved(m):
            ctx.violation(STARVED_KEY, _starved_msg(m, f"one call of {case['api']} made {m._vf_call_sends} send calls "
                                                       f"and was aborted by the harness"), trace=trace)
        else:
            ctx.violation("spin:service-call-keeps-sending",
                          f"one call of {case['api']} made {m._vf_call_sends} send calls for a queue of "
                          f"{len(model.G)} grams; transport log {model.log[-8:]}", trace=trace)
        return
    except OSError as ex:
        ctx.violation(ms.escape_key(ex, "tx-escape"),
                      f"service method raised {ex!r} although only would-block and unreachable errnos were injected",
                      trace=trace)
        return
    finally:
        m.close()
    ctx.count("grams_sent_in_full", len(model.full))
    ctx.count("grams_dropped_unreachable", len(model.dropped))
    if len(model.full) + len(model.dropped) != len(model.G):
        raise AssertionError("harness: ledger does not add up")
    if case.get("dead"):
        ctx.count("dead_peer_cases_drained")
    sc = case["script"] + [a for _d, prefix, en in case.get("dead", ()) for a in prefix + [en]]
    if any(a != "all" for a in sc):
        ctx.nontrivial([case["grams"], sc, case["api"], case["late"], case.get("dead")])
    ctx.seen("script_shapes", [("E" if isinstance(a, str) and a.startswith("E") else a) for a in sc][:6])
    if case["kind"] == "rand" and model.dropped and len(sc) < 12:
        ctx.sample({"case": case, "sent_in_full": model.full, "dropped(gram,offset)": model.dropped,
                    "transport_log(dst,offered,outcome,gram)": model.log[:16]})


# ---------------------------------------------------------------------------
# real sockets
# ---------------------------------------------------------------------------
def _recording(base):
    class Recording(base):
        """Real peer; send() delegates to the real socket send and feeds the model with what the kernel accepted."""

        def send(self, data, dst, **kwa):
            self._vf_sends += 1
            self._vf_call_sends = getattr(self, "_vf_call_sends", 0) + 1
            if self._vf_call_sends > 4 * len(self._vf_model.G) + 20:
                self._vf_spin = True
                raise SpinAbort()
            offered = bytes(data)
            try:
                cnt = super().send(data, dst, **kwa)
            except OSError as ex:
                name = errno.errorcode.get(ex.args[0], str(ex.args[0]))
                self._vf_ctx.count("real_send_errno_" + name)
                if name in ms.UNREACHABLE:
                    self._vf_ctx.count("sends_unreachable")
                    loc = self._vf_model.locate(offered, dst)
                    if loc is not None and any(not isinstance(o, str) for o in self._vf_model.hist.get(loc[0], [])):
                        self._vf_ctx.count("unreachable_after_zero_or_partial")
                        self._vf_ctx.count("real_unreachable_after_wouldblock")
                    self._vf_observe(offered, dst, name)
                raise
            if cnt == 0:
                self._vf_ctx.count("real_wouldblock_seen")
            elif hasattr(self, "_vf_chunks"):
                self._vf_chunks.append((offered[:cnt], dst))
            self._vf_observe(offered, dst, cnt)
            return cnt

        def _vf_observe(self, data, dst, outcome):
            if self._vf_violation is None:
                try:
                    self._vf_model.offered(data, dst, outcome)
                except Violation as v:
                    self._vf_violation = v
    return Recording


WOULDBLOCK = ("EAGAIN", "EWOULDBLOCK", "ENOBUFS", "ENOMEM")


class SockProxy:
    """Stands in for Peer.ls: sendto() follows a script, everything else is the real socket."""

    def __init__(self, real, script, ctx):
        self._real = real
        self._script = list(script)
        self._ctx = ctx
        self.fresh_next = True

    def sendto(self, data, dst):
        act = self._script.pop(0) if self._script else "real"
        if act == "real":
            return self._real.sendto(data, dst)
        if act == "half":
            return self._real.sendto(bytes(data[:max(1, len(data) // 2)]), dst)
        self._ctx.count("sock_inject_" + act)
        raise OSError(getattr(errno, act), os.strerror(getattr(errno, act)))

    def __getattr__(self, name):
        return getattr(self._real, name)


def run_sock(case, ctx):
    """Real udp/uxd PeerMemoer, scripted sendto at the socket: would-block errnos must not lose or raise."""
    ms.reset_mids()
    transport = case["kind"].split("-")[1]
    tmp = tempfile.mkdtemp(prefix="vfc21-")
    peers = []
    trace = []
    sender = None
    try:
        if transport == "uxd":
            from hio.core.uxd import peermemoing as pm
            sender = _recording(pm.PeerMemoer)(name="s", temp=False, headDirPath=tmp, bc=1)
            rcv = [pm.PeerMemoer(name=n, temp=False, headDirPath=tmp, bc=1) for n in ("r", "g")]
        else:
            from hio.core.udp import peermemoing as pm
            sender = _recording(pm.PeerMemoer)(name="s", ha=("127.0.0.1", 0), bc=4)
            rcv = [pm.PeerMemoer(name=n, ha=("127.0.0.1", 0), bc=16) for n in ("r", "g")]
        peers = [sender] + rcv
        for p in peers:
            if not p.reopen():
                raise AssertionError("harness: could not open a real peer")
        dsts = [r.path if transport == "uxd" else r.ha for r in rcv]
        sender._vf_model = model = Model()
        sender._vf_ctx = ctx
        sender._vf_violation = None
        sender._vf_sends = 0
        sender._vf_spin = False
        sender._vf_chunks = []
        sender.ls = SockProxy(sender.ls, case["script"], ctx)
        for idx, d in enumerate([0, 0, 1, 0, 1]):
            g = gram_bytes(idx, 90 + 7 * idx, False)
            sender.gramit(g, dsts[d])
            model.queue(g, dsts[d])
        bound = len(case["script"]) + 2 * len(model.G) + 5
        for r in range(bound):
            call_api_real(sender, case["api"])
            trace.append(["call", r])
            if sender._vf_violation is not None:
                break
            if not sender.ls._script and not sender.txgs and sender.txbs[1] is None:
                break
        if sender._vf_violation is not None:
            v = sender._vf_violation
            ctx.violation(v.key, f"[{case['kind']}] " + v.msg + f" | socket script {case['script']} transport log "
                                 f"{model.log[-10:]}", trace=trace)
            return
        if model.i < len(model.G) and model.i in model.unreach and not sender.txgs and sender.txbs[1] is None:
            model._skip_dropped()
        if model.i < len(model.G) or sender.txgs or sender.txbs[1] is not None:
            if _starved(sender):
                ctx.violation(STARVED_KEY, f"[{case['kind']}] " + _starved_msg(sender, f"{bound} service rounds"),
                              trace=trace)
            elif not sender.txgs and sender.txbs[1] is not None:
                ctx.violation("stuck:remainder-in-txbs-not-serviced-when-txgs-empty",
                              f"[{case['kind']}] remainder parked in txbs, txgs empty", trace=trace)
            else:
                ctx.violation("stuck:no-progress-within-bound",
                              f"[{case['kind']}] {bound} rounds did not drain: gram {model.i}/{len(model.G)}", trace=trace)
            return
        if len(model.full) + len(model.dropped) != len(model.G):
            raise AssertionError("harness: ledger does not add up")
        ctx.count("socket_script_runs")
        ctx.count("grams_sent_in_full", len(model.full))
        ctx.count("grams_dropped_unreachable", len(model.dropped))
        if any(isinstance(o, int) and o == 0 and k > 0 for h in model.hist.values() for k, o in enumerate(h)):
            ctx.count("sock_wouldblock_on_retry")
        if transport == "uxd":      # reliable, ordered: every accepted chunk arrived, in order, at its destination
            for r, d in zip(rcv, dsts):
                got = []
                for _ in range(40):
                    data, _src = r.receive()
                    if data:
                        got.append(data)
                want = [c for c, dd in sender._vf_chunks if dd == d]
                if got != want:
                    ctx.violation("real-uxd:received-differs-from-accepted",
                                  f"[{case['kind']}] peer got {len(got)} datagrams, socket accepted {len(want)}",
                                  trace=trace)
                    return
        ctx.nontrivial([case["kind"], case["script"], case["api"]])
        ctx.seen("socket_scripts", [transport] + case["script"][:4])
    except SpinAbort:
        ctx.violation(STARVED_KEY if _starved(sender) else "spin:service-call-keeps-sending",
                      f"[{case['kind']}] one service call made {sender._vf_call_sends} send calls; socket script "
                      f"{case['script']}", trace=trace)
    except OSError as ex:
        name = errno.errorcode.get(ex.args[0], str(ex.args[0])) if ex.args else "?"
        if name in WOULDBLOCK:
            lost = ""
            if sender is not None and sender._vf_violation is not None:
                lost = " AND " + sender._vf_violation.msg[:300]
            ctx.violation(f"wouldblock-errno-escapes:{name}:{transport}",
                          f"the OS refused a {transport} sendto with {name} (no buffer space: try again later) and the "
                          f"service call raised {ex!r} instead of keeping the gram for a retry{lost}; socket script "
                          f"{case['script']}", trace=trace)
        else:
            ctx.violation(ms.escape_key(ex, "tx-escape"), f"[{case['kind']}] service raised {ex!r}", trace=trace)
    finally:
        for p in peers:
            try:
                p.close()
            except Exception:
                pass
        shutil.rmtree(tmp, ignore_errors=True)


def run_real(case, ctx):
    ms.reset_mids()
    kind = case["kind"]
    tmp = tempfile.mkdtemp(prefix="vfc21-")
    sender = receiver = None
    trace = []
    try:
        third = None
        if kind in ("real-uxd", "real-uxd-dead"):
            from hio.core.uxd import peermemoing as uxdpm
            Rec = _recording(uxdpm.PeerMemoer)
            sender = Rec(name="s", temp=False, headDirPath=tmp, bc=1)
            receiver = uxdpm.PeerMemoer(name="r", temp=False, headDirPath=tmp, bc=1)
            if not sender.reopen() or not receiver.reopen():
                raise AssertionError("harness: could not open uxd peers")
            # environment: a host with a small send buffer, so that an unread receiver really blocks the sender
            sender.ls.setsockopt(socket.SOL_SOCKET, socket.SO_SNDBUF, 4096)
            dst = receiver.path
            if kind == "real-uxd-dead":
                third = uxdpm.PeerMemoer(name="g", temp=False, headDirPath=tmp, bc=1)
                if not third.reopen():
                    raise AssertionError("harness: could not open third uxd peer")
        else:
            from hio.core.udp import peermemoing as udppm
            Rec = _recording(udppm.PeerMemoer)
            port = case["port"]
            for attempt in range(40):
                sender = Rec(name="s", ha=("127.0.0.1", port + 2 * attempt), bc=4)
                if sender.reopen():
                    break
                sender = None
            if sender is None:
                raise AssertionError("harness: no free udp port for the sender")
            for attempt in range(40):
                receiver = udppm.PeerMemoer(name="r", ha=("127.0.0.1", port + 1 + 2 * attempt), bc=64)
                if receiver.reopen():
                    break
                receiver = None
            if receiver is None:
                raise AssertionError("harness: no free udp port for the receiver")
            dst = receiver.ha
            if kind == "real-udp-unreach":
                receiver.close()       # nobody listens there any more: loopback answers with ICMP port unreachable
        sender._vf_model = model = Model()
        sender._vf_ctx = ctx
        sender._vf_violation = None
        sender._vf_sends = 0
        sender._vf_spin = False
        n, gsize = case["ngrams"], case["gsize"]
        if not kind.startswith("real-uxd"):
            gsize = min(gsize, 1000)
        if kind == "real-uxd-dead":
            n = 9
        for idx in range(n):
            g = gram_bytes(idx, gsize - idx % 7, False)
            sender.gramit(g, dst)
            model.queue(g, dst)
        if third is not None:       # grams for a live peer queued behind the ones for the peer that will die
            for idx in range(n, n + 3):
                g = gram_bytes(idx, 500 + idx, False)
                sender.gramit(g, third.path)
                model.queue(g, third.path)
        got = []
        bound = 6 * n + 20
        killed = False
        for r in range(bound):
            call_api_real(sender, case["api"])
            trace.append(["call", r])
            if sender._vf_violation is not None:
                break
            if kind == "real-uxd-dead":
                if not killed and any(e[2] == 0 for e in model.log):
                    receiver.close()          # its queue is full and now it goes away: ENOENT / ECONNREFUSED
                    killed = True
                    trace.append(["receiver closed"])
                if not sender.txgs and sender.txbs[1] is None:
                    break
                continue
            if kind != "real-udp-unreach":
                for _ in range(case["drain"]):
                    data, src = receiver.receive()
                    if data:
                        got.append(data)
            if not sender.txgs and sender.txbs[1] is None and model.i >= len(model.G):
                break
        if sender._vf_violation is not None:
            v = sender._vf_violation
            ctx.violation(v.key, f"[{kind}] " + v.msg + f" | transport log {model.log[-10:]}", trace=trace)
            return
        if third is not None:
            for _ in range(8):
                data, src = third.receive()
                if data:
                    got.append(data)
        # drain what is left
        if kind not in ("real-udp-unreach", "real-uxd-dead"):
            for _ in range(4 * n):
                data, src = receiver.receive()
                if data:
                    got.append(data)
        model._skip_dropped() if (model.i in model.unreach and not sender.txgs and sender.txbs[1] is None) else None
        if model.i < len(model.G) or sender.txgs or sender.txbs[1] is not None:
            gram, d = sender.txbs
            if _starved(sender):
                ctx.violation(STARVED_KEY, f"[{kind}] " + _starved_msg(sender, f"{bound} service rounds"), trace=trace)
            elif not sender.txgs and d is not None:
                ctx.violation("stuck:remainder-in-txbs-not-serviced-when-txgs-empty",
                              f"[{kind}] {len(gram)} bytes parked in txbs, txgs empty, no service call sends them",
                              trace=trace)
            else:
                ctx.violation("stuck:no-progress-within-bound",
                              f"[{kind}] {bound} service rounds did not drain: model gram {model.i}/{len(model.G)}, "
                              f"txgs={len(sender.txgs)}", trace=trace)
            return
        ctx.count("real_socket_runs")
        ctx.count("grams_sent_in_full", len(model.full))
        ctx.count("grams_dropped_unreachable", len(model.dropped))
        ctx.count("real_datagrams_received", len(got))
        if kind == "real-uxd-dead":
            if not killed:
                raise AssertionError("harness: the unread uxd peer never made the sender block")
            ctx.count("dead_peer_cases_drained")
            want = [model.G[j] for j in model.full if model.D[j] == third.path]
            if got != want or len(want) != 3:
                ctx.violation("real-uxd:live-peer-did-not-get-its-grams",
                              f"live peer received {len(got)} datagrams, expected the 3 queued behind the dead peer's",
                              trace=trace)
                return
        if kind == "real-uxd":
            # a unix datagram socket is reliable and ordered: what arrived is what the model saw accepted
            want = [model.G[j] for j in model.full]
            if got != want:
                ctx.violation("real-uxd:received-differs-from-accepted",
                              f"receiver got {len(got)} datagrams, kernel accepted {len(want)} grams; first difference at "
                              f"{next((k for k, (a, b) in enumerate(zip(got, want)) if a != b), min(len(got), len(want)))}",
                              trace=trace)
                return
        ctx.nontrivial([kind, n, gsize, case["api"], case["drain"]])
        ctx.sample({"kind": kind, "grams": n, "gram_size": gsize, "sent_in_full": len(model.full),
                    "dropped": len(model.dropped), "received": len(got),
                    "wouldblock_sends": sum(1 for e in model.log if e[2] == 0)})
    except SpinAbort:
        if _starved(sender):
            ctx.violation(STARVED_KEY, f"[{kind}] " + _starved_msg(sender, f"one call of {case['api']} made "
                          f"{sender._vf_call_sends} send calls and was aborted by the harness"), trace=trace)
        else:
            ctx.violation("spin:service-call-keeps-sending", f"[{kind}] one service call made "
                          f"{sender._vf_call_sends} send calls", trace=trace)
    except OSError as ex:
        ctx.violation(ms.escape_key(ex, "tx-escape"), f"[{kind}] service raised {ex!r}", trace=trace)
    finally:
        for p in (sender, receiver, third):
            try:
                if p is not None:
                    p.close()
            except Exception:
                pass
        shutil.rmtree(tmp, ignore_errors=True)


def call_api_real(m, api):
    m._vf_call_sends = 0
    if api == "once":
        m.serviceTxGramsOnce()
    elif api == "greedy":
        m.serviceTxGrams()
    else:
        m.serviceAllTx()


LEVEL_TEXT = ("Every outcome sequence of the transport up to a bounded length (would-block, partial acceptance of four "
              "shapes, complete acceptance, and each unreachable errno) is enumerated against the real transmit tier and "
              "judged by a byte-exact model of what the transport accepted, a conservation invariant after every "
              "_serviceOnceTxGrams and a bounded-progress check; longer random scripts and real UXD/UDP sockets add "
              "breadth. Held on what was enumerated, not a proof for longer scripts.")
LEVEL_NOTE = ("trusted: the 100-line stream model, the scripted transport, Linux AF_UNIX datagram semantics for the real "
              "socket runs (reliable, ordered, EAGAIN when the send buffer is charged)")
