"""C26 - Base64 integer and code conversions are exact inverses.

Monitor shape: post-conditions on the results of the real functions in
`hio.help.helping`, judged against a 10-line bit-string model where a model is
needed (nabSextets) and against each other where the statement is an inverse law:

  P1  b64ToInt(intToB64(i, l)) == i            for every i >= 0 and every minimum length l >= 0
  P2  len(intToB64(i, l)) >= l                 (the "minimum length" of the statement)
  P3  intToB64b(i, l) == intToB64(i, l).encode(), b64ToInt(bytes) == b64ToInt(str),
      codeB64ToB2(bytes) == codeB64ToB2(str)   (bytes variants agree)
  P4  codeB2ToB64(codeB64ToB2(s), len(s)) == s for every non-empty Base64 string s
  P5  nabSextets(b, l) == first 6*l bits of b followed by zero pad bits up to a whole octet
  P6  (leading bits only) codeB2ToB64(codeB64ToB2(s) + tail, len(s)) == s and
      nabSextets(codeB64ToB2(s) + tail, len(s)) obeys P5 - trailing bytes never leak in
      (this is how memoing parses the code from the front of a whole gram)

  H1  (no history) every conversion gives what it gives in a fresh history whatever was called before it - in
      particular right after a call that RAISED (wrong type of l, non-Base64 text, too few bytes ...) and was caught by
      the caller: 29 such calls x 18 probes exhaustively, random histories of up to 30 calls beyond

Not judged (statement is silent): the particular digits chosen (compared with a
reference encoder and only COUNTED), the empty code string, inputs shorter than
l sextets (documented ValueError, counted), negative integers (never generated:
intToB64(-1) does not terminate).
"""
import random

from hio.help import helping

ID = "C26"
LEVEL = "exploration"
RULE = ("int cases: every (i, l) with i < 2^14 (quick) / 2^18 (thorough) and l in 0..6, in blocks of 1024 consecutive i; "
        "random i of random bit length <= 4096 with l in 0..700. code cases: every Base64 string of length 1..2 (quick) / 1..3 "
        "(thorough) in blocks, each with 3 tails (none, zero byte, 0xff bytes); random strings of length <= 64 with random tails. "
        "nab cases: every 1-byte (quick) / 2-byte (thorough) value x every feasible l, plus random bytes of length <= 48 x l. "
        "hist cases: every (failing call, probe) pair of a 29 x 18 table as [fail, probe, probe], plus random histories of <= 30 calls. Non-trivial = the case exercised padding (len(intToB64) == l > digits needed, or 6*l not a multiple of 8); "
        "distinct = by block / by (bit length, l) / by (string length, tail length).")
ASSUMPTIONS = ["integers are non-negative Python ints, l is a non-negative int (intToB64 does not terminate for i < 0)",
               "a 'Base64 code string' is a non-empty str over the URL-safe alphabet A-Za-z0-9-_ (the empty string is observed, not judged)",
               "nabSextets/codeB2ToB64 are judged only when b holds at least l sextets (shorter input: documented ValueError, counted)"]
TECHNIQUE = "post-condition monitors on real function results: inverse laws + bit-string reference model for sextet extraction, exhaustive small domain + random large domain"
LEVEL_TEXT = ("Every (i, l) in the enumerated box and every Base64 string up to the enumerated length is run through the real functions "
              "and judged by the inverse laws; big integers (to 2^4096) and long strings (to 64 chars) are sampled. Exhaustive inside the "
              "box, sampled outside; not a proof for all integers.")
LEVEL_NOTE = "trusted: Python int/bytes arithmetic, the 10-line bit-string model of 'first 6*l bits then zero pad'"
NSHARDS = {"quick": 8, "thorough": 16}
TIMEOUT_S = {"quick": 120, "thorough": 900}
REQUIRE = {"poison_calls_raised": 500, "history_probe_calls_after_raising_call": 1500, "history_probe_calls": 4000,
           "int_roundtrips_checked": 100000, "int_padded_results": 10000, "code_roundtrips_checked": 4000,
           "nab_model_checks": 4000, "bytes_variant_checks": 100000, "big_int_roundtrips": 500}
EXHAUSTIVE = {"quick": "all (i, l) with 0 <= i < 2^14, 0 <= l <= 6; all Base64 strings of length 1..2; all 1-byte inputs of nabSextets",
              "thorough": "all (i, l) with 0 <= i < 2^18, 0 <= l <= 6; all Base64 strings of length 1..3; all 2-byte inputs of nabSextets"}

ALPHA = "ABCDEFGHIJKLMNOPQRSTUVWXYZabcdefghijklmnopqrstuvwxyz0123456789-_"
BLOCK = 1024
LS = [0, 1, 2, 3, 4, 5, 6]


def idx_to_str(k, n):
    """k-th Base64 string of length n (independent of hio)."""
    out = []
    for _ in range(n):
        out.append(ALPHA[k % 64])
        k //= 64
    return "".join(reversed(out))


def cases(tier, seed, shard, nshards):
    ibits = 14 if tier == "quick" else 18
    smax = 2 if tier == "quick" else 3
    n = 0
    for lo in range(0, 1 << ibits, BLOCK):
        if n % nshards == shard:
            yield {"kind": "intblock", "lo": lo, "hi": lo + BLOCK, "ls": LS}
        n += 1
    for ln in range(1, smax + 1):
        total = 64 ** ln
        for lo in range(0, total, BLOCK):
            if n % nshards == shard:
                yield {"kind": "strblock", "n": ln, "lo": lo, "hi": min(total, lo + BLOCK)}
            n += 1
    nb = 1 if tier == "quick" else 2
    for lo in range(0, 256 ** nb, BLOCK):
        if n % nshards == shard:
            yield {"kind": "nabblock", "nbytes": nb, "lo": lo, "hi": min(256 ** nb, lo + BLOCK)}
        n += 1

    # history cases: every judged conversion must be independent of the calls made before it, failed ones included
    for pi in range(len(POISON)):
        for qi in range(len(PROBES)):
            if n % nshards == shard:
                yield {"kind": "hist", "ops": [["poison", pi], ["probe", qi], ["probe", qi]]}
            n += 1
    hrng = random.Random(f"{seed}:C26:hist:{shard}")
    for _ in range((600 if tier == "quick" else 20000) // nshards):
        ops = []
        for _ in range(hrng.randint(2, 30)):
            if hrng.random() < 0.45:
                ops.append(["poison", hrng.randrange(len(POISON))])
            else:
                ops.append(["probe", hrng.randrange(len(PROBES))])
        ops.append(["probe", hrng.randrange(len(PROBES))])
        yield {"kind": "hist", "ops": ops}

    rng = random.Random(f"{seed}:C26:{shard}")
    nrand = (8000 if tier == "quick" else 120000) // nshards
    for _ in range(nrand):
        bits = rng.choice([rng.randint(0, 64), rng.randint(0, 600), rng.randint(0, 4096)])
        i = rng.getrandbits(bits) if bits else 0
        if rng.random() < 0.2 and bits:
            i = (1 << bits) - rng.choice([0, 1])          # 64^k boundaries and all-ones
        need = max(1, -(-i.bit_length() // 6))
        l = rng.choice([0, 1, need - 1, need, need + 1, rng.randint(0, 700)])
        yield {"kind": "int", "i_hex": hex(i), "l": max(0, l)}
    for _ in range(nrand):
        ln = rng.choice([rng.randint(1, 8), rng.randint(1, 64)])
        s = "".join(rng.choice(ALPHA) for _ in range(ln))
        if rng.random() < 0.2:
            s = rng.choice("A_") * ln                     # all-zero / all-one sextets
        tail = bytes(rng.getrandbits(8) for _ in range(rng.choice([0, 1, 2, 3, rng.randint(0, 40)])))
        yield {"kind": "str", "s": s, "tail": tail.decode("latin-1")}
    for _ in range(nrand):
        b = bytes(rng.getrandbits(8) for _ in range(rng.randint(0, 48)))
        if rng.random() < 0.2:
            b = b"\xff" * len(b)
        maxl = len(b) * 8 // 6
        l = rng.choice([0, maxl, rng.randint(0, maxl), rng.randint(0, maxl + 3)])
        yield {"kind": "nab", "b": b.decode("latin-1"), "l": l}


# ---- call histories -------------------------------------------------------------------------------
# Calls that are expected to fail (wrong type of l, non-Base64 characters, too few bytes ...).  Nothing is demanded of
# them - raising or returning is only counted - except that they leave no trace: the conversions made afterwards must
# give what they give in a fresh history.  Arguments are JSON values, {"b": latin-1 text} stands for bytes.
# (never a negative integer: intToB64 does not terminate on those)
POISON = [
    ["intToB64", [5, 2.0]], ["intToB64", [5, None]], ["intToB64", [4096, "2"]], ["intToB64", [1 << 70, 3.0]],
    ["intToB64", [5.5, 1]], ["intToB64", ["x", 1]], ["intToB64", [None, 1]], ["intToB64", [77, [1]]],
    ["intToB64", [1e300, 2.5]], ["intToB64b", [5, 2.0]], ["intToB64b", [262143, None]],
    ["b64ToInt", ["A!"]], ["b64ToInt", [""]], ["b64ToInt", [{"b": "\xff\xfe"}]], ["b64ToInt", [None]], ["b64ToInt", [5]],
    ["b64ToInt", [["_", "A", "!"]]],
    ["codeB64ToB2", ["AB!"]], ["codeB64ToB2", [""]], ["codeB64ToB2", [None]], ["codeB64ToB2", ["__ _"]],
    ["codeB2ToB64", [{"b": "\x00"}, 5]], ["codeB2ToB64", [{"b": "\xff\xff\xff"}, 2.0]], ["codeB2ToB64", [{"b": "\xff"}, None]],
    ["codeB2ToB64", [None, 1]], ["codeB2ToB64", [{"b": "\xfc\x10\x02\x77"}, "4"]],
    ["nabSextets", [{"b": ""}, 3]], ["nabSextets", [{"b": "\xff\xff"}, 1.5]], ["nabSextets", [None, 1]],
]
# judged conversions used as probes after them
PROBES = [
    ["int", 7, 1], ["int", 0, 1], ["int", 0, 3], ["int", 63, 2], ["int", 64, 1], ["int", 4095, 2], ["int", 4096, 5],
    ["int", (1 << 66) + 5, 0], ["int", 5, 0],
    ["str", "H", ""], ["str", "-BAC", ""], ["str", "-BA", "\xff"], ["str", "AA", ""], ["str", "__________", "\x00\x01"],
    ["nab", "\xf8\x10\x02", 4], ["nab", "\xff\xff\xff", 1], ["nab", "\xff\xff\xff\xff", 3], ["nab", "", 0],
]


def _arg(a):
    if isinstance(a, dict) and set(a) == {"b"}:
        return a["b"].encode("latin-1")
    return a


def outcome(fn, args):
    """('ret', value) | ('raise', exception type name) of one call of the real function"""
    try:
        return ("ret", getattr(helping, fn)(*args))
    except Exception as ex:
        return ("raise", type(ex).__name__)


def probe_calls(pr):
    """the real calls a probe stands for: [(function name, args)]"""
    if pr[0] == "int":
        i, l = pr[1], pr[2]
        s = ref_digits(i) if l == 0 and i else "A" * max(0, l - len(ref_digits(i))) + ref_digits(i)
        return [("intToB64", (i, l)), ("intToB64b", (i, l)), ("b64ToInt", (s or "A",)), ("b64ToInt", ((s or "A").encode(),))]
    if pr[0] == "str":
        s, tail = pr[1], pr[2].encode("latin-1")
        n = (6 * len(s) + 7) // 8
        # an independent binary form of s so that the decoder is probed even if the encoder were off
        bits = "".join(f"{ALPHA.index(c):06b}" for c in s).ljust(8 * n, "0")
        b = bytes(int(bits[k:k + 8], 2) for k in range(0, 8 * n, 8)) + tail
        return [("codeB64ToB2", (s,)), ("codeB64ToB2", (s.encode(),)), ("codeB2ToB64", (b, len(s))), ("nabSextets", (b, len(s)))]
    b = pr[1].encode("latin-1")
    return [("nabSextets", (b, pr[2])), ("codeB2ToB64", (b, pr[2]))]


def judge_probe(pr, ctx):
    """the existing post-conditions on one probe"""
    if pr[0] == "int":
        check_int(pr[1], pr[2], ctx)
    elif pr[0] == "str":
        tail = pr[2].encode("latin-1")
        check_str(pr[1], (b"", tail) if tail else (b"",), ctx)
    else:
        check_nab(pr[1].encode("latin-1"), pr[2], ctx)


def run_history(case, ctx):
    """H1: a conversion gives the same result whatever was called before it - in particular after a call that raised.
    The fresh-history result of every probe is taken from a reference run at the start of the case (each call made
    twice, the second result kept, so that residue of an earlier case cannot be mistaken for the reference)."""
    used = sorted({op[1] for op in case["ops"] if op[0] == "probe"})
    fresh = {}
    for qi in used:
        calls = probe_calls(PROBES[qi])
        for fn, args in calls:
            outcome(fn, args)
        fresh[qi] = [outcome(fn, args) for fn, args in calls]
    prev = "start"
    prevdesc = "the reference calls"
    kinds = []
    for op, idx in case["ops"]:
        if op == "poison":
            fn, args = POISON[idx]
            res = outcome(fn, [_arg(a) for a in args])
            ctx.count("poison_calls")
            ctx.count("poison_calls_raised" if res[0] == "raise" else "poison_calls_returned")
            ctx.seen("poison_outcomes", [fn, idx, res[0], res[1] if res[0] == "raise" else None])
            prev = "raising-call" if res[0] == "raise" else "odd-successful-call"
            prevdesc = f"{fn}{tuple(args)!r} which {'raised ' + res[1] if res[0] == 'raise' else 'returned ' + repr(res[1])[:60]}"
            kinds.append("P" + res[0][:2])
            continue
        pr = PROBES[idx]
        calls = probe_calls(pr)
        dirty = False
        for (fn, args), want in zip(calls, fresh[idx]):
            got = outcome(fn, args)
            ctx.count("history_probe_calls")
            ctx.count("history_probe_calls_after_" + prev.replace("-", "_"))
            if got != want:
                dirty = True
                ctx.violation(f"result-depends-on-call-history:{fn}:after-{prev}",
                              f"{fn}{args!r}: fresh history -> {want!r}; right after {prevdesc} -> {got!r}")
        if not dirty:
            judge_probe(pr, ctx)
        kinds.append("J")
        prev = "judged-call"
        prevdesc = f"the judged probe {pr!r:.80}"
    return kinds


# ---- reference pieces (independent of hio) ----------------------------------
def ref_digits(i):
    """minimal positional base-64 digits of i (at least one)."""
    out = [ALPHA[i % 64]]
    i //= 64
    while i:
        out.append(ALPHA[i % 64])
        i //= 64
    return "".join(reversed(out))


def ref_nab(b, l):
    """first 6*l bits of b, then zero bits up to a whole number of octets; None when b is too short."""
    n = (6 * l + 7) // 8
    if n > len(b):
        return None
    bits = "".join(f"{x:08b}" for x in b[:n])
    keep = bits[:6 * l] + "0" * (8 * n - 6 * l)
    return bytes(int(keep[k:k + 8], 2) for k in range(0, 8 * n, 8))


# ---- the judged checks -------------------------------------------------------
def check_int(i, l, ctx, big=False):
    case = {"kind": "int", "i_hex": hex(i), "l": l}
    try:
        s = helping.intToB64(i, l)
    except Exception as ex:
        ctx.violation(f"int-roundtrip:intToB64-raises:{type(ex).__name__}", f"intToB64({i}, {l}) raised {ex!r}", case=case)
        return
    ctx.count("int_roundtrips_checked")
    if big:
        ctx.count("big_int_roundtrips")
    if not isinstance(s, str) or any(c not in helping.B64IdxByChr for c in s):
        ctx.violation("int-result-not-base64-chars", f"intToB64({i}, {l}) = {s!r}", case=case)
        return
    if len(s) < l:
        ctx.violation("int-length-below-minimum", f"intToB64({i}, {l}) = {s!r} has {len(s)} < {l} chars", case=case)
    digits = ref_digits(i)
    if len(s) == l and l > len(digits):
        ctx.count("int_padded_results")
    if len(s) > l:
        ctx.count("int_lengthened_results")
    # observation only: the statement does not fix which digits are used
    if l >= 1:
        ctx.count("int_agrees_with_reference_encoder" if s == "A" * (l - len(digits)) + digits
                  else "int_differs_from_reference_encoder")
    try:
        back = helping.b64ToInt(s)
    except Exception as ex:
        if s == "" and l == 0:
            # mechanism: `while l:` never runs for l == 0, result is '' whatever i is; b64ToInt('') is "undefined"
            key = "int-roundtrip:l0-empty-string:nonzero-int-dropped" if i else "int-roundtrip:l0-empty-string:zero"
            ctx.violation(key, f"intToB64({i if i < 1 << 64 else hex(i)}, 0) = '' and b64ToInt('') raises {ex!r}: "
                               f"the integer is not recovered", case=case)
        else:
            ctx.violation(f"int-roundtrip:b64ToInt-raises:{type(ex).__name__}",
                          f"b64ToInt(intToB64({i}, {l}) = {s!r}) raised {ex!r}", case=case)
        return
    if back != i:
        ctx.violation("int-roundtrip:mismatch", f"b64ToInt(intToB64({i}, {l}) = {s!r}) = {back}", case=case)
    # bytes variants agree with str variants
    try:
        sb = helping.intToB64b(i, l)
        bb = helping.b64ToInt(s.encode())
    except Exception as ex:
        ctx.violation(f"bytes-variant-raises:{type(ex).__name__}", f"intToB64b/b64ToInt(bytes) for ({i}, {l}) raised {ex!r}", case=case)
        return
    ctx.count("bytes_variant_checks")
    if sb != s.encode():
        ctx.violation("bytes-variant-disagrees:intToB64b", f"intToB64b({i}, {l}) = {sb!r} but intToB64 = {s!r}", case=case)
    if bb != back:
        ctx.violation("bytes-variant-disagrees:b64ToInt", f"b64ToInt({s.encode()!r}) = {bb} but b64ToInt({s!r}) = {back}", case=case)


def check_nab(b, l, ctx, case=None):
    exp = ref_nab(b, l)
    case = case or {"kind": "nab", "b": b.decode("latin-1"), "l": l}
    try:
        got = helping.nabSextets(b, l)
    except ValueError as ex:
        if exp is None:
            ctx.count("nab_short_input_rejected")       # documented, not judged
        else:
            ctx.violation("nab-raises:ValueError", f"nabSextets({b!r}, {l}) raised {ex!r} though b holds {l} sextets", case=case)
        return
    except Exception as ex:
        ctx.violation(f"nab-raises:{type(ex).__name__}", f"nabSextets({b!r}, {l}) raised {ex!r}", case=case)
        return
    if exp is None:
        ctx.count("nab_short_input_not_rejected")        # observation only
        return
    ctx.count("nab_model_checks")
    if (6 * l) % 8:
        ctx.count("nab_with_pad_bits")
    if got != exp:
        ctx.violation("nab-leading-bits:mismatch",
                      f"nabSextets({b!r}, {l}) = {got!r}; first {6 * l} bits + zero pad = {exp!r}", case=case)


def check_str(s, tails, ctx):
    case0 = {"kind": "str", "s": s, "tail": ""}
    try:
        b = helping.codeB64ToB2(s)
    except Exception as ex:
        ctx.violation(f"code-roundtrip:codeB64ToB2-raises:{type(ex).__name__}", f"codeB64ToB2({s!r}) raised {ex!r}", case=case0)
        return
    if not isinstance(b, (bytes, bytearray)):
        ctx.violation("code-binary-not-bytes", f"codeB64ToB2({s!r}) = {b!r}", case=case0)
        return
    try:
        bb = helping.codeB64ToB2(s.encode())
        ctx.count("bytes_variant_checks")
        if bb != b:
            ctx.violation("bytes-variant-disagrees:codeB64ToB2", f"codeB64ToB2({s.encode()!r}) = {bb!r} but str gives {b!r}", case=case0)
    except Exception as ex:
        ctx.violation(f"bytes-variant-raises:{type(ex).__name__}", f"codeB64ToB2({s.encode()!r}) raised {ex!r}", case=case0)
    if len(b) == (6 * len(s) + 7) // 8:
        ctx.count("code_binary_minimal_octets")
    else:
        ctx.count("code_binary_not_minimal_octets")       # docstring, not statement: observed only
    for tail in tails:
        case = {"kind": "str", "s": s, "tail": tail.decode("latin-1")}
        buf = bytes(b) + tail
        try:
            t = helping.codeB2ToB64(buf, len(s))
        except Exception as ex:
            ctx.violation(f"code-roundtrip:codeB2ToB64-raises:{type(ex).__name__}",
                          f"codeB2ToB64({buf!r}, {len(s)}) raised {ex!r} (s={s!r})", case=case)
            continue
        ctx.count("code_roundtrips_checked")
        if tail:
            ctx.count("code_roundtrips_with_trailing_bytes")
        if t != s:
            ctx.violation("code-roundtrip:mismatch" if not tail else "code-roundtrip:trailing-bytes-leak",
                          f"codeB2ToB64(codeB64ToB2({s!r}) + {tail!r}, {len(s)}) = {t!r}", case=case)
        check_nab(buf, len(s), ctx, case=case)


# ---- case runner ----------------------------------------------------------------
def run_case(case, ctx):
    k = case["kind"]
    if k == "intblock":
        for i in range(case["lo"], case["hi"]):
            for l in case["ls"]:
                check_int(i, l, ctx)
        ctx.nontrivial(["intblock", case["lo"]])
        if case["lo"] == 0:
            ctx.sample({"case": case, "observed": {f"intToB64({i},{l})": helping.intToB64(i, l)
                                                   for i, l in [(0, 1), (0, 3), (63, 1), (64, 1), (4095, 2), (4096, 2), (5, 0)]}})
    elif k == "strblock":
        for j in range(case["lo"], case["hi"]):
            check_str(idx_to_str(j, case["n"]), (b"", b"\x00", b"\xff\xff"), ctx)
        ctx.nontrivial(["strblock", case["n"], case["lo"]])
    elif k == "nabblock":
        nb = case["nbytes"]
        for j in range(case["lo"], case["hi"]):
            b = j.to_bytes(nb, "big")
            for l in range(0, nb * 8 // 6 + 2):
                check_nab(b, l, ctx)
        ctx.nontrivial(["nabblock", nb, case["lo"]])
    elif k == "hist":
        kinds = run_history(case, ctx)
        ctx.seen("history_shapes", kinds)
        if any(x.startswith("Pra") for x in kinds):
            ctx.nontrivial(["hist", case["ops"]])
        if len(case["ops"]) > 3:
            ctx.sample({"case": case, "outcomes": kinds})
    elif k == "int":
        i = int(case["i_hex"], 16)
        check_int(i, case["l"], ctx, big=i.bit_length() > 64)
        ctx.seen("int_bitlen_x_l", [i.bit_length(), case["l"]])
        if case["l"] > max(1, -(-i.bit_length() // 6)):
            ctx.nontrivial(["int", i.bit_length(), case["l"]])
        if i.bit_length() > 1000:
            ctx.sample({"case": {"kind": "int", "bits": i.bit_length(), "l": case["l"]},
                        "len(intToB64)": len(helping.intToB64(i, case["l"]))})
    elif k == "str":
        s = case["s"]
        tail = case["tail"].encode("latin-1")
        check_str(s, (b"", tail) if tail else (b"",), ctx)
        ctx.seen("str_len_x_tail", [len(s), len(tail)])
        if len(s) % 4:
            ctx.nontrivial(["str", len(s), len(tail)])
    elif k == "nab":
        b = case["b"].encode("latin-1")
        check_nab(b, case["l"], ctx)
        ctx.seen("nab_len_x_l", [len(b), case["l"]])
        if (6 * case["l"]) % 8:
            ctx.nontrivial(["nab", len(b), case["l"]])
    else:
        raise AssertionError(k)
    # the empty code string: observed, not judged
    if k == "strblock" and case["lo"] == 0 and case["n"] == 1:
        try:
            helping.codeB64ToB2("")
            ctx.count("empty_code_string_accepted")
        except ValueError:
            ctx.count("empty_code_string_rejected_ValueError")
