"""C20 - memos survive segmentation into grams and any delivery order (exactly-once ledger).

Monitor shape: differential producer/consumer with unique ids.  A real sender `Memoer` (recording
transport) cuts every memo into datagrams through memoit -> serviceAllTx -> rend/sign -> send.  A
real receiver `Memoer` gets those datagrams through its own receive path (receive -> pick/verify ->
rxgs -> fuse -> rxms -> inbox) in the order a schedule dictates.  The ledger then decides:

  L1  a memo all of whose grams were handed over at least once is in the receiver's delivered
      memos (inbox ++ rxms) EXACTLY once, with identical text, source address and signer id (vid);
  L2  a memo with a gram that was never handed over is never delivered (checked at every service
      point, not only at the end);
  L3  nothing else is delivered (no foreign / corrupted text);
  L4  neither side raises on genuine input.

Schedules: every delivery sequence (with repeats, so: permutations, duplicates before completion,
partial duplicates after completion, full replays, missing grams) up to a bounded length over the
grams of a 2- or 3-gram memo (exhaustive), for each of the four zero-gram codes x base64/binary
headers; plus random schedules of the same classes over 1-4 interleaved memos of 1..64 grams with
mixed-width unicode whose multi-byte characters straddle gram borders, gram sizes from the legal
minimum to the default maximum.
"""
import itertools
import random

from hio import hioing
from hio.core.memo.memoing import Memoer

from vf.mon import memoshim as ms

ID = "C20"
LEVEL = "exploration"
TECHNIQUE = ("producer/consumer differential with an exactly-once ledger over unique memo ids; real rend/sign on the "
             "sender, real receive/pick/verify/fuse on the receiver, delivery schedules enumerated and random")
RULE = ("a case = gram code (plain/auth/sure/sure+auth) x header encoding x gram size x 1-4 unicode memos x a delivery "
        "schedule of (memo, gram) events x service batching/API. Exhaustive part: every sequence with repeats of length "
        "<= 5 (quick) / <= 7 for 2-3 grams, <= 6 for 4 grams (thorough) over the grams of one memo, for all 8 code x "
        "encoding combinations; size sweep from the legal minimum upward; random part: schedules classed in-order, "
        "permuted, zeroth-first, duplicates-before-completion, partial-duplicates-after-completion, full-replay, "
        "one-gram-missing, interleaved. Non-trivial = the schedule is not a plain in-order single delivery; distinct = "
        "by code, encoding, gram counts and the schedule itself.")
ASSUMPTIONS = [
    "exactly once is per memo (memo id): two memos with the same text, source and signer are two deliveries",
    "memo ids are unique (the tree draws them from uuid1; the harness substitutes a deterministic counter-based source)",
    "a duplicate is a byte-identical copy of a gram the sender produced; conflicting forgeries are C22's subject",
    "all grams of one memo arrive from one source address",
    "the receiver knows the signers' verification keys (keep) for D/E vids",
]
NSHARDS = {"quick": 8, "thorough": 16}
TIMEOUT_S = {"quick": 240, "thorough": 1500}
PEAK_COUNTERS = ("peak_memos_in_reassembly",)
REQUIRE = {"rx_own_size_smaller_than_gram_memos_delivered": 300, "peak_memos_in_reassembly": 300,
           "many_inflight_cases": 40, "many_inflight_memos_delivered": 5000, "twin_cases": 300, "twin_memos_delivered": 700, "twin_bursts_with_two_completions": 100,
           "deliveries_fed": 5000, "memos_delivered_exactly_once": 1000, "memos_withheld_never_delivered": 300,
           "service_points": 3000, "straddled_gram_borders": 200, "schedule_classes": 8, "signed_grams_verified": 500}
EXHAUSTIVE = {
    "quick": "all delivery sequences with repeats of length <= 5 over the grams of a 2-gram and a 3-gram memo, "
             "x 4 zero-gram codes x base64/binary headers, serviced after every datagram",
    "thorough": "all delivery sequences with repeats of length <= 7 (2 and 3 grams) and <= 6 (4 grams), x 4 codes x "
                "base64/binary headers, serviced after every datagram and only at the end",
}

CLASSES = ["inorder", "permuted", "zeroth-first", "dup-before", "partial-dup-after", "replay", "missing", "interleaved"]


# ---------------------------------------------------------------------------
# case generation
# ---------------------------------------------------------------------------
def min_size(code, curt):
    return Memoer(code=code, curt=curt, size=1).size


def working_size(code, curt):
    """Smallest gram size >= the legal minimum at which the real rend works (== the minimum on a correct tree)."""
    base = min_size(code, curt)
    for d in range(0, 16):
        if ms.layout(code, curt, base + d)[0] != "fail":
            return base + d
    return base + 16


def memo_spec(uid, n, code, curt, size, src, signer, tseed, slack=0, nbytes=None):
    if nbytes is None:
        nbytes = ms.nbytes_for(n, code, curt, size, slack)
    return {"uid": uid, "n": n, "nbytes": nbytes if nbytes is not None else 24, "tseed": tseed, "src": src,
            "signer": signer}


def build_schedule(cls, n, rng):
    """Events (gram indices) for one memo of n grams; returns (events, complete?)."""
    idx = list(range(n))
    if cls == "inorder":
        return idx, True
    if cls == "permuted":
        rng.shuffle(idx)
        return idx, True
    if cls == "zeroth-first":
        rest = idx[1:]
        rng.shuffle(rest)
        return [0] + rest, True
    if cls == "dup-before":
        rng.shuffle(idx)
        last = idx[-1]
        pre = []
        for g in idx[:-1]:
            pre += [g] * rng.randint(1, 3)
        if len(pre) > 1 and rng.random() < 0.7:
            rng.shuffle(pre)
        if n == 1:
            return [0], True
        return pre + [last], True
    if cls == "zeroth-first-dup-before":
        rest = idx[1:]
        rng.shuffle(rest)
        if not rest:
            return [0], True
        last = rest[-1]
        pre = [0]
        for g in [0] + rest[:-1]:
            pre += [g] * rng.randint(0, 2)
        return pre + [g for g in rest[:-1] if g not in pre] + [last], True
    if cls == "partial-dup-after":
        first = list(idx)
        if rng.random() < 0.5:
            rng.shuffle(first)
        if n == 1:
            return first, True
        k = rng.randint(1, n - 1)
        again = rng.sample(idx, k)
        again += [rng.choice(again) for _ in range(rng.randint(0, 2))]
        return first + again, True
    if cls == "replay":
        first = list(idx)
        again = list(idx)
        if rng.random() < 0.5:
            rng.shuffle(again)
        out = first + again
        if rng.random() < 0.2:
            out += list(idx)
        return out, True
    if cls == "missing":
        if n == 1:
            return [], False
        miss = rng.randrange(n)
        ev = [g for g in idx if g != miss]
        ev += [rng.choice(ev) for _ in range(rng.randint(0, 3))]
        rng.shuffle(ev)
        return ev, False
    raise AssertionError(cls)


def interleave(per_memo, rng):
    """Merge per-memo event lists preserving each memo's own order."""
    pos = [0] * len(per_memo)
    out = []
    live = [i for i, ev in enumerate(per_memo) if ev]
    while live:
        i = rng.choice(live)
        out.append([i, per_memo[i][pos[i]]])
        pos[i] += 1
        if pos[i] >= len(per_memo[i]):
            live.remove(i)
    return out


def cases(tier, seed, shard, nshards):
    quick = tier == "quick"
    i = 0
    # ---- 1. exhaustive delivery sequences over one small memo ------------------------------------
    plans = [(2, 5), (3, 5)] if quick else [(2, 7), (3, 7), (4, 6)]
    batches = ["each"] if quick else ["each", "end"]
    for code in ms.ZERO_CODES:
        signed = code in ms.AUTH_ZERO
        for curt in (False, True):
            size = working_size(code, curt)
            for n, maxlen in plans:
                memo = memo_spec("m0", n, code, curt, size, "src0", 1 if signed else None, 7 * n + curt)
                for ln in range(1, maxlen + 1):
                    for seq in itertools.product(range(n), repeat=ln):
                        for batch in batches:
                            if i % nshards == shard:
                                yield {"kind": "enum", "class": "enum", "code": code, "curt": curt, "size": size,
                                       "rx_authic": signed and (ln % 2 == 0), "api": "all", "batch": batch,
                                       "memos": [memo], "schedule": [[0, g] for g in seq]}
                            i += 1
    # ---- 2. gram-size sweep from the legal minimum, simple schedules ----------------------------------
    for code in ms.ZERO_CODES:
        signed = code in ms.AUTH_ZERO
        for curt in (False, True):
            base = min_size(code, curt)
            for d in list(range(0, 13)) + [40, 200, 548 - base, 1240 - base, None]:
                size = None if d is None else base + d
                for cls in ("inorder", "zeroth-first"):
                    if i % nshards == shard:
                        lay = ms.layout(code, curt, size)
                        n = 3 if lay[0] == "fail" or lay[1] < 3000 else 2
                        rng = random.Random(f"{seed}:C20:sweep:{code}:{curt}:{d}:{cls}")
                        ev, _ = build_schedule(cls, n, rng)
                        yield {"kind": "sweep", "class": cls, "code": code, "curt": curt, "size": size,
                               "rx_authic": signed, "api": "once" if cls == "inorder" else "all", "batch": 1,
                               "memos": [memo_spec("sw", n, code, curt, size, "srcS", 0 if signed else None,
                                                   rng.randrange(1 << 30), slack=rng.randint(0, 2))],
                               "schedule": [[0, g] for g in ev]}
                    i += 1
    # ---- 2b. short memos (1..12 bytes) at default, minimal and common gram sizes -------------------------
    for code in ms.ZERO_CODES:
        signed = code in ms.AUTH_ZERO
        for curt in (False, True):
            base = min_size(code, curt)
            for size in (None, base, base + 5, base + 12, 548):
                for nbytes in range(1, 13):
                    if i % nshards == shard:
                        yield {"kind": "short", "class": "inorder", "code": code, "curt": curt, "size": size,
                               "rx_authic": signed, "api": "all", "batch": "end",
                               "memos": [memo_spec(f"s{nbytes}", None, code, curt, size, "srcT",
                                                   2 if signed else None, nbytes, nbytes=nbytes)],
                               "schedule": None}
                    i += 1
    # ---- 2c. twins: DISTINCT memos (distinct memo ids) with identical text, source and signer ----------------
    for code in ms.ZERO_CODES:
        signed = code in ms.AUTH_ZERO
        for curt in (False, True):
            size = working_size(code, curt) + 4
            for n in (1, 2, 3):
                nbytes = ms.nbytes_for(n, code, curt, size, 1)
                for k in (2, 3):
                    for mix in ("sequential", "roundrobin", "last-grams-together"):
                        for batch in ("end", 1, 2):
                            for api in ("all", "once"):
                                if not quick or (api == "all" or batch == "end"):
                                    if i % nshards == shard:
                                        yield {"kind": "twins", "class": "twins", "code": code, "curt": curt,
                                               "size": size, "rx_authic": signed and k == 2, "api": api,
                                               "batch": batch, "n": n, "copies": k, "mix": mix,
                                               "nbytes": nbytes if nbytes else 24, "signer": 1 if signed else None,
                                               "withhold": None}
                                    i += 1
                    if n > 1:       # one of the twins never completes
                        if i % nshards == shard:
                            yield {"kind": "twins", "class": "twins", "code": code, "curt": curt, "size": size,
                                   "rx_authic": signed, "api": "all", "batch": "end", "n": n, "copies": k,
                                   "mix": "roundrobin", "nbytes": nbytes if nbytes else 24,
                                   "signer": 1 if signed else None, "withhold": [k - 1, n - 1]}
                        i += 1
    # ---- 2d. sender and receiver configured with different gram sizes (a peer's .size is its own TRANSMIT size) ---
    for code in ms.ZERO_CODES:
        signed = code in ms.AUTH_ZERO
        for curt in (False, True):
            for tx_size, rx_size in ((400, 250), (1000, 300), (1240, 548), (2000, 1), (400, None), (250, 400),
                                     (None, 300)):
                for cls in ("inorder", "zeroth-first", "dup-before"):
                    if i % nshards == shard:
                        n = 2 if tx_size is None else 3
                        rng = random.Random(f"{seed}:C20:rxsize:{code}:{curt}:{tx_size}:{rx_size}:{cls}")
                        ev, _ = build_schedule("zeroth-first-dup-before" if cls == "dup-before" else cls, n, rng)
                        yield {"kind": "rxsize", "class": cls, "code": code, "curt": curt, "size": tx_size,
                               "rx_size": rx_size, "rx_authic": signed, "api": "all", "batch": 1,
                               "memos": [memo_spec("rs", n, code, curt, tx_size, "srcR", 3 if signed else None,
                                                   rng.randrange(1 << 30), slack=2)],
                               "schedule": [[0, g] for g in ev]}
                    i += 1
    # ---- 2e. many memos being reassembled at once ------------------------------------------------------
    for code in (["bAAA", "bAAC"] if quick else ms.ZERO_CODES):
        signed = code in ms.AUTH_ZERO
        for curt in (False, True):
            size = working_size(code, curt) + 11       # room for a unique tag even in a one-gram memo
            for count in (100, 150, 300):
                for n in (1, 3):
                    for pattern in ("burst", "roundrobin-each", "roundrobin-25"):
                        if n == 1 and pattern != "burst":
                            continue
                        if pattern == "roundrobin-each" and count > 150 and quick:
                            continue
                        if i % nshards == shard:
                            yield {"kind": "many", "class": "many", "code": code, "curt": curt, "size": size,
                                   "rx_authic": signed, "count": count, "n": n, "pattern": pattern,
                                   "nbytes": ms.nbytes_for(n, code, curt, size, 1) or 24,
                                   "signer": 4 if signed else None}
                        i += 1
    # ---- 3. random schedules ------------------------------------------------------------------
    rng = random.Random(f"{seed}:C20:{shard}")
    nrand = (3200 if quick else 120000) // nshards
    for k in range(nrand):
        code = rng.choice(ms.ZERO_CODES)
        signed = code in ms.AUTH_ZERO
        curt = rng.random() < 0.5
        base = working_size(code, curt)
        r = rng.random()
        if r < 0.45:
            size = base + rng.randint(0, 6)
        elif r < 0.8:
            size = base + rng.randint(7, 120)
        elif r < 0.95:
            size = rng.choice([548, 1240, 2000])
        else:
            size = None
        cls = CLASSES[k % len(CLASSES)]
        if signed and cls in ("permuted", "dup-before") and rng.random() < 0.5:
            # keep assurance for signed grams beyond the zeroth-first constraint of this tree
            cls = "zeroth-first" if cls == "permuted" else "zeroth-first-dup-before"
        nm = rng.randint(2, 4) if cls == "interleaved" else 1
        memos, per = [], []
        for m in range(nm):
            lay = ms.layout(code, curt, size)
            big = lay[0] != "fail" and lay[1] >= 400
            if big:
                n = rng.choice([1, 1, 2, 2, 3, 4])
            elif rng.random() < 0.1:
                n = rng.randint(13, 64)
            else:
                n = rng.randint(1, 12)
            if cls in ("missing", "partial-dup-after") and n == 1:
                n = 2
            uid = f"m{m}.{k}"
            while nm > 1 and (ms.nbytes_for(n, code, curt, size, 3) or 99) < len(uid) + 4:
                n += 1                  # room for the unique tag, so that interleaved memo texts cannot coincide
            memos.append(memo_spec(uid, n, code, curt, size, f"src{m}",
                                   rng.randrange(0, 6) if signed else None, rng.randrange(1 << 30),
                                   slack=rng.randint(0, 3)))
            sub = cls
            if cls == "interleaved":
                sub = rng.choice(["inorder", "permuted", "zeroth-first", "dup-before", "missing", "zeroth-first"])
                if sub == "missing" and n == 1:
                    sub = "inorder"
            ev, _ = build_schedule(sub, n, rng)
            per.append(ev)
        schedule = interleave(per, rng)
        yield {"kind": "rand", "class": cls, "code": code, "curt": curt, "size": size,
               "rx_size": rng.choice([None, None, 1, 64, 200, 300]),
               "rx_authic": signed and rng.random() < 0.7, "api": rng.choice(["all", "all", "once"]),
               "batch": rng.choice([1, 1, 2, 3, "end"]), "memos": memos, "schedule": schedule}


# ---------------------------------------------------------------------------
# one case
# ---------------------------------------------------------------------------
def setup(ctx):
    ms.install_fake_uuid()


def _curt_skew(case, ml):
    """Diagnosis label only (never decides): with binary headers this tree sizes the zeroth gram with the
    binary overhead but the non-zeroth grams with the (larger) base64 overhead.  Returns which arithmetic
    consequence of that applies to a memo of ml bytes, or None."""
    code, curt = case["code"], case["curt"]
    if not curt:
        return None
    try:
        eff = Memoer(code=code, curt=True, size=case["size"]).size
        zbz = eff - 3 * sum(Memoer.Sizes[code]) // 4
        nbz = eff - sum(Memoer.Sizes[Memoer.Pairs[code]])
    except Exception:
        return None
    if nbz <= 0:
        return "gram-size-below-base64-overhead"
    if ml + nbz - zbz <= 0:
        return "short-memo-gram-count-not-positive"
    return None


def _tx_key(case, ex, ml):
    """Name the mechanism of a sender-side failure."""
    skew = _curt_skew(case, ml)
    if skew:
        return "curt-sizing:" + skew
    return ms.escape_key(ex, "tx-escape")


def _service(rx, api, pending):
    if api == "all":
        rx.serviceAllRx()
    else:
        for _ in range(pending + 3):
            rx.serviceAllRxOnce()


def run_twins(case, ctx):
    """k distinct memos (own memo ids) whose text, source and signer are identical: the receiver must deliver the
    text once PER MEMO.  The ledger is by memo: count of deliveries of the text == number of memos all of whose
    grams were handed over; never more deliveries than complete memos at any service point."""
    ms.reset_mids()
    code, curt, size = case["code"], case["curt"], case["size"]
    signed = code in ms.AUTH_ZERO
    text = ms.make_text("twin", case["nbytes"], random.Random(case["n"]))
    k = case["copies"]
    ctx.seen("schedule_classes", "twins")
    copies = []
    for c in range(k):
        try:
            gs, _tx = ms.render(text, code, curt, size, case["signer"] if signed else None, dst="rx")
        except Exception as ex:
            ctx.violation(_tx_key(case, ex, len(text.encode())), f"sender could not segment the twin memo: {ex!r}")
            return
        copies.append(gs)
    if len({bytes(g) for gs in copies for g in gs}) != sum(len(gs) for gs in copies):
        raise AssertionError("harness: twin memos share a datagram (memo ids not distinct)")
    vid = ms.signer(case["signer"])[0] if signed else None
    n = len(copies[0])
    wh = tuple(case["withhold"]) if case["withhold"] else None
    if case["mix"] == "sequential":
        events = [(c, g) for c in range(k) for g in range(n)]
    elif case["mix"] == "roundrobin":
        events = [(c, g) for g in range(n) for c in range(k)]
    else:   # everything but the last gram of each memo, then all last grams back to back
        events = [(c, g) for c in range(k) for g in range(n - 1)] + [(c, n - 1) for c in range(k)]
    events = [e for e in events if e != wh]
    rx = ms.new_rx(case["rx_authic"], ms.keep_of(range(6)) if signed else None)
    batch = case["batch"]
    fed = [set() for _ in range(k)]
    trace = []

    def complete():
        return sum(1 for c in range(k) if len(fed[c]) == n)

    def check(final=False):
        ctx.count("service_points")
        got = list(rx.inbox) + list(rx.rxms)
        for entry in got:
            if tuple(entry) != (text, "twin-src", vid):
                ctx.violation("corrupt-text:twins", f"delivered {entry!r} instead of the twin memo", trace=trace)
                return False
        if len(got) > complete():
            ctx.violation("delivered-incomplete" if complete() < k else "delivered-twice:without-full-replay",
                          f"{len(got)} deliveries of the twin text but only {complete()} memos are complete", trace=trace)
            return False
        if final and len(got) < complete():
            ctx.violation("lost:distinct-memo-with-identical-text-src-vid-swallowed",
                          f"{complete()} distinct memos (distinct memo ids, {n} grams each, code={code} curt={curt}) with the "
                          f"same text, source and signer were handed over completely, api={case['api']} "
                          f"batch={case['batch']} order={case['mix']}; the receiver delivered the text only {len(got)} "
                          f"time(s); rxgs left: {len(rx.rxgs)}", trace=trace)
            return False
        return True

    try:
        pending = 0
        before = 0
        for step, (c, g) in enumerate(events, 1):
            fed[c].add(g)
            rx.wire.append((copies[c][g], "twin-src", (c, g, step)))
            trace.append(["feed", c, g])
            ctx.count("deliveries_fed")
            pending += 1
            if batch != "end" and step % batch == 0:
                _service(rx, case["api"], pending)
                pending = 0
                if complete() - before >= 2:
                    ctx.count("twin_bursts_with_two_completions")
                before = complete()
                if not check():
                    return
        for _ in range(2):
            _service(rx, case["api"], pending + k)
            pending = 0
            if complete() - before >= 2:
                ctx.count("twin_bursts_with_two_completions")
            before = complete()
            if not check():
                return
        if not check(final=True):
            return
    except Exception as ex:
        ctx.violation(ms.escape_key(ex, "rx-escape"), f"receive path raised on genuine twin grams: {ex!r}", trace=trace)
        return
    finally:
        rx.close()
    ctx.count("twin_cases")
    ctx.count("twin_memos_delivered", complete())
    ctx.nontrivial(["twins", code, curt, n, k, case["mix"], case["batch"], case["api"], case["withhold"]])


def run_many(case, ctx):
    """100-300 distinct memos being reassembled at the same time: a burst that is serviced once, or round-robin
    interleaving of multi-gram memos.  Ledger as always: every memo whose grams were all handed over is delivered
    exactly once with its own text, source and signer."""
    ms.reset_mids()
    code, curt, size, count, n = case["code"], case["curt"], case["size"], case["count"], case["n"]
    signed = code in ms.AUTH_ZERO
    ctx.seen("schedule_classes", "many")
    vid = keep = None
    if signed:
        vid, keyage = ms.signer(case["signer"])
        keep = {vid: keyage}
    tx = ms.new_tx(code, curt, size, vid=vid, keep=keep)
    texts, grams = [], []
    rng = random.Random(count * 7 + n)
    try:
        for m in range(count):
            t = ms.make_text(f"{m:x}", case["nbytes"], rng)
            tx.memoit(t, "rx", vid)
            tx.serviceAllTx()
            texts.append(t)
            grams.append([g for g, _d in tx.sent])
            tx.sent.clear()
    except Exception as ex:
        ctx.violation(_tx_key(case, ex, case["nbytes"]), f"sender could not segment memo: {ex!r}")
        return
    index = {t: m for m, t in enumerate(texts)}
    if len(index) != count:
        raise AssertionError("harness: memo texts not unique")
    if case["pattern"] == "burst":
        events = [(m, g) for m in range(count) for g in range(len(grams[m]))]
        batch = len(events)
    else:
        width = max(len(gs) for gs in grams)
        events = [(m, g) for g in range(width) for m in range(count) if g < len(grams[m])]
        batch = 1 if case["pattern"] == "roundrobin-each" else 25
    rx = ms.new_rx(case["rx_authic"], ms.keep_of(range(6)) if signed else None)
    fed = [set() for _ in range(count)]
    delivered = [0] * count
    seen = 0
    trace = [["pattern", case["pattern"], count, n]]

    def service():
        nonlocal seen
        rx.serviceReceives()                    # the three public steps serviceAllRx() is made of,
        ctx.peak("peak_memos_in_reassembly", len(rx.rxgs))   # called one by one to observe the peak in between
        rx.serviceRxGrams()
        rx.serviceRxMemos()
        ctx.count("service_points")
        box = rx.inbox
        while seen < len(box):
            text, src, v = box[seen]
            seen += 1
            m = index.get(text)
            if m is None:
                ctx.violation("corrupt-text:other", f"delivered a text no sender sent: {text[:60]!r}", trace=trace)
                return False
            if src != f"src{m % 5}" or (signed and v != vid):
                ctx.violation("src-mismatch" if src != f"src{m % 5}" else "vid-mismatch",
                              f"memo {m} delivered with src={src!r} vid={v!r}", trace=trace)
                return False
            delivered[m] += 1
            if len(fed[m]) != len(grams[m]):
                ctx.violation("delivered-incomplete", f"memo {m} delivered before all its grams were handed over",
                              trace=trace)
                return False
            if delivered[m] > 1:
                ctx.violation("delivered-twice:without-full-replay", f"memo {m} delivered twice", trace=trace)
                return False
        return True

    try:
        for step, (m, g) in enumerate(events, 1):
            fed[m].add(g)
            rx.wire.append((grams[m][g], f"src{m % 5}", (m, g, step)))
            ctx.count("deliveries_fed")
            if step % batch == 0 and not service():
                return
        for _ in range(2):
            if not service():
                return
        lost = [m for m in range(count) if delivered[m] == 0]
        if lost:
            ok = {(t[0], t[1]) for t, o, _n in rx.picklog if o == "ok"}
            zeroth_ok = all((m, 0) in ok for m in lost)
            # the zeroth gram was accepted (count, source, signer recorded) and no gram is missing, yet the memo never
            # completed: its reassembly state was discarded before it could be fused
            ctx.violation("lost:reassembly-state-discarded-before-fuse" if zeroth_ok else "lost:genuine-gram-rejected:many",
                          f"{len(lost)} of {count} memos ({n} gram(s) each, code={code} curt={curt}, pattern "
                          f"{case['pattern']}) were never delivered although every gram was handed over once; "
                          f"{'pick accepted the zeroth gram of each of them' if zeroth_ok else 'pick rejected a zeroth gram'}; "
                          f"first lost memos: {lost[:8]}; memos still in rxgs: {len(rx.rxgs)}", trace=trace)
            return
    except Exception as ex:
        ctx.violation(ms.escape_key(ex, "rx-escape"), f"receive path raised on genuine grams: {ex!r}", trace=trace)
        return
    finally:
        rx.close()
    ctx.count("many_inflight_cases")
    ctx.count("many_inflight_memos_delivered", count)
    ctx.nontrivial(["many", code, curt, count, n, case["pattern"]])


def run_case(case, ctx):
    if case["kind"] == "twins":
        return run_twins(case, ctx)
    if case["kind"] == "many":
        return run_many(case, ctx)
    ms.reset_mids()
    code, curt, size = case["code"], case["curt"], case["size"]
    signed = code in ms.AUTH_ZERO
    memos = case["memos"]
    cls = case["class"]
    ctx.seen("schedule_classes", cls)
    ctx.seen("config", [code, curt])

    # ---- sender side: the real transmit path ---------------------------------------------------
    texts, grams, vids = [], [], []
    for m in memos:
        text = ms.make_text(m["uid"], m["nbytes"], random.Random(m["tseed"]))
        texts.append(text)
        try:
            gs, tx = ms.render(text, code, curt, size, m["signer"] if signed else None, dst="rx")
        except Exception as ex:
            ctx.count("tx_failures")
            ctx.violation(_tx_key(case, ex, len(text.encode())),
                          f"sender could not segment a {len(text.encode())}-byte memo with code={code} curt={curt} "
                          f"size={size} (effective {Memoer(code=code, curt=curt, size=size).size}): {ex!r}")
            return
        if not gs:
            ctx.violation("tx-no-grams", f"non-empty memo produced no gram (code={code} curt={curt} size={size})")
            return
        grams.append(gs)
        vids.append(ms.signer(m["signer"])[0] if signed else None)
        ctx.count("grams_rendered", len(gs))
        if m["n"] is not None and len(gs) != m["n"]:
            ctx.count("gram_count_differs_from_plan")
        # observation: multi-byte characters cut by a gram border
        lay = ms.layout(code, curt, size) if len(gs) > 1 else ("fail",)
        if lay[0] != "fail":
            raw = text.encode()
            pos = lay[0]
            while pos < len(raw):
                if raw[pos] & 0xC0 == 0x80:
                    ctx.count("straddled_gram_borders")
                pos += lay[1]
    if len(set(texts)) != len(texts):
        raise AssertionError("harness: memo texts not unique")

    # ---- receiver side -----------------------------------------------------------------------
    keep = ms.keep_of(range(6)) if signed else None
    rx = ms.new_rx(case["rx_authic"], keep, case.get("rx_size"))
    rx_smaller = any(len(g) > rx.size for gs in grams for g in gs)
    fed = [set() for _ in memos]            # distinct grams handed over so far, per memo
    fed_after_complete = [None for _ in memos]  # grams handed over again after every gram had been handed over once
    seen_counts = [0 for _ in memos]
    batch = 1 if case["batch"] == "each" else case["batch"]
    if case["schedule"] is None:    # plain in-order delivery of whatever the sender produced
        events = [(0, g) for g in range(len(grams[0]))]
    else:
        events = [(mi, gi) for mi, gi in case["schedule"] if mi < len(grams) and gi < len(grams[mi])]
    nontrivial = events != [(0, g) for g in range(len(grams[0]))] or len(memos) > 1
    dup_before = dup_after = 0
    trace = []

    def check_point(final=False):
        """Ledger evaluation at a service point. Returns False when the case is decided (violation)."""
        ctx.count("service_points")
        delivered = list(rx.inbox) + list(rx.rxms)
        counts = [0 for _ in memos]
        for entry in delivered:
            try:
                text, src, vid = entry
            except Exception:
                ctx.violation("malformed-delivery", f"delivered entry is not (memo, src, vid): {entry!r}", trace=trace)
                return False
            if text not in texts:
                skews = [k for k in (_curt_skew(case, len(t.encode())) for t in texts) if k]
                if text == "" and skews:
                    ctx.violation("curt-sizing:" + skews[0],
                                  f"receiver delivered an EMPTY memo for a {len(texts[0].encode())}-byte memo "
                                  f"(code={code} curt={curt} size={size}): zeroth gram announces a gram count of 0",
                                  trace=trace)
                    return False
                kind = "other"
                for t, gs in zip(texts, grams):
                    if sorted(text.encode()) == sorted(t.encode()) and text != t:
                        kind = "gram-bodies-reordered"
                    elif t.startswith(text) or t.endswith(text) or (text and text in t):
                        kind = "truncated"
                    elif text.startswith(t):
                        kind = "extended"
                ctx.violation("corrupt-text:" + kind,
                              f"receiver delivered a text no sender sent: {text[:80]!r} (len {len(text)}); "
                              f"sent lens {[len(t) for t in texts]} code={code} curt={curt}", trace=trace)
                return False
            mi = texts.index(text)
            counts[mi] += 1
            if src != memos[mi]["src"]:
                ctx.violation("src-mismatch", f"memo {mi} sent from {memos[mi]['src']!r} delivered with src {src!r}",
                              trace=trace)
                return False
            if signed and vid != vids[mi]:
                ctx.violation("vid-mismatch", f"memo {mi} signed by {vids[mi]!r} delivered with vid {vid!r}",
                              trace=trace)
                return False
            if not signed and vid is not None:
                ctx.count("unsigned_memo_with_vid_observed")
        for mi, c in enumerate(counts):
            complete = len(fed[mi]) == len(grams[mi])
            if c and not complete:
                ctx.violation("delivered-incomplete",
                              f"memo {mi} delivered although gram(s) {sorted(set(range(len(grams[mi]))) - fed[mi])} "
                              f"were never handed to the receiver", trace=trace)
                return False
            if c > seen_counts[mi]:
                if c >= 2:
                    again = fed_after_complete[mi] if fed_after_complete[mi] is not None else set()
                    if len(again) == len(grams[mi]):
                        key = "delivered-twice:full-replay-after-completion"
                    else:
                        key = "delivered-twice:without-full-replay"
                    ctx.violation(key, f"memo {mi} ({len(grams[mi])} grams, code={code} curt={curt}) delivered {c} times; "
                                       f"grams handed over again after the memo was complete: {sorted(again)}", trace=trace)
                    return False
                seen_counts[mi] = c
        if final:
            for mi, c in enumerate(counts):
                complete = len(fed[mi]) == len(grams[mi])
                if complete and c == 1:
                    ctx.count("memos_delivered_exactly_once")
                    if rx_smaller:
                        ctx.count("rx_own_size_smaller_than_gram_memos_delivered")
                elif not complete and c == 0:
                    ctx.count("memos_withheld_never_delivered")
                elif complete and c == 0:
                    ctx.violation(_lost_key(mi), _lost_msg(mi), trace=trace)
                    return False
        return True

    def _lost_diag(mi):
        n = len(grams[mi])
        okz = None                      # log position of the first accepted zeroth gram
        accepted = set()
        rejected = {}
        for pos, (tag, outcome, _nv) in enumerate(rx.picklog):
            if tag is None or tag[0] != mi:
                continue
            if outcome == "ok":
                accepted.add(tag[1])
                if tag[1] == 0 and okz is None:
                    okz = pos
            else:
                rejected.setdefault(tag[1], []).append((pos, outcome))
        never = sorted(set(range(n)) - accepted)
        return okz, accepted, rejected, never

    def _lost_key(mi):
        okz, accepted, rejected, never = _lost_diag(mi)
        if not never:
            return "lost:all-grams-accepted-but-not-fused"
        if signed and okz is not None and all(
                g in rejected and all(pos < okz and out == "MemoerError" for pos, out in rejected[g])
                for g in never):
            # every gram that was never accepted is a signed non-zeroth gram whose every arrival preceded the
            # first accepted zeroth gram (which carries the signer id needed to verify it)
            return "lost:signed-gram-before-zeroth-rejected"
        outs = sorted({out for g in never for _p, out in rejected.get(g, [])}) or ["not-picked"]
        return "lost:genuine-gram-rejected:" + "+".join(outs)

    def _lost_msg(mi):
        okz, accepted, rejected, never = _lost_diag(mi)
        return (f"memo {mi} ({len(grams[mi])} grams, code={code} curt={curt} size={size} authic={case['rx_authic']}) "
                f"never delivered although every gram was handed over; delivery order "
                f"{[g for m, g in events if m == mi]}; grams never accepted by pick: {never}; "
                f"rejections (gram: [(log position, exception)]): {rejected}; first accepted zeroth at log position {okz}")

    pending = 0
    step = 0
    try:
        for mi, gi in events:
            step += 1
            if gi in fed[mi]:
                if fed_after_complete[mi] is not None:
                    dup_after += 1
                else:
                    dup_before += 1
            if fed_after_complete[mi] is not None:
                fed_after_complete[mi].add(gi)
            fed[mi].add(gi)
            if fed_after_complete[mi] is None and len(fed[mi]) == len(grams[mi]):
                fed_after_complete[mi] = set()
            rx.wire.append((grams[mi][gi], memos[mi]["src"], (mi, gi, step)))
            trace.append(["feed", mi, gi])
            ctx.count("deliveries_fed")
            pending += 1
            if batch != "end" and step % batch == 0:
                _service(rx, case["api"], pending)
                pending = 0
                trace.append(["service"])
                if not check_point():
                    return
        for _ in range(2):
            _service(rx, case["api"], pending + len(memos))
            pending = 0
            trace.append(["service"])
            if not check_point():
                return
        if rx.wire:
            raise AssertionError("harness: receiver left datagrams unread")
        if not check_point(final=True):
            return
    except (AssertionError,):
        raise
    except Exception as ex:
        ctx.violation(ms.escape_key(ex, "rx-escape"),
                      f"receive path raised on genuine grams: {ex!r} code={code} curt={curt}", trace=trace)
        return
    finally:
        rx.close()

    ctx.count("dup_before_completion", dup_before)
    ctx.count("dup_after_completion", dup_after)
    ctx.count("genuine_grams_rejected_by_pick", sum(1 for t, o, _ in rx.picklog if o != "ok"))
    if signed:
        ctx.count("signed_grams_verified", sum(1 for t, o, _ in rx.picklog if o == "ok"))
    if nontrivial:
        ctx.nontrivial([code, curt, [len(g) for g in grams], events])
    if case["kind"] == "rand" and (len(memos) > 1 or cls in ("dup-before", "partial-dup-after")):
        ctx.sample({"class": cls, "code": code, "curt": curt, "size": size, "grams_per_memo": [len(g) for g in grams],
                    "schedule": events[:40], "delivered": [[t[:30], s, v] for t, s, v in list(rx.inbox)[:4]]})


LEVEL_TEXT = ("Every case runs the real segmentation and the real reassembly and is judged by an exactly-once ledger keyed on "
              "unique memo texts; the space of delivery sequences with repeats is enumerated completely up to a bounded "
              "length for small memos in all 8 code/encoding combinations and sampled for larger, interleaved memos. "
              "Held on what was observed; not a proof for longer schedules or larger gram counts.")
LEVEL_NOTE = ("trusted: the harness transports (record / hand out datagrams unchanged), pysodium, the deterministic memo-id "
              "source standing in for uuid1")
