"""C18 - WSGI responses are framed and pipelined requests answered in order.

Monitor shape: producer/consumer differential with unique ids + independent strict parser.
A real loopback `hio.core.http.Server` runs a scripted WSGI app (the script of every request is in the case and
is looked up by the unique id the request carries).  The harness owns a raw non-blocking client socket, sends the
request sequence (one burst / dribbled at arbitrary cut points / serially) and collects every byte the server
sends plus the position of end-of-stream.  The byte stream is parsed by `vf.models.httpref` (strict, refuses to
guess where an unframed body ends) and judged against the script:

  O1  k-th response carries the id of the k-th request (order), at most one response per request, none after a
      non-persistent request
  O2  status code (+ reason when the app gave a str status), the app's header fields (multiset, names compared
      case-insensitively) and body are exactly the script's; the only fields the server may add are
      Server / Date / Transfer-Encoding; a declared Content-Length clamps the body (never longer)
  O3  a response after which the connection stays open is self-delimiting (Content-Length or chunked)
  O4  end-of-stream follows response k  iff  request k was not persistent
      (one relaxation, because the statement's clauses conflict there: closing after a response that has neither
      Content-Length nor chunked coding is accepted as "delimited by close" and only counted)

Decisions are taken on service ROUNDS (budget computed from the script), never on wall-clock.
"""
import errno
import logging
import random
import select
import socket
import sys

from hio.base import tyming
from hio.core import http
from hio.core.http import httping

from vf.models import httpref

ID = "C18"
LEVEL = "exploration"
RULE = ("a case = one connection: 1-6 requests (HTTP/1.0|1.1 x no Connection header|close|keep-alive, GET/POST/PUT with bodies) "
        "sent as one burst, dribbled at random cut points (one fragment per service round) or serially, each answered by a "
        "scripted WSGI behaviour (list / generator / generator with return value / write() callable / iterator object / hio "
        "HTTPError; 0-60 pieces incl. empty ones and pieces > socket buffer; Content-Length absent / exact / shorter / longer "
        "than produced; status str or int; duplicate header names). All sequences up to length 2 (quick) / 3 (thorough) over "
        "{4 request kinds} x {with, without Content-Length} x {burst, serial} are enumerated, the rest is random from VERIF_SEED. "
        "Generator apps that raise (Exception / HTTPError) before output or after 1..n pieces; Connection headers with several options "
        "(close / keep-alive not first, whitespace, mixed case, TE, Upgrade). Apps that call start_response twice for one response (second call with exc_info before any output; {Content-Length, none} "
        "x {Content-Length, none}) on a fixed schedule and at random. "
        "Plus a fixed schedule of responses of 2*tcp_wmem[2]+2 MiB (Content-Length / chunked / close-delimited) to requests after which "
        "the server closes, read by a slow client (SO_RCVBUF 16 KiB, bounded read per round). "
        "Non-trivial = at least two requests on the connection or a response without Content-Length; distinct = by the sequence of "
        "(version, connection header, app style, length mode, piece-count bucket, has-empty-piece) plus send mode.")
ASSUMPTIONS = [
    "requests are well-formed, complete and CRLF-terminated (malformed / partial requests belong to C13/C16)",
    "the app obeys WSGI except for the behaviours scripted on purpose (wrong Content-Length, int status, generator return value); it never raises anything but hio's HTTPError and never emits 1xx/204/304 or hop-by-hop headers",
    "a declared Content-Length LARGER than the produced body has no defined good outcome in the statement: such a request is only placed last on a connection and only status/headers/body-prefix are judged (outcome counted, not judged)",
    "loopback TCP delivers bytes and FIN between two service rounds of the same process; absence verdicts (no EOF, no further bytes) are re-checked over extra rounds with a short select() patience before being reported",
]
TECHNIQUE = "differential producer/consumer run over a real loopback server with unique ids, judged by an independent strict HTTP parser (trace oracle on the received byte stream)"
LEVEL_TEXT = ("Every response byte of every generated connection is parsed by a harness-owned strict parser and compared with the app script; "
              "order, framing-while-open, clamp and close-iff-non-persistent are judged on each. All short sequences over the request-kind x "
              "framing alphabet are enumerated, longer / richer ones are sampled. Held on what was observed; not a proof for all apps.")
LEVEL_NOTE = "trusted: vf/models/httpref.py (~250 lines), the kernel loopback, the case generator's own model of 'persistent' (HTTP/1.1 without close, HTTP/1.0 with keep-alive)"
NSHARDS = {"quick": 8, "thorough": 16}
PEAK_COUNTERS = ("max_rounds_used", "big_body_bytes")
TIMEOUT_S = {"quick": 240, "thorough": 1500}
BUDGET_S = {"quick": 25, "thorough": 300}
REQUIRE = {"responses_judged": 500, "followed_response_self_delimiting_checks": 150, "eof_after_nonpersistent_checks": 100,
           "stays_open_checks": 60, "clamp_checks": 15, "nolength_on_open_connection_cases": 50, "empty_pieces_scripted": 100,
           "big_nonkept_responses_complete_and_exact": 3, "restart_responses_judged": 60, "raising_iterator_responses_judged": 60,
           "raising_iterator_chunked_response_followed_by_another": 10, "multi_option_connection_requests_judged": 60,
           "restart_length_then_nolength_on_persistent_request": 10, "rounds_with_unsent_response_bytes_in_server": 30}
EXHAUSTIVE = {"quick": "all request sequences of length <= 2 over {1.1, 1.1 close, 1.0, 1.0 keep-alive} x {Content-Length, none} x {burst, serial}",
              "thorough": "all request sequences of length <= 3 over {1.1, 1.1 close, 1.0, 1.0 keep-alive} x {Content-Length, none} x {burst, serial}"}

PORT_BASE = 42000
PORT_STRIDE = 450
PORT_SPAN = 200          # C18 uses offsets 0..199 of the shard block, C19 uses 200..449

KINDS = [("1.1", None), ("1.1", "close"), ("1.0", None), ("1.0", "keep-alive")]
STR_STATUS = ["200 OK", "201 Created", "202 Accepted", "400 Bad Request", "404 Not Found", "418 I'm a teapot",
              "500 Custom Reason Phrase", "301 Moved Permanently", "299 X"]
INT_STATUS = [200, 201, 404, 500]
ALPHA = "abcdefghijklmnopqrstuvwxyzABCDEFGHIJKLMNOPQRSTUVWXYZ0123456789"
NASTY = ["\r\n", "\r\n\r\n", "0\r\n\r\n", "HTTP/1.1 200 OK\r\n", "\n", "\r", "\x00", "\xff", "Content-Length: 5\r\n", " ", ";", "5\r\n"]


def _big_size():
    """a response body larger than anything the kernel buffers between the server's send() and a slow reader:
    the send buffer autotunes up to tcp_wmem[2]"""
    try:
        wmax = int(open("/proc/sys/net/ipv4/tcp_wmem").read().split()[2])
    except Exception:
        wmax = 4 << 20
    return min(48 << 20, 2 * wmax + (2 << 20))


def expand_piece(p):
    """pieces are latin-1 str in a case; a multi-megabyte piece is stored as {"unit": str, "len": n}"""
    if isinstance(p, dict):
        unit = p["unit"]
        return (unit * (p["len"] // len(unit) + 1))[:p["len"]]
    return p


def expand_req(r):
    a = dict(r["app"])
    for k in ("pieces", "wpieces"):
        if k in a:
            a[k] = [expand_piece(p) for p in a[k]]
    return dict(r, app=a)


def conn_tokens(req):
    """connection options of the request: comma separated, case-insensitive tokens with optional whitespace (RFC 7230 6.1)"""
    return [t.strip().lower() for t in (req["conn"] or "").split(",") if t.strip()]


def persistent(req):
    if req["ver"] == "1.1":
        return "close" not in conn_tokens(req)
    return "keep-alive" in conn_tokens(req)


# Connection header values with several options; none of them contains "close"/"keep-alive" as a mere substring of another
# token and none names both (what wins then on HTTP/1.0 is not settled), so the reading is unambiguous
MULTI_CONN = {"1.1": ["TE, close", "close, TE", "Upgrade,close", "Close , TE", "TE,  CLOSE", "keep-alive, Upgrade", "TE", "Upgrade, TE"],
              "1.0": ["TE, keep-alive", "Keep-Alive, TE", "keep-alive ,Upgrade", "TE,KEEP-ALIVE", "TE", "close, TE", "Upgrade, TE"]}


# --------------------------------------------------------------------------- generation
def _piece(rng):
    r = rng.random()
    if r < 0.28:
        return ""
    if r < 0.33:
        n = rng.choice([9000, 20000, 70000, 140000])
        return "".join(rng.choice(ALPHA) for _ in range(50)) * (n // 50)
    n = rng.randint(1, 40)
    out = []
    for _ in range(n):
        out.append(rng.choice(NASTY) if rng.random() < 0.12 else rng.choice(ALPHA))
    return "".join(out)


def restart_app(rid, first_len, second_len, restart_style, pieces, pre=0, status="200 OK", first_status="500 First Attempt"):
    """An app that calls start_response twice for one response: the second call (with exc_info, before any output, as
    PEP 3333 allows) replaces status and headers.  first_len / second_len: None = no Content-Length, "exact", or an int."""
    produced = sum(len(p) for p in pieces)

    def hdrs(which, ln):
        h = [["Content-Type", "text/plain"], ["X-Id", rid], ["X-Attempt", which]]
        if ln is not None:
            h.append(["Content-Length", str(ln)])
        return h
    fl = produced if first_len == "exact" else first_len
    sl = produced if second_len == "exact" else second_len
    return {"style": "restart", "restart_style": restart_style, "status": status, "headers": hdrs("second", sl), "cl": sl,
            "first": {"status": first_status, "headers": hdrs("first", fl), "cl": fl},
            "pieces": pieces, "wpieces": [], "ret": "", "pre": pre}


def raising_app(rid, pieces, raise_kind, cl=None, pre=0, status="200 OK"):
    """A generator app that yields `pieces` and then RAISES (plain Exception, or hio HTTPError after the head is out).
    The application's output is what it produced before failing."""
    hdrs = [["Content-Type", "text/plain"], ["X-Id", rid]]
    if cl is not None:
        hdrs.append(["Content-Length", str(cl)])
    return {"style": "raise", "raise_kind": raise_kind, "status": status, "headers": hdrs, "cl": cl,
            "pieces": pieces, "wpieces": [], "ret": "", "pre": pre}


def gen_app(rng, rid, allow_underrun):
    style = rng.choice(["list", "list", "gen", "gen", "genret", "write", "iterobj", "httperror", "restart", "raise"])
    if style == "raise":
        pieces = [_piece(rng) for _ in range(rng.choice([0, 1, 1, 2, 3, 6]))]
        kind = rng.choice(["exception", "exception", "httperror"])
        if kind == "httperror" and not any(pieces):
            pieces.append("out-" + rid)      # an HTTPError before the head is the `httperror` style (an error response)
        produced = sum(len(p) for p in pieces)
        cl = None
        r = rng.random()
        if r < 0.2:
            cl = produced                      # everything announced was delivered before the failure
        elif r < 0.3 and allow_underrun:
            cl = produced + rng.randint(1, 30)  # failed before the announced length: only judged last on a connection
        return raising_app(rid, pieces, kind, cl, pre=rng.choice([0, 0, 1]), status=rng.choice(STR_STATUS))
    if style == "restart":
        pieces = [_piece(rng) for _ in range(rng.choice([0, 1, 2, 3, 5]))]
        produced = sum(len(p) for p in pieces)
        first_len = rng.choice([None, None, "exact", rng.randint(0, produced + 5), 3])
        second_len = rng.choice([None, None, "exact", "exact", rng.randint(0, produced)])
        return restart_app(rid, first_len, second_len, rng.choice(["gen", "list"]), pieces, pre=rng.choice([0, 0, 1]),
                           status=rng.choice(STR_STATUS))
    if style == "httperror":
        code = rng.choice([400, 401, 404, 409, 500, 503])
        hdrs = [["X-Id", rid]]
        if rng.random() < 0.4:
            hdrs.append(["X-Why", "because-" + rid])
        if rng.random() < 0.3:
            hdrs.append(["Content-Type", "text/x-error"])
        return {"style": style, "code": code, "reason": rng.choice(["", "", "Nope", "Custom Failure"]),
                "title": rng.choice(["", "T-" + rid]), "detail": rng.choice(["", "detail of " + rid]),
                "fault": rng.choice([None, 7, 4242]), "headers": hdrs, "pre": rng.choice([0, 0, 1, 2])}
    nb = rng.random()
    if nb < 0.12:
        npieces = 0
    elif nb < 0.4:
        npieces = 1
    elif nb < 0.85:
        npieces = rng.randint(2, 6)
    else:
        npieces = rng.randint(20, 60)
    pieces = [_piece(rng) for _ in range(npieces)]
    wpieces = []
    if style == "write":
        wpieces = [_piece(rng) for _ in range(rng.randint(1, 3))]
    ret = ""
    if style == "genret":
        ret = _piece(rng) or "ret"
    produced = sum(len(p) for p in wpieces) + sum(len(p) for p in pieces) + len(ret)
    r = rng.random()
    if r < 0.5:
        cl = None
    elif r < 0.75:
        cl = produced
    elif r < 0.9 or not allow_underrun:
        cl = rng.randint(0, produced) if produced else 0
    else:
        cl = produced + rng.randint(1, 20)
    status = rng.choice(STR_STATUS) if rng.random() < 0.8 else rng.choice(INT_STATUS)
    hdrs = [["X-Id", rid]]
    if rng.random() < 0.7:
        hdrs.insert(0, ["Content-Type", rng.choice(["text/plain", "application/octet-stream", "text/html; charset=utf-8"])])
    if rng.random() < 0.3:
        hdrs.append(["Set-Cookie", "a=" + rid])
        hdrs.append(["Set-Cookie", "b=" + rid + "; Path=/"])
    if rng.random() < 0.3:
        hdrs.append(["x-lower-" + rid.lower(), "v;q=1, w"])
    if cl is not None:
        hdrs.insert(rng.randint(0, len(hdrs)), [rng.choice(["Content-Length", "content-length", "Content-length"]), str(cl)])
    return {"style": style, "status": status, "headers": hdrs, "cl": cl, "pieces": pieces, "wpieces": wpieces, "ret": ret,
            "pre": rng.choice([0, 0, 0, 1, 2]) if style in ("gen", "genret") else 0}


def gen_req(rng, rid, last):
    ver, conn = rng.choice(KINDS + [("1.1", None), ("1.1", None), ("1.1", "keep-alive"), ("1.0", "close"), ("1.1", "Close")])
    if rng.random() < 0.15:
        conn = rng.choice(MULTI_CONN[ver])
    method = rng.choice(["GET", "GET", "POST", "PUT"])
    body = "".join(rng.choice(ALPHA) for _ in range(rng.randint(1, 60))) if method != "GET" else ""
    return {"id": rid, "ver": ver, "conn": conn, "method": method, "body": body,
            "app": gen_app(rng, rid, allow_underrun=last)}


def simple_req(rid, kind, with_cl):
    ver, conn = kind
    body = "body-of-" + rid
    hdrs = [["Content-Type", "text/plain"], ["X-Id", rid]]
    if with_cl:
        hdrs.append(["Content-Length", str(len(body))])
    return {"id": rid, "ver": ver, "conn": conn, "method": "GET", "body": "",
            "app": {"style": "list", "status": "200 OK", "headers": hdrs, "cl": len(body) if with_cl else None,
                    "pieces": [body], "wpieces": [], "ret": "", "pre": 0}}


def wire(req):
    s = f"{req['method']} /c18/{req['id']}?n={req['id']} HTTP/{req['ver']}\r\nHost: 127.0.0.1\r\nX-Id: {req['id']}\r\n"
    if req["conn"]:
        s += f"Connection: {req['conn']}\r\n"
    if req["body"]:
        s += f"Content-Length: {len(req['body'])}\r\n"
    return (s + "\r\n" + req["body"]).encode("latin-1")


def cases(tier, seed, shard, nshards):
    import itertools
    maxlen = 2 if tier == "quick" else 3
    alphabet = [(k, cl) for k in range(len(KINDS)) for cl in (True, False)]
    i = 0
    for ln in range(1, maxlen + 1):
        for seq in itertools.product(alphabet, repeat=ln):
            for mode in ("burst", "serial"):
                if i % nshards == shard:
                    reqs = [simple_req(f"E{j}x{i}", KINDS[k], cl) for j, (k, cl) in enumerate(seq)]
                    yield {"kind": "enum", "mode": mode, "cuts": [], "reqs": reqs}
                i += 1
    # fixed schedule: the app's iterator raises (plain Exception / HTTPError) before any output, after 1 and after 3 pieces,
    # without and with a (fully delivered) Content-Length, on kept and non-kept requests, followed by two more requests
    for raise_kind in ("exception", "httperror"):
        for pieces in ([], ["first piece "], ["one ", "", "two ", "three"]):
            if raise_kind == "httperror" and not pieces:
                continue
            for with_cl in (False, True):
                for kind in (("1.1", None), ("1.1", "close"), ("1.0", "keep-alive")):
                    for mode in ("burst", "serial"):
                        if i % nshards == shard:
                            rid = f"X{i}a"
                            cl = sum(len(p) for p in pieces) if with_cl else None
                            r0 = {"id": rid, "ver": kind[0], "conn": kind[1], "method": "GET", "body": "",
                                  "app": raising_app(rid, list(pieces), raise_kind, cl)}
                            yield {"kind": "raise", "mode": mode, "cuts": [],
                                   "reqs": [r0, simple_req(f"X{i}b", ("1.1", None), False), simple_req(f"X{i}c", ("1.1", None), True)]}
                        i += 1
    # fixed schedule: Connection headers with several options (close / keep-alive not first, whitespace, mixed case)
    for ver in ("1.1", "1.0"):
        for conn in MULTI_CONN[ver]:
            for with_cl in (True, False):
                for mode in ("burst", "serial"):
                    if i % nshards == shard:
                        yield {"kind": "multiconn", "mode": mode, "cuts": [],
                               "reqs": [simple_req(f"C{i}a", (ver, conn), with_cl), simple_req(f"C{i}b", ("1.1", None), True)]}
                    i += 1
    # fixed schedule: start_response called twice for one response (second call with exc_info before any output), every
    # combination of {Content-Length, none} for the first and the second call, on kept and non-kept requests, followed
    # by a request that reuses the connection
    for first_len in (3, None):
        for second_len in ("exact", None):
            for kind in (("1.1", None), ("1.1", "keep-alive"), ("1.0", "keep-alive"), ("1.1", "close")):
                for rstyle in ("gen", "list"):
                    for mode in ("burst", "serial"):
                        if i % nshards == shard:
                            rid = f"S{i}a"
                            r0 = {"id": rid, "ver": kind[0], "conn": kind[1], "method": "GET", "body": "",
                                  "app": restart_app(rid, first_len, second_len, rstyle, ["replacement ", "", "body of " + rid])}
                            yield {"kind": "restart", "mode": mode, "cuts": [], "reqs": [r0, simple_req(f"S{i}b", ("1.1", None), True)]}
                        i += 1
    # fixed schedule: responses of a few times the loopback send capacity to requests after which the server closes
    # (HTTP/1.0, Connection: close, unframed reply to 1.0 keep-alive), read by a slow client (small SO_RCVBUF, bounded
    # read per round): the close must wait for the last byte
    big = _big_size()
    combos = [(("1.0", None), "length"), (("1.1", "close"), "chunked"), (("1.0", "keep-alive"), "eof")]
    if tier != "quick":
        combos += [(("1.0", None), "eof"), (("1.1", "close"), "length"), (("1.1", "Close"), "chunked"), (("1.0", "close"), "length")]
    for (ver, conn), framing in combos:
        for style, npieces in (("list", 1), ("gen", 3)) if tier != "quick" else (("list", 1),):
            for read_per_round in ((65536,) if tier == "quick" else (65536, 1 << 20)):
                if i % nshards == shard:
                    rid = f"B{i}"
                    unit = f"<{rid}:0123456789abcdefghijklmnopqrstuvwxyzABCDEFGHIJKLMNOPQRSTUVWXYZ>\r\n"
                    sizes = [big // npieces] * (npieces - 1) + [big - (big // npieces) * (npieces - 1)]
                    hdrs = [["Content-Type", "application/octet-stream"], ["X-Id", rid]]
                    if framing == "length":
                        hdrs.append(["Content-Length", str(big)])
                    req = {"id": rid, "ver": ver, "conn": conn, "method": "GET", "body": "",
                           "app": {"style": style, "status": "200 OK", "headers": hdrs, "cl": big if framing == "length" else None,
                                   "pieces": [{"unit": unit, "len": n_} for n_ in sizes], "wpieces": [], "ret": "", "pre": 0}}
                    yield {"kind": "big", "mode": "burst", "cuts": [], "reqs": [req], "rcvbuf": 16384, "read_per_round": read_per_round}
                i += 1
    rng = random.Random(f"{seed}:C18:{shard}")
    n = (1000 if tier == "quick" else 64000) // nshards
    for c in range(n):
        nreq = rng.choice([1, 2, 2, 3, 3, 4, 5, 6])
        reqs = [gen_req(rng, f"R{shard}c{c}q{j}", last=(j == nreq - 1)) for j in range(nreq)]
        mode = rng.choice(["burst", "burst", "dribble", "dribble", "serial"])
        total = sum(len(wire(r)) for r in reqs)
        cuts = []
        if mode == "dribble":
            cuts = sorted(set(rng.randint(1, total - 1) for _ in range(rng.randint(1, min(12, total - 1)))))
        yield {"kind": "rand", "mode": mode, "cuts": cuts, "reqs": reqs}


# --------------------------------------------------------------------------- scripted WSGI app
class IterObj:
    def __init__(self, pieces):
        self.pieces = list(pieces)

    def __iter__(self):
        return self

    def __next__(self):
        if not self.pieces:
            raise StopIteration
        return self.pieces.pop(0)


def make_app(script, calls):
    def b(s):
        return s.encode("latin-1")

    def app(environ, start_response):
        rid = environ.get("HTTP_X_ID")
        calls.append(rid)
        req = script.get(rid)
        if req is None:   # the server handed the app a request the harness never sent
            start_response("599 Unknown Request", [("Content-Length", "0"), ("X-Id", str(rid))])
            return []
        a = req["app"]
        style = a["style"]
        hdrs = [tuple(h) for h in a["headers"]]
        if style == "httperror":
            def gen_err():
                for _ in range(a["pre"]):
                    yield b""
                raise httping.HTTPError(a["code"], reason=a["reason"], title=a["title"], detail=a["detail"],
                                        fault=a["fault"], headers=dict(hdrs))
            return gen_err()
        if style == "raise":
            def gen_raise():
                for _ in range(a["pre"]):
                    yield b""
                start_response(a["status"], hdrs)
                for p in a["pieces"]:
                    yield b(p)
                if a["raise_kind"] == "httperror":
                    raise httping.HTTPError(500, title="failed mid-body", detail=rid)
                raise RuntimeError("app failed mid-body " + rid)
            return gen_raise()
        if style == "restart":
            first = a["first"]

            def replace_head():
                try:
                    raise RuntimeError("the app changed its mind before any output")
                except RuntimeError:
                    start_response(a["status"], hdrs, sys.exc_info())
            if a["restart_style"] == "list":
                start_response(first["status"], [tuple(h) for h in first["headers"]])
                replace_head()
                return [b(p) for p in a["pieces"]]

            def gen_restart():
                for _ in range(a["pre"]):
                    yield b""
                start_response(first["status"], [tuple(h) for h in first["headers"]])
                yield b""            # still nothing written
                replace_head()
                for p in a["pieces"]:
                    yield b(p)
            return gen_restart()
        if style == "list":
            start_response(a["status"], hdrs)
            return [b(p) for p in a["pieces"]]
        if style == "iterobj":
            start_response(a["status"], hdrs)
            return IterObj([b(p) for p in a["pieces"]])
        if style == "write":
            write = start_response(a["status"], hdrs)
            for p in a["wpieces"]:
                write(b(p))
            return [b(p) for p in a["pieces"]]

        def gen():
            for _ in range(a["pre"]):
                yield b""
            start_response(a["status"], hdrs)
            for p in a["pieces"]:
                yield b(p)
            if style == "genret":
                return b(a["ret"])
        return gen()
    return app


def expected(req):
    """What the script says the response is: (code, reason|None, header multiset, produced body, declared length)."""
    a = req["app"]
    if a["style"] == "httperror":
        ex = httping.HTTPError(a["code"], reason=a["reason"], title=a["title"], detail=a["detail"], fault=a["fault"])
        body = ex.render()   # the app's output IS the HTTPError; its documented rendering is the body
        hdrs = [(n.lower(), v) for n, v in a["headers"]]
        if not any(n == "content-type" for n, _ in hdrs):
            hdrs.append(("content-type", "text/plain"))
        hdrs.append(("content-length", str(len(body))))
        return a["code"], (a["reason"] or None), hdrs, body, len(body)
    produced = "".join(a["wpieces"]) + "".join(a["pieces"]) + a["ret"]
    st = a["status"]
    if isinstance(st, int):
        code, reason = st, None
    else:
        code, reason = int(st[:3]), st[4:]
    return code, reason, [(n.lower(), v) for n, v in a["headers"]], produced.encode("latin-1"), a["cl"]


# --------------------------------------------------------------------------- harness
_state = {"ctr": 0, "nodelay": set()}


def setup(ctx):
    logging.getLogger().setLevel(logging.CRITICAL)   # hio's own loggers default to CRITICAL already


def open_server(ctx, app):
    tymist = tyming.Tymist(tyme=0.0)
    last = None
    for _ in range(40):
        port = PORT_BASE + (ctx.shard % 16) * PORT_STRIDE + (_state["ctr"] % PORT_SPAN)
        _state["ctr"] += 1
        srv = http.Server(host="127.0.0.1", port=port, app=app, tymth=tymist.tymen())
        try:
            ok = srv.reopen()
        except OSError as ex:
            ok, last = False, ex
        if ok:
            return srv, port, tymist
        srv.close()
        ctx.count("bind_retries")
    raise RuntimeError(f"no free port in the C18 shard range ({last})")


class Conn:
    """Harness-owned raw client socket: records every received byte and end-of-stream."""

    def __init__(self, port, rcvbuf=None, read_per_round=None):
        self.read_per_round = read_per_round
        self.sock = socket.socket(socket.AF_INET, socket.SOCK_STREAM)
        if rcvbuf:
            self.sock.setsockopt(socket.SOL_SOCKET, socket.SO_RCVBUF, rcvbuf)   # before connect: fixes the window
        # the ephemeral port of this socket may fall into a harness port range: without SO_REUSEADDR its TIME_WAIT
        # would make a later bind() of a server to that port fail for a minute
        self.sock.setsockopt(socket.SOL_SOCKET, socket.SO_REUSEADDR, 1)
        self.sock.settimeout(5.0)
        self.sock.connect(("127.0.0.1", port))
        self.sock.setsockopt(socket.IPPROTO_TCP, socket.TCP_NODELAY, 1)   # no Nagle: a round's bytes leave in that round
        self.sock.setblocking(False)
        self.rx = bytearray()
        self.eof = False
        self.reset = False
        self.send_failed = None

    def pump(self):
        got = 0
        while not self.eof:
            if self.read_per_round and got >= self.read_per_round:
                break               # a slow reader: the rest stays in the kernel until the next round
            try:
                d = self.sock.recv(min(262144, self.read_per_round - got) if self.read_per_round else 262144)
            except (BlockingIOError, InterruptedError):
                break
            except OSError as ex:
                if ex.errno in (errno.ECONNRESET, errno.EPIPE, errno.ENOTCONN):
                    self.eof = True
                    self.reset = True
                    break
                raise
            if not d:
                self.eof = True
                break
            self.rx.extend(d)
            got += len(d)
        return got

    def send(self, data):
        """Returns number of bytes accepted (0 when the socket would block or the peer is gone)."""
        if self.send_failed:
            return 0
        try:
            return self.sock.send(data)
        except (BlockingIOError, InterruptedError):
            return 0
        except OSError as ex:
            if ex.errno in (errno.ECONNRESET, errno.EPIPE, errno.ENOTCONN):
                self.send_failed = errno.errorcode.get(ex.errno, str(ex.errno))
                return 0
            raise

    def close(self):
        try:
            self.sock.close()
        except OSError:
            pass


def unframed_key(req, k):
    if req["ver"] == "1.0":
        return "unframed-while-open:HTTP/1.0-keep-alive"
    return "unframed-while-open:HTTP/1.1:" + ("first-response-on-connection" if k == 0 else "later-response-on-connection")


def unframed_11_why(req):
    """qualifier for an unframed reply to a persistent HTTP/1.1 request (the server could have chunked it)"""
    a = req["app"]
    if a["style"] == "restart" and a["first"]["cl"] is not None and a["cl"] is None:
        return "unframed-response-after-replaced-content-length"     # start_response #1 had a length, #2 (exc_info) has none
    return "unframed-response-to-" + kind_of(req)


def kind_of(req):
    toks = conn_tokens(req)
    main = "close" if "close" in toks else ("keep-alive" if "keep-alive" in toks else ("none" if not toks else "other-options"))
    return f"HTTP/{req['ver']}:{main}" + (":among-several-options" if len(toks) > 1 else "")


def run_case(case, ctx):
    reqs = [expand_req(r) for r in case["reqs"]]
    script = {r["id"]: r for r in reqs}
    calls = []
    srv, port, tymist = open_server(ctx, make_app(script, calls))
    _state["nodelay"].clear()
    conn = None
    try:
        conn = Conn(port, case.get("rcvbuf"), case.get("read_per_round"))
        _drive_and_judge(case, ctx, srv, tymist, conn, reqs, calls)
    finally:
        if conn is not None:
            conn.close()
        try:
            srv.close()
        except Exception:
            pass


def _service(ctx, srv, tymist, trace):
    """One service round of the real server.  Returns False when it raised (reported as a violation)."""
    try:
        srv.service()
    except Exception as ex:  # no scripted behaviour may make the service loop raise
        ctx.violation(f"service-raised:{type(ex).__name__}", f"Server.service() raised {ex!r}", trace=trace)
        return False
    tymist.tick()
    # hio leaves Nagle on; with the peer's delayed ACK a small second send() would sit in the kernel for ~40 ms of
    # WALL time.  Rounds must not depend on that, so the harness switches Nagle off on the accepted sockets (kernel
    # tuning only - no hio logic is changed).
    for ix in srv.servant.ixes.values():
        cs = getattr(ix, "cs", None)
        if cs is not None and id(cs) not in _state["nodelay"]:
            try:
                cs.setsockopt(socket.IPPROTO_TCP, socket.TCP_NODELAY, 1)
            except OSError:
                pass
            _state["nodelay"].add(id(cs))
    return True


def _drive_and_judge(case, ctx, srv, tymist, conn, reqs, calls):
    mode = case["mode"]
    wires = [wire(r) for r in reqs]
    n = len(reqs)
    exp_n = n
    for k, r in enumerate(reqs):
        if not persistent(r):
            exp_n = k + 1
            break
    eof_expected = exp_n < n or not persistent(reqs[exp_n - 1])
    methods = [r["method"] for r in reqs]

    def cost(r):   # service rounds the scripted app needs for this request (one next() per round) + slack
        a = r["app"]
        return a.get("pre", 0) + len(a.get("pieces", ())) + 5

    # fragments to send: list of (bytes, gate) where gate = number of complete responses required before sending
    frags = []
    if mode == "burst":
        frags.append([b"".join(wires), 0])
    elif mode == "dribble":
        stream = b"".join(wires)
        prev = 0
        for c in list(case["cuts"]) + [len(stream)]:
            if c > prev:
                frags.append([stream[prev:c], 0])
                prev = c
    else:
        for k, w in enumerate(wires):
            frags.append([w, k])
    budget = len(frags) + sum(cost(r) for r in reqs) + 4 * n + 12
    if case.get("read_per_round"):
        # slow reader: at least one window's worth leaves the kernel per round (the loop ends as soon as the stream is complete)
        budget += sum(len(p) for r in reqs for p in r["app"].get("pieces", ())) // 2048 + 50
    trace = []
    ctx.count("connections")
    ctx.count("mode_" + mode)

    stream = httpref.ResponseStream(methods)
    parsed = stream.result()
    fed = [0, False]

    def pump():
        nonlocal parsed
        got = conn.pump()
        if len(conn.rx) > fed[0] or (conn.eof and not fed[1]):
            stream.feed(bytes(conn.rx[fed[0]:]), conn.eof)
            fed[0], fed[1] = len(conn.rx), conn.eof
            parsed = stream.result(refresh=False)
        return got

    waited = 0          # rounds the serial sender has waited for the current gate
    done_rounds = 0
    rnd = 0
    alive = True
    while rnd < budget and alive:
        rnd += 1
        # send at most one fragment per round
        if frags and not conn.eof:
            data, gate = frags[0]
            ready = len(parsed["responses"]) >= gate
            if not ready and mode == "serial":
                waited += 1
                if waited > cost(reqs[gate - 1]) + 2:   # a client that cannot find the end of response gate-1 moves on
                    ready = True
                    ctx.count("serial_sender_gave_up_waiting")
            if ready:
                sent = conn.send(data)
                if sent:
                    trace.append(["tx", rnd, sent])
                if conn.send_failed:
                    frags = []
                elif sent >= len(data):
                    frags.pop(0)
                    waited = 0
                else:
                    frags[0][0] = data[sent:]
        alive = _service(ctx, srv, tymist, trace)
        if calls and any(ix.txbs for ix in srv.servant.ixes.values()):
            ctx.count("rounds_with_unsent_response_bytes_in_server")      # back-pressure was really there
        got = pump()
        if got or conn.eof:
            trace.append(["rx", rnd, got, "eof" if conn.eof else ""])
        if not frags or conn.eof:
            if conn.eof or (parsed["state"] == httpref.CLEAN and len(parsed["responses"]) >= exp_n):
                done_rounds += 1
                if done_rounds > 4:
                    break
    if not alive:
        return
    ctx.peak("max_rounds_used", rnd)

    # absence verdicts get extra rounds with a little patience before they are believed
    def settled():
        return conn.eof or (parsed["state"] == httpref.CLEAN and len(parsed["responses"]) >= exp_n and not eof_expected)

    if not settled():
        for _ in range(8):
            select.select([conn.sock], [], [], 0.002)
            if not _service(ctx, srv, tymist, trace):
                return
            got = pump()
            if got or conn.eof:
                trace.append(["rx+", got, "eof" if conn.eof else ""])
            if conn.eof:
                break
        ctx.count("patience_phases")
    parsed = stream.result()
    full = httpref.parse_responses(conn.rx, conn.eof, methods)     # one-shot parse must agree with the incremental one
    if (full["state"], len(full["responses"]), full["rest"]) != (parsed["state"], len(parsed["responses"]), parsed["rest"]):
        raise RuntimeError(f"httpref incremental/one-shot disagreement: {full['state']}/{len(full['responses'])} vs "
                           f"{parsed['state']}/{len(parsed['responses'])}")
    if frags and not conn.eof:
        raise RuntimeError(f"harness could not send all request bytes in {rnd} rounds")

    resps = parsed["responses"]
    ctx.count("requests_sent", n)
    sig = []
    for r in reqs:
        a = r["app"]
        np_ = len(a.get("pieces", ()))
        clmode = "none" if a.get("cl") is None else ("exact" if a["cl"] == len(expected(r)[3]) else
                                                    ("short" if a["cl"] < len(expected(r)[3]) else "long"))
        if a["style"] == "httperror":
            clmode = "httperror"
        if a["style"] == "restart":
            clmode = f"restart:{'length' if a['first']['cl'] is not None else 'none'}->{clmode}:{a['restart_style']}"
        has_empty = any(p == "" for p in a.get("pieces", ())) or a.get("pre", 0) > 0
        sig.append([r["ver"], (r["conn"] or "").lower(), a["style"], clmode, min(np_, 7) if np_ < 20 else 20, has_empty])
        ctx.count("empty_pieces_scripted", sum(1 for p in a.get("pieces", ()) if p == "") + a.get("pre", 0))
        ctx.count("app_style_" + a["style"])
    ctx.seen("request_kind_sequences", [kind_of(r) for r in reqs])
    if n >= 2 or any(s[3] == "none" for s in sig):
        ctx.nontrivial([mode, sig])
    for k in range(min(exp_n, n)):
        if persistent(reqs[k]) and reqs[k]["app"].get("cl") is None and reqs[k]["app"]["style"] != "httperror":
            ctx.count("nolength_on_open_connection_cases")
            if k > 0:
                ctx.count("nolength_later_response_cases")

    info = {"mode": mode, "rounds": rnd, "eof": conn.eof, "state": parsed["state"], "n_responses": len(resps),
            "expected_responses": exp_n, "app_calls": calls}

    def viol(key, msg):
        ctx.violation(key, msg + f" | {info}", trace={"rx_head": bytes(conn.rx[:1500]), "events": trace[-60:]})

    # ---- per-response judgement (O1, O2, O3) ---------------------------------------------------
    for k, m in enumerate(resps):
        if k >= n:
            viol("more-responses-than-requests", f"response #{k} {m.brief()} but only {n} requests were sent")
            return
        r = reqs[k]
        if k >= exp_n:
            viol("response-after-nonpersistent-request:" + kind_of(reqs[exp_n - 1]),
                 f"request #{exp_n - 1} was not persistent but response #{k} (X-Id {m.get('x-id')}) followed")
            return
        code, reason, ehdrs, produced, cl = expected(r)
        ctx.count("responses_judged")
        ctx.count("framing_" + str(m.framing))
        if r["app"]["style"] == "raise":
            ctx.count("raising_iterator_responses_judged")
            ctx.count("raising_iterator_" + r["app"]["raise_kind"] + ("_after_output" if any(r["app"]["pieces"]) else "_before_output"))
            if any(r["app"]["pieces"]) and r["app"]["cl"] is None and r["ver"] == "1.1" and k + 1 < len(resps):
                ctx.count("raising_iterator_chunked_response_followed_by_another")
        if len(conn_tokens(r)) > 1:
            ctx.count("multi_option_connection_requests_judged")
        if r["app"]["style"] == "restart":
            f_, s_ = r["app"]["first"]["cl"], r["app"]["cl"]
            ctx.count("restart_responses_judged")
            ctx.count(f"restart_{'length' if f_ is not None else 'nolength'}_then_{'length' if s_ is not None else 'nolength'}")
            if f_ is not None and s_ is None and persistent(r):
                ctx.count("restart_length_then_nolength_on_persistent_request")
        if m.get("x-id") != r["id"]:
            viol("response-order-mismatch", f"response #{k} carries X-Id {m.get('x-id')!r}, request #{k} was {r['id']!r}")
            return
        if m.code != code:
            viol("status-code-mismatch", f"response #{k}: status {m.code} {m.reason!r}, app gave {r['app'].get('status', code)!r}")
        elif reason is not None and m.reason != reason:
            viol("reason-phrase-mismatch", f"response #{k}: reason {m.reason!r}, app gave {reason!r}")
        got_h = sorted((nm.lower(), v) for nm, v in m.headers)
        want = sorted(ehdrs)
        rest = list(got_h)
        missing = []
        for h in want:
            if h in rest:
                rest.remove(h)
            else:
                missing.append(h)
        if missing:
            viol("app-header-missing-or-altered", f"response #{k}: app headers {missing} not on the wire; wire has {got_h}")
        extra = [h for h in rest if h[0] not in ("server", "date", "transfer-encoding")]
        if extra:
            viol("header-not-from-app", f"response #{k}: header(s) {extra} were not given by the app")
        ctx.count("header_sets_compared")
        # body
        if cl is not None and cl <= len(produced):
            want_body = produced[:cl]
            ctx.count("clamp_checks" if cl < len(produced) else "exact_length_checks")
        else:
            want_body = produced
        # a body delimited only by EOF although the request was persistent: either the server closed right after it
        # (delimited by close; the body equals the script) or it went on serving requests on this connection - then
        # the response was unframed while the connection stayed open and the "body" swallowed what followed.
        if m.framing == "eof" and persistent(r) and m.body != want_body and len(calls) > k + 1:
            viol(unframed_key(r, k),
                 f"response #{k} (to {kind_of(r)}) has neither Content-Length nor Transfer-Encoding: chunked, the server kept "
                 f"serving the connection (app called for {len(calls) - k - 1} later request(s)) and only the final close ends it: "
                 f"{len(m.body) - len(want_body)} bytes of later responses are indistinguishable from its body")
            return
        # the chunked body ended before all pieces were out (or a stray last-chunk follows it) and the script passed an
        # empty piece through the write() callable
        if m.framing == "chunked" and empty_write_piece(r) and want_body.startswith(m.body) and m.body != want_body:
            viol("chunked-body-terminated-early:empty-piece-through-write-callable",
                 f"response #{k}: the app passed b'' to the write() callable; the chunked body on the wire ends after "
                 f"{len(m.body)} of {len(want_body)} bytes (a 0-size chunk was emitted for the empty piece), the rest follows as garbage")
            return
        if m.body != want_body:
            if cl is not None and m.body[:len(want_body)] == want_body and len(m.body) > len(want_body):
                viol("body-exceeds-declared-content-length", f"response #{k}: declared {cl}, body on the wire has {len(m.body)} bytes")
            elif m.framing == "eof" and want_body.startswith(m.body):
                viol("close-delimited-body-truncated-by-the-close",
                     f"response #{k}: the connection was closed after {len(m.body)} of {len(want_body)} body bytes of a response that "
                     f"only the close delimits: the client takes the truncated body for complete")
            else:
                viol("body-mismatch:" + str(m.framing),
                     f"response #{k}: body {len(m.body)} bytes {m.body[:80]!r}..., script says {len(want_body)} bytes {want_body[:80]!r}...")
        else:
            ctx.count("bodies_equal")
            if case.get("kind") == "big":
                ctx.count("big_nonkept_responses_complete_and_exact")
                ctx.count("big_nonkept_framing_" + str(m.framing))
                ctx.peak("big_body_bytes", len(m.body))
        # O3: followed by another response on this connection => self-delimiting.  (With a strict parser a
        # response that is followed by another one in the list necessarily had Content-Length/chunked/no-body.)
        if k + 1 < len(resps):
            ctx.count("followed_response_self_delimiting_checks")
            if m.framing not in ("length", "chunked", "nobody"):
                viol("followed-response-not-self-delimiting", f"response #{k} framing {m.framing}")
        if m.framing == "chunked" and r["ver"] == "1.0":
            ctx.count("chunked_reply_to_http10_request_observed")
        if m.framing == "chunked" and k > 0:
            ctx.count("chunked_later_responses")

    # ---- end-of-stream state (O1 completeness, O3, O4) ----------------------------------------------
    k = len(resps)
    st = parsed["state"]
    if st == httpref.ERROR:
        if 0 < k <= n and resps[k - 1].framing == "chunked" and empty_write_piece(reqs[k - 1]):
            viol("chunked-body-terminated-early:empty-piece-through-write-callable",
                 f"response #{k - 1}: the app passed b'' to the write() callable; a 0-size chunk was emitted for it, so what the "
                 f"server sent after it ({bytes(parsed['rest'][:30])!r}...) is not part of any response: {parsed['error']}")
            return
        # over-production past a declared Content-Length shows up as garbage where the next status line should be
        if k > 0 and k <= n:
            code, reason, ehdrs, produced, cl = expected(reqs[k - 1])
            if cl is not None and cl < len(produced) and bytes(parsed["rest"]).startswith(produced[cl:][:40]):
                viol("body-exceeds-declared-content-length",
                     f"response #{k - 1} declared Content-Length {cl} but {len(produced) - cl} more body bytes follow it on the wire")
                return
        viol("malformed-response-stream:" + parsed["error"].split(":")[0],
             f"after {k} complete responses the stream is not HTTP: {parsed['error']}")
        return
    if st == httpref.UNFRAMED_OPEN:
        # head k has neither Content-Length nor chunked and the connection is still open after the patience phase
        if k < n:
            pend = parsed["pending"]
            viol(unframed_key(reqs[k], k),
                 f"response #{k} (to {kind_of(reqs[k])}, X-Id {pend.get('x-id')}) has neither Content-Length nor "
                 f"Transfer-Encoding: chunked and the connection is still open after {rnd} rounds: a client cannot "
                 f"find its end ({len(pend.body)} bytes follow the head, {n - k - 1} more request(s) were sent)")
        else:
            viol("more-responses-than-requests", "unframed head after all expected responses")
        return
    if st == httpref.PARTIAL:
        if underrun_or_last_underrun(reqs, k):
            pend = parsed["pending"]
            ctx.count("underrun_closed_truncated" if conn.eof else "underrun_left_open_short")
            if pend is not None:
                code, reason, ehdrs, produced, cl = expected(reqs[k])
                if pend.get("x-id") != reqs[k]["id"]:
                    viol("response-order-mismatch", f"(underrun) response #{k} carries X-Id {pend.get('x-id')!r}")
                elif bytes(pend.body) != produced:
                    viol("body-mismatch:underrun", f"(underrun) body on the wire {bytes(pend.body)[:80]!r} != produced {produced[:80]!r}")
            ctx.sample({"case_kind": "underrun", "info": info})
            return
        pend = parsed["pending"]
        viol("incomplete-response:" + ("closed" if conn.eof else "stalled") + ":" + str(pend.framing if pend else "head"),
             f"response #{k} is incomplete ({'EOF' if conn.eof else 'connection open, no more bytes'}): "
             f"{pend.brief() if pend else bytes(parsed['rest'][:100])}")
        return
    # CLEAN
    if k < exp_n:
        if conn.eof:
            j = k - 1
            if j >= 0 and resps[j].framing == "eof":
                if reqs[j]["ver"] == "1.0":
                    # an HTTP/1.0 client cannot be sent chunked coding: with no Content-Length from the app, closing is
                    # the only way to delimit response j: accepted (the statement's clauses conflict here), counted
                    ctx.count("closed_to_delimit_unframed_response")
                    ctx.sample({"case_kind": "closed-to-delimit", "info": info})
                    return
                # HTTP/1.1: the server can chunk, so the request was persistent and must not cost the connection
                viol("closed-after-persistent:" + unframed_11_why(reqs[j]),
                     f"response #{j} to a persistent {kind_of(reqs[j])} request was sent with neither Content-Length nor "
                     f"chunked coding and the server closed to delimit it; request #{k} was never answered")
                return
            viol("closed-without-response:unanswered-request-" + ("persistent" if persistent(reqs[k]) else "nonpersistent"),
                 f"EOF after {k} complete response(s) but {exp_n} were due: request #{k} ({kind_of(reqs[k])}, "
                 f"{len(reqs[k]['body'])} body bytes) was sent completely and never answered; every earlier request was persistent "
                 f"and its response self-delimiting; app was called for {len(calls)} request(s)")
        else:
            viol("missing-response", f"only {k} of {exp_n} responses after {rnd} rounds and the connection is open")
        return
    # all expected responses are there
    if eof_expected:
        ctx.count("eof_after_nonpersistent_checks")
        if not conn.eof:
            viol("no-close-after-nonpersistent:" + kind_of(reqs[exp_n - 1]),
                 f"request #{exp_n - 1} was not persistent, its response is complete, but no EOF within {rnd}+8 rounds")
    else:
        ctx.count("stays_open_checks")
        if conn.eof:
            if resps[-1].framing == "eof" and reqs[exp_n - 1]["ver"] == "1.0":
                ctx.count("closed_to_delimit_unframed_response")
            elif resps[-1].framing == "eof":
                viol("closed-after-persistent:" + unframed_11_why(reqs[exp_n - 1]),
                     f"request #{exp_n - 1} was persistent ({kind_of(reqs[exp_n - 1])}); its response had neither "
                     f"Content-Length nor chunked coding and the server closed to delimit it")
            else:
                viol("closed-after-persistent:" + kind_of(reqs[exp_n - 1]),
                     f"request #{exp_n - 1} was persistent and its response was self-delimiting ({resps[-1].framing}) but the server closed")
    if len(calls) > exp_n:
        ctx.count("app_called_for_requests_after_nonpersistent")
    if case["kind"] == "rand":
        ctx.sample({"case": {"mode": mode, "reqs": [[kind_of(r), r["app"]["style"], r["app"].get("cl")] for r in reqs]},
                    "observed": [m.brief() for m in resps][:3], "info": info})


def empty_write_piece(req):
    a = req["app"]
    return a["style"] == "write" and any(p == "" for p in a["wpieces"])


def underrun_or_last_underrun(reqs, k):
    if k >= len(reqs):
        return False
    a = reqs[k]["app"]
    if a["style"] == "httperror" or a.get("cl") is None:
        return False
    produced = sum(len(p) for p in a["wpieces"]) + sum(len(p) for p in a["pieces"]) + len(a["ret"])
    return a["cl"] > produced
