"""C25 - boxwork transitions run exit / re-exit / re-enter / enter actions in the documented nested order.

Monitor shape: action trace judged by (a) a model-free pairing automaton and (b) a
lock-step reference model of the active pile (vf/models/boxwork.py).

The boxwork is built by the real `Boxer.make` from a generated function that uses
the bx / do / be / at / go verbs.  Every box gets 2..4 recorder acts in each of the contexts
predo (precondition, scripted truthiness; always 2), rendo, endo, exdo, rexdo - several, so that
declaration order inside one box/context is observable.  The acts of one context are declared
with a per-case MIX of verbs - do(callable), do("statement"), be(bag.field, callable),
be(bag.field, "expression") - because declaration order is a promise about the box's context,
not about one verb: each act appends its own token to the shared trace.  Scripted transition
acts: real `Goact`s whose `Need` is a scripted subclass (fires when the case script
says so, records that it was evaluated).  The real `Boxer.run` generator is driven
by the harness cycle by cycle and ended through the documented end path (the end
bag that `EndAct` sets, or an `EndAct` in a box) - or closed (observation only).

Per cycle the oracle takes the *observed* transition attempts (scripted go acts that
were evaluated and returned their destination), computes for the first one whose
entry preconditions (those of the boxes arrived at) hold what the statement demands
relative to the model's active pile, and compares with the recorded visits:
  boxes left      exit     bottom up
  boxes kept      re-exit  bottom up, then re-enter top down
  boxes arrived   enter    top down
  refused transition (failing precondition): no exit / entry visit at all
  end: every active box exits exactly once, bottom up.
Violation keys name the symptom and the situation class, never the case:
  order:<exit|re-exit|re-enter|enter>:<transit|end|first-entry>   same boxes, wrong order
  order:phases:<...>                                               kinds interleaved wrongly
  order:declaration:<kind>                                         acts of one box/context out of declaration order
  boxes:<situation>:<kind>-unexpected | -missing | -partial        wrong set of boxes visited (first deviating kind)
  boxes:<refused situation>:exit-actions-ran | entry-actions-ran   a refused transition ran actions
  pairing:<situation>:<enter-while-active|exit-while-inactive|...> model-free automaton (reported under its own key
                                                                   when the model saw no set difference in that cycle,
                                                                   otherwise folded into the boxes: message)
Situations: first-entry, first-entry-refused, idle, transit, transit-offprimary (the go act's box is in the active
pile but its own pile - primary unders below it - is not the active pile), precond-failed, precond-failed-offprimary, end.
"""
import random

from hio.base.hier import boxing, acting, needing, bagging

from vf.models import boxwork as bw
from vf.models.boxwork import X, RX, RE, E, KIND_NAME

ID = "C25"
LEVEL = "exploration"
TECHNIQUE = ("action-trace monitoring of the real Boxer.run generator: model-free enter/exit pairing automaton + "
             "lock-step reference model of the active pile, over enumerated box forests x single transitions and "
             "random multi-transition scripts")
RULE = ("enum1: every ordered forest with <= 5 boxes (quick) / <= 6 boxes (thorough) and <= 4 levels x every (first box, "
        "source box in its pile, destination box) x {no failing precondition, a failing precondition at each arrived box, "
        "a failing precondition at a box that is not arrived at}; enum0: first entry refused at each box of each first pile; "
        "every case declares the acts of each box/context with a mix of do/be verbs (callable and string forms) drawn from 16 patterns of "
        "2..4 acts, rotated per box; "
        "rand: random forests of 2..7 boxes (<= 4 levels, random creation order), every box has go acts to (almost) every box "
        "in random declaration order, 1..10 scripted cycles firing 1..3 go acts with/without failing preconditions, ended by "
        "end bag / EndAct in a box / close. Non-trivial = at least one transition attempt was observed (taken or refused) and "
        "the run was ended; distinct = by (forest, first box, per cycle: situation, source, destination, failing preconditions, end mode).")
ASSUMPTIONS = [
    "single boxer, acts do not raise, acts do not themselves mutate the box tree while running",
    "'documented nested order' is read from the docstrings of Boxer.exen/exdo/rexdo/rendo/endo and the comments of the run "
    "transition block: exit < re-exit < re-enter < enter; 'entry preconditions' of a transition are the preacts of the boxes arrived at",
    "kept/left/arrived are defined relative to the active pile (pile of Boxer.box) as in Boxer.exen's docstring, "
    "including forced re-entry when the destination is in the active pile",
    "'ending the boxwork' = the documented end path (end bag set, next cycle calls Boxer.end); closing the generator from outside "
    "is observed and counted but not judged",
]
NSHARDS = {"quick": 8, "thorough": 16}
TIMEOUT_S = {"quick": 300, "thorough": 1800}
REQUIRE = {
    "cycles_judged": 5000,
    "pairing_visits_checked": 20000,
    "transitions_taken": 2000,
    "transitions_refused": 500,
    "transits_with_2plus_kept": 300,
    "transits_offprimary": 100,
    "ends_judged": 1500,
    "ends_with_2plus_active": 800,
    "declaration_groups_checked": 20000,
    # declaration order judged where a do-declared act precedes a be-declared act in the same box/context, per context
    "decl_do_before_be:enter": 5000,
    "decl_do_before_be:exit": 2500,
    "decl_do_before_be:re-exit": 500,
    "decl_do_before_be:re-enter": 500,
    "decl_do_before_be:precondition": 2500,
    "first_entries_refused": 50,
}
EXHAUSTIVE = {
    "quick": "all ordered forests with <= 5 boxes and <= 4 levels x all (first box, source box in its pile, destination box) single "
             "transitions x precondition variants, each followed by the end path",
    "thorough": "all ordered forests with <= 6 boxes and <= 4 levels x all (first box, source box in its pile, destination box) single "
                "transitions x precondition variants, each followed by the end path",
}
LEVEL_TEXT = ("Every cycle of every generated run of the real Boxer.run is judged against the statement by a pairing automaton and an "
              "independent active-pile model; all forests up to a bounded size with every single transition are enumerated, longer "
              "transition sequences on forests of up to 7 boxes are sampled. Held on what was observed, not a proof for larger forests "
              "or acts with side effects on the tree.")
LEVEL_NOTE = ("trusted: the ~150-line pile model (vf/models/boxwork.py), the recorder acts, Box/Act/Goact/Need call plumbing "
              "(Act.__call__ -> deed, Goact.act -> need()), Python generator semantics")

NACT = 2
MAXDEPTH = 4
FALSY = [False, None, 0, ""]
TRUTHY = [True, 1, "y"]
NABES = (("predo", "P"), ("rendo", RE), ("endo", E), ("exdo", X), ("rexdo", RX))
# How the recorder acts of one box/context are declared, one letter per act in declaration order:
#   d  do(callable)            s  do("statement string")     (Act)
#   b  be("slot.value", callable)   e  be("slot.value", "expression string")   (Beact)
# The s/e forms reach the recorder through their iops, so every act appends its own token to the shared trace.
# Box b uses the case's pattern for that context rotated by b, so boxes of one case differ.
PATTERNS = ["dd", "db", "bd", "dbdb", "sb", "de", "bsd", "ebsd", "dbs", "bb", "sbe", "dbd", "eds", "bdb", "se", "dsbe"]
PRE_PATTERNS = ["dd", "db", "bd", "de", "ed", "bb", "be", "eb"]   # NACT long; no s: exec() returns None = a failing precondition
DECL_NAME = dict(KIND_NAME, P="precondition")


def case_verbs(i):
    """Deterministic verb patterns for the i-th enumerated case."""
    v = {k: PATTERNS[(i * 7 + j * 3) % len(PATTERNS)] for j, k in enumerate((RE, E, X, RX))}
    v["P"] = PRE_PATTERNS[i % len(PRE_PATTERNS)]
    return v


def verbs_of(case, kind, b):
    pat = (case.get("verbs") or {}).get(kind, "d" * NACT)
    r = b % len(pat)
    return pat[r:] + pat[:r]


def do_before_be(pat):
    """a do-declared act precedes a be-declared act: the mix where declaration order depends on the verbs agreeing"""
    return any(c in "ds" for c in pat[:max((i for i, c in enumerate(pat) if c in "be"), default=0)])


# --------------------------------------------------------------------------
# case generation
# --------------------------------------------------------------------------
def _enum_cases(maxn):
    i = 0
    for case in _enum_cases0(maxn):
        case["verbs"] = case_verbs(i)
        i += 1
        yield case


def _enum_cases0(maxn):
    for n in range(1, maxn + 1):
        for parents in bw.preorder_forests(n, MAXDEPTH):
            f = bw.Forest(parents)
            for first in range(n):
                A = f.pile(first)
                fm = ("default", "flag", "attr")[(n + first) % 3] if first == 0 else ("flag", "attr")[(n + first) % 2]
                # first entry refused at each box of the first pile
                for j, b in enumerate(A):
                    yield {"kind": "enum0", "parents": parents, "first": first, "firstmode": fm,
                           "goacts": [[] for _ in range(n)],
                           "steps": [{"fire": [], "prefail": [[b, j % NACT]]}, {"fire": [], "prefail": []}],
                           "end": {"how": "bag"}}
                for src in A:
                    for dest in range(n):
                        pl = bw.plan(f, A, dest)
                        goacts = [[] for _ in range(n)]
                        goacts[src] = [dest]
                        variants = [[]]
                        for j, b in enumerate(pl.arrived):
                            variants.append([[b, (j + dest) % NACT]])
                        others = [b for b in range(n) if b not in pl.arrived]
                        if others:
                            variants.append([[others[(src + dest) % len(others)], 0]])
                        for pf in variants:
                            yield {"kind": "enum1", "parents": parents, "first": first, "firstmode": fm,
                                   "goacts": goacts,
                                   "steps": [{"fire": [], "prefail": []}, {"fire": [], "prefail": []},
                                             {"fire": [[src, 0]], "prefail": pf}],
                                   "end": {"how": "bag"}}


def _rand_forest(rng):
    while True:
        n = rng.choice([2, 3, 4, 4, 5, 5, 6, 6, 7, 7])
        style = rng.random()
        parents = [-1]
        for i in range(1, n):
            if style < 0.3:      # bushy
                parents.append(rng.choice([-1] + list(range(i))))
            elif style < 0.6:    # deep-ish: prefer recent nodes
                parents.append(rng.choice([-1, i - 1, i - 1, max(0, i - 2), rng.randrange(i)]))
            else:
                parents.append(rng.randrange(-1, i))
        f = bw.Forest(parents)
        if f.depth() <= MAXDEPTH:
            return parents, f


def _winner(f, active, goacts, fire, prefail):
    """Generator-side prediction of the documented choice: piles top down, go acts in declaration
    order, first fired one whose arrived boxes have no failing precondition."""
    fs = {(b, g) for b, g in fire}
    bad = {b for b, _ in prefail}
    for b in active:
        for g, dest in enumerate(goacts[b]):
            if (b, g) in fs:
                pl = bw.plan(f, active, dest)
                if not (set(pl.arrived) & bad):
                    return pl
    return None


def _rand_case(rng):
    parents, f = _rand_forest(rng)
    n = f.n
    goacts = []
    for b in range(n):
        dests = list(range(n))
        rng.shuffle(dests)
        if rng.random() < 0.3 and n > 2:
            dests = dests[:rng.randint(2, n)]
        goacts.append(dests)
    first = rng.randrange(n)
    fm = rng.choice(["default", "flag", "attr"]) if first == 0 else rng.choice(["flag", "attr"])
    how = rng.choices(["bag", "act", "close"], [6, 3, 1])[0]
    end = {"how": how}
    if how == "act":
        end["box"] = rng.randrange(n)
    steps = [{"fire": [], "prefail": []}, {"fire": [], "prefail": []}]
    if rng.random() < 0.03:
        steps[0]["prefail"] = [[rng.choice(f.pile(first)), rng.randrange(NACT)]]
    active = f.pile(first)
    ending = how == "act" and end["box"] in active
    T = rng.randint(1, 10)
    want = rng.choice(["any", "any", "offprimary", "deep"])
    for _ in range(T):
        if ending or steps[0]["prefail"]:
            break
        fire, prefail = [], []
        nf = rng.choices([1, 2, 3, 0], [70, 20, 6, 4])[0]
        for k in range(nf):
            # pick source: bias by the case's flavour
            offs = [b for b in active if f.pile(b) != active]
            if want == "offprimary" and offs and rng.random() < 0.7:
                src = rng.choice(offs)
            elif want == "deep" and rng.random() < 0.6:
                src = active[-1]
            else:
                src = rng.choice(active)
            if not goacts[src]:
                continue
            # pick destination by relation class so that rare classes are not starved
            by = {}
            for g, d in enumerate(goacts[src]):
                by.setdefault(bw.relation(f, active, src, d), []).append(g)
            g = rng.choice(by[rng.choice(sorted(by))])
            if [src, g] not in fire:
                fire.append([src, g])
        r = rng.random()
        if fire and r < 0.35:
            # fail a precondition of a box the (currently predicted) winner would arrive at
            pl = _winner(f, active, goacts, fire, [])
            if pl is not None and pl.arrived:
                prefail.append([rng.choice(pl.arrived), rng.randrange(NACT)])
        elif r < 0.45:
            prefail.append([rng.randrange(n), rng.randrange(NACT)])
        steps.append({"fire": fire, "prefail": prefail})
        pl = _winner(f, active, goacts, fire, prefail)
        if pl is not None:
            active = pl.new
            if how == "act" and end["box"] in pl.arrived:
                ending = True
    verbs = {k: rng.choice(PATTERNS) for k in (RE, E, X, RX)}
    verbs["P"] = rng.choice(PRE_PATTERNS)
    return {"kind": "rand", "parents": parents, "first": first, "firstmode": fm, "goacts": goacts,
            "steps": steps, "end": end, "verbs": verbs}


def cases(tier, seed, shard, nshards):
    maxn = 5 if tier == "quick" else 6
    i = 0
    for case in _enum_cases(maxn):
        if i % nshards == shard:
            yield case
        i += 1
    rng = random.Random(f"{seed}:{ID}:{shard}")
    nrand = (3000 if tier == "quick" else 80000) // nshards
    for _ in range(nrand):
        yield _rand_case(rng)


# --------------------------------------------------------------------------
# building the real boxwork
# --------------------------------------------------------------------------
class Runtime:
    """Script state shared by the recorder acts of one case."""

    def __init__(self, case):
        self.trace = []      # events of the current cycle
        self.full = []       # whole run (for the violation trace)
        self.cycle = 0
        self.steps = case["steps"]
        self.fire = set()
        self.prefail = set()

    def begin(self, cycle):
        self.cycle = cycle
        self.trace = []
        st = self.steps[cycle] if cycle < len(self.steps) else {"fire": [], "prefail": []}
        self.fire = {(b, g) for b, g in st["fire"]}
        self.prefail = {(b, a) for b, a in st["prefail"]}

    def emit(self, ev):
        self.trace.append(ev)
        self.full.append((self.cycle,) + ev)


class ScriptNeed(needing.Need):
    """Real Need subclass used as the condition of a real Goact: truthiness is scripted per cycle."""

    def __init__(self, rt, box, gi, dest, **kwa):
        super().__init__(**kwa)
        self._rt, self._box, self._gi, self._dest = rt, box, gi, dest

    def __call__(self, **iops):
        hit = (self._box, self._gi) in self._rt.fire
        self._rt.emit(("G", self._box, self._gi, self._dest if hit else None))
        return TRUTHY[(self._box + self._gi) % len(TRUTHY)] if hit else FALSY[(self._box + self._gi) % len(FALSY)]


def _recorder(rt, kind, b, idx):
    if kind == "P":
        def pre(**iops):
            rt.emit(("P", b, idx))
            if (b, idx) in rt.prefail:
                return FALSY[(b + idx + rt.cycle) % len(FALSY)]
            return TRUTHY[(b + idx + rt.cycle) % len(TRUTHY)]
        return pre

    def rec(**iops):
        rt.emit((kind, b, idx))
    return rec


def build(case, rt):
    parents = case["parents"]
    n = len(parents)
    first = case["first"]
    fm = case["firstmode"]
    endbox = case["end"].get("box") if case["end"]["how"] == "act" else None

    def fun(H, bx, go, do, on, at, be):
        H.slot = bagging.Bag()      # what the be-declared acts assign
        for b in range(n):
            p = parents[b]
            bx(name=f"b{b}", over=(None if p < 0 else f"b{p}"), first=(fm == "flag" and b == first))
            pats = {kind: verbs_of(case, kind, b) for _, kind in NABES}
            # declaration: idx-major so that the acts of one context are not adjacent declarations
            for idx in range(max(len(v) for v in pats.values())):
                for nabe, kind in NABES:
                    if idx >= len(pats[kind]):
                        continue
                    verb = pats[kind][idx]
                    rec = _recorder(rt, kind, b, idx)
                    via_at = (b + idx) % 2      # context given by at(...) or by the verb's nabe argument
                    if via_at:
                        at(nabe)
                    na = None if via_at else nabe
                    if verb == "d":
                        do(rec, na)
                    elif verb == "s":
                        do("iops['rec']()", na, rec=rec)
                    elif verb == "b":
                        be("slot.value", rec, na)
                    else:
                        be("slot.value", "iops['rec']()", na, rec=rec)
                    if via_at:
                        at()
            if endbox == b:
                do("end")
            for gi, dest in enumerate(case["goacts"][b]):
                go(f"b{dest}", ScriptNeed(rt, b, gi, dest, hold=H))

    boxer = boxing.Boxer(name="bxr")
    if fm == "attr":
        boxer.first = f"b{first}"
    boxer.make(fun)
    return boxer


# --------------------------------------------------------------------------
# judging
# --------------------------------------------------------------------------
def group_visits(events, ctx, keys, sit, case=None):
    """Fold recorder events of kinds X/RX/RE/E into visits [(kind, box)], checking that each visit ran
    the box's acts of that context completely and in declaration order."""
    visits = []
    cur = None
    groups = []
    for ev in events:
        if ev[0] not in bw.KINDS:
            continue
        kind, b, idx = ev
        if (cur is not None and cur[0] == kind and cur[1] == b and idx not in cur[2]
                and len(cur[2]) < len(verbs_of(case or {}, kind, b))):
            cur[2].append(idx)
        else:
            cur = [kind, b, [idx]]
            groups.append(cur)
    for kind, b, idxs in groups:
        visits.append((kind, b))
        ctx.count("declaration_groups_checked")
        pat = verbs_of(case or {}, kind, b)
        want = list(range(len(pat)))
        if do_before_be(pat):
            ctx.count("decl_do_before_be:" + KIND_NAME[kind])
        if idxs != want:
            if sorted(idxs) == want:
                keys.append((f"order:declaration:{KIND_NAME[kind]}",
                             f"acts of box b{b} in context {KIND_NAME[kind]} ran in order {idxs}, declared {want} "
                             f"with verbs {pat} (d do(callable) s do(str) b be(callable) e be(str))"))
            else:
                keys.append((f"boxes:{sit}:{KIND_NAME[kind]}-partial",
                             f"box b{b} context {KIND_NAME[kind]}: acts run {idxs} of declared {want}"))
    return visits


def check_preconds(events, ctx, keys, case=None):
    cur = None
    groups = []
    for ev in events:
        if ev[0] == "P":
            _, b, idx = ev
            ctx.count("preconditions_evaluated")
            if cur is not None and cur[0] == b and idx not in cur[1]:
                cur[1].append(idx)
            else:
                cur = [b, [idx]]
                groups.append(cur)
        else:
            cur = None
    for b, idxs in groups:
        pat = verbs_of(case or {}, "P", b)
        if len(idxs) == len(pat) and do_before_be(pat):
            ctx.count("decl_do_before_be:precondition")
        if idxs != list(range(len(idxs))):
            keys.append(("order:declaration:precondition",
                         f"preconditions of box b{b} evaluated in order {idxs}, declared {list(range(len(pat)))} "
                         f"with verbs {pat}"))


def pairing(visits, act, keys, sit, ctx):
    """Model-free automaton: enter/exit alternate per box starting with enter; re-exit/re-enter only while active."""
    for kind, b in visits:
        ctx.count("pairing_visits_checked")
        if kind == E:
            if act.get(b):
                keys.append((f"pairing:{sit}:enter-while-active", f"box b{b} entered while already entered (no exit in between)"))
            act[b] = True
        elif kind == X:
            if not act.get(b):
                keys.append((f"pairing:{sit}:exit-while-inactive", f"box b{b} exited while not entered"))
            act[b] = False
        elif kind == RX:
            if not act.get(b):
                keys.append((f"pairing:{sit}:re-exit-while-inactive", f"box b{b} re-exited while not entered"))
        elif kind == RE:
            if not act.get(b):
                keys.append((f"pairing:{sit}:re-enter-while-inactive", f"box b{b} re-entered while not entered"))


def compare(obs, exp, keys, sit, sitclass):
    """obs/exp: visit lists.  Returns True when the *sets* of visited boxes differ (real state has diverged:
    the case stops).  One key per cycle for a set difference: in a refused situation whether exit-side or only
    entry-side actions ran, otherwise the first deviating kind in nesting order (exit, re-exit, re-enter, enter)."""
    if obs == exp:
        return False
    diffs = []
    for kind in bw.KINDS:
        o = [b for k, b in obs if k == kind]
        e = [b for k, b in exp if k == kind]
        extra = sorted(set(b for b in o if o.count(b) > e.count(b)))
        missing = sorted(set(b for b in e if e.count(b) > o.count(b)))
        if extra:
            diffs.append((kind, "unexpected", extra))
        if missing:
            diffs.append((kind, "missing", missing))
    if diffs:
        detail = "; ".join(f"{KIND_NAME[k]} actions {'ran for' if d == 'unexpected' else 'did not run for'} "
                           f"{['b%d' % b for b in bs]}" for k, d, bs in diffs)
        if not exp and sit.startswith(("precond-failed", "first-entry-refused", "idle")):
            if any(k in (X, RX) for k, _, _ in diffs):
                key = f"boxes:{sit}:exit-actions-ran"
            else:
                # entry actions after a refusal: the same symptom whichever box owns the go act, so the
                # -offprimary qualifier (which matters for *which* boxes get exited) is not part of this key
                key = f"boxes:{sit.replace('-offprimary', '')}:entry-actions-ran"
            keys.append((key, "no exit or entry action may run here, but " + detail))
        else:
            k, d, _ = diffs[0]
            keys.append((f"boxes:{sit}:{KIND_NAME[k]}-{d}", detail))
        return True
    wrong = False
    for kind in bw.KINDS:
        o = [b for k, b in obs if k == kind]
        e = [b for k, b in exp if k == kind]
        if o != e:
            wrong = True
            want = {X: "bottom up", RX: "bottom up", RE: "top down", E: "top down"}[kind]
            keys.append((f"order:{KIND_NAME[kind]}:{sitclass}",
                         f"{KIND_NAME[kind]} order was {['b%d' % b for b in o]}, {want} is {['b%d' % b for b in e]}"))
    if not wrong:
        keys.append((f"order:phases:{sitclass}",
                     f"kinds interleaved as {[k for k, _ in obs]}, documented nesting is {[k for k, _ in exp]}"))
    return False


def fmt(visits):
    return " ".join(f"{k}:b{b}" for k, b in visits)


def run_case(case, ctx):
    acting.ActBase._clearall()
    f = bw.Forest(case["parents"])
    rt = Runtime(case)
    boxer = build(case, rt)            # an exception here is a harness problem (not what C25 is about)
    model = bw.PileModel(f, case["first"])
    gen = boxer.run(tock=1.0)
    steps = case["steps"]
    how = case["end"]["how"]
    endbox = case["end"].get("box") if how == "act" else None
    act = {}                           # pairing automaton state
    sig = []
    attempts_seen = 0
    end_pending = False
    refused_first = bool({b for b, _ in steps[0]["prefail"]} & set(model.first_pile()))
    endkey = ("", "boxer", boxer.name, "end")
    ncycles = len(steps) + 1           # + the end cycle
    ended = False

    def report(keys, cycle, sit, exp, obs, extra=""):
        seen = set()
        for key, msg in keys:
            if key in seen:
                continue
            seen.add(key)
            ctx.violation(key, f"cycle {cycle} [{sit}] forest parents={case['parents']} active pile before="
                               f"{['b%d' % b for b in (pre_active or [])]} {extra}: {msg}. "
                               f"expected visits [{fmt(exp)}] observed [{fmt(obs)}]",
                          trace=[list(e) for e in rt.full])

    cycle = 0
    while cycle < ncycles:
        pre_active = list(model.active) if model.active else []
        is_last = cycle == ncycles - 1
        if cycle >= 2 and not end_pending and is_last:
            if how == "close":
                # observation only: closing the generator from outside is not the documented end path
                rt.begin(cycle)
                try:
                    gen.close()
                except Exception as ex:
                    ctx.count("close_raised:" + type(ex).__name__)
                cv = [e for e in rt.trace if e[0] in bw.KINDS]
                ctx.count("close_cases")
                ctx.count("close_active_boxes", len(pre_active))
                ctx.count("close_exit_events_observed", len([e for e in cv if e[0] == X]))
                sig.append(["close"])
                break
            # documented end path: what EndAct.act does
            if endkey not in boxer.hold:
                boxer.hold[endkey] = bagging.Bag()
            boxer.hold[endkey].value = True
            end_pending = True
        rt.begin(cycle)
        stopped = None
        try:
            if cycle == 0:
                next(gen)
            else:
                gen.send(float(cycle))
        except StopIteration as ex:
            stopped = (ex.value,)
        except Exception as ex:
            ctx.violation(f"run-raised:{type(ex).__name__}", f"Boxer.run raised {ex!r} in cycle {cycle}; "
                          f"parents={case['parents']} active={pre_active}", trace=[list(e) for e in rt.full])
            return
        events = rt.trace
        keys = []
        ctx.count("cycles_judged")

        # ---- what does the statement demand for this cycle? ------------------
        attempts = [(e[1], e[2], e[3]) for e in events if e[0] == "G" and e[3] is not None]
        bad = {b for b, _ in rt.prefail}
        exp = []
        expect_stop = False
        taken = None
        if cycle == 0:
            sit = sitclass = "first-entry"
            if refused_first:
                sit = "first-entry-refused"
                expect_stop = True
                ctx.count("first_entries_refused")
        elif cycle == 1:
            sit = sitclass = "first-entry"
            if refused_first:
                sit = "first-entry-refused"
            else:
                exp = model.enter_first()
        elif end_pending:
            sit = sitclass = "end"
            exp = model.end()
            expect_stop = True
            ctx.count("ends_judged")
            if len(pre_active) >= 2:
                ctx.count("ends_with_2plus_active")
            ctx.count("end_boxes_expected_to_exit", len(pre_active))
        else:
            sitclass = "transit"
            sit = "idle"
            nrefused = 0
            refused_off = False
            for src, gi, dest in attempts:
                attempts_seen += 1
                if taken is not None:
                    ctx.count("go_acts_fired_after_transit")   # not judged: the statement is silent
                    continue
                if src not in model.active:
                    keys.append(("model:go-act-of-inactive-box-evaluated",
                                 f"go act of b{src} evaluated but the active pile is {model.active}"))
                    continue
                pl = model.plan(dest)
                rel = bw.relation(f, model.active, src, dest)
                off = f.pile(src) != model.active
                if set(pl.arrived) & bad:
                    nrefused += 1
                    ctx.count("transitions_refused")
                    ctx.count("refused:" + rel + ("+offprimary" if off else ""))
                    refused_off = refused_off or off
                    sig.append(["refused", src, dest, sorted(bad)])
                    continue
                taken = (src, dest, pl, rel, off)
            if taken is not None:
                src, dest, pl, rel, off = taken
                sit = "transit-offprimary" if off else "transit"
                exp = pl.visits()
                ctx.count("transitions_taken")
                ctx.count("rel:" + rel + ("+offprimary" if off else ""))
                if off:
                    ctx.count("transits_offprimary")
                if len(pl.kept) >= 2:
                    ctx.count("transits_with_2plus_kept")
                if len(pl.left) >= 2:
                    ctx.count("transits_with_2plus_left")
                if len(pl.arrived) >= 2:
                    ctx.count("transits_with_2plus_arrived")
                if nrefused:
                    ctx.count("transits_after_refused_attempt_same_cycle")
                ctx.seen("transition_shapes", [case["parents"], model.active, src, dest])
                sig.append(["taken", src, dest, sorted(bad)])
                model.commit(pl)
                if endbox is not None and endbox in pl.arrived:
                    end_pending_next = True
                else:
                    end_pending_next = False
            elif nrefused:
                sit = "precond-failed-offprimary" if refused_off else "precond-failed"
                end_pending_next = False
            else:
                end_pending_next = False
                sig.append(["idle"])
        if cycle == 1 and not refused_first and endbox is not None and endbox in model.active:
            end_pending_next = True
        elif cycle < 2:
            end_pending_next = False
        if sit == "end":
            end_pending_next = False

        # ---- observed ------------------------------------------------------
        obs = group_visits(events, ctx, keys, sit, case)
        check_preconds(events, ctx, keys, case)
        pkeys = []
        pairing(obs, act, pkeys, sit, ctx)
        for k, _ in obs:
            ctx.count("visits:" + KIND_NAME[k])
        fatal = compare(obs, exp, keys, sit, sitclass)
        if pkeys:
            ctx.count("pairing_anomalies", len(pkeys))
            if fatal:
                # the model already names this cycle's set difference: fold the automaton's findings into that
                # message instead of multiplying keys for one mechanism
                keys = [(k, m + " [pairing automaton: " + "; ".join(pm for _, pm in pkeys) + "]")
                        if k.startswith("boxes:") else (k, m) for k, m in keys]
            else:
                keys.extend(pkeys)
            fatal = True
        if any(k.startswith("model:") for k, _ in keys):
            fatal = True
        if sit == "end":
            left = sorted(b for b, a in act.items() if a)
            if left and not fatal:
                keys.append(("pairing:end:active-box-not-exited", f"boxes {left} still entered after the end"))
                fatal = True
        if expect_stop and stopped is None:
            keys.append((f"run:{sit}:did-not-stop", "Boxer.run did not return"))
            fatal = True
        if stopped is not None and not expect_stop:
            keys.append((f"run:{sit}:stopped-unexpectedly", f"Boxer.run returned {stopped[0]!r}"))
            fatal = True
        if stopped is not None:
            ctx.count(f"run_returned:{stopped[0]!r}")
        if not fatal and stopped is None and cycle >= 1 and not refused_first:
            # cross-check model and real active box (the transition landed where the go act pointed)
            real = boxer.box.pile if boxer.box is not None else []
            realpile = [int(b.name[1:]) for b in real]
            if realpile != model.active:
                keys.append((f"model:{sit}:active-pile-mismatch",
                             f"Boxer.box pile is {realpile}, model active pile is {model.active}"))
                fatal = True
        if keys:
            extra = ""
            if taken is not None:
                extra = f"transition b{taken[0]} -> b{taken[1]} ({taken[3]})"
            elif sit.startswith("precond-failed"):
                extra = f"refused attempts {[(f'b{s}', f'b{d}') for s, _, d in attempts]} failing preconditions at {sorted(bad)}"
            report(keys, cycle, sit, exp, obs, extra)
        if len(model.active or []) > 0:
            ctx.seen("active_piles", [case["parents"], model.active])
        if stopped is not None or fatal or (cycle == 1 and refused_first):
            ended = sit == "end" and stopped is not None
            break
        end_pending = end_pending or end_pending_next
        if end_pending and not is_last:
            # EndAct in an entered box: the next cycle is the end cycle whatever the script says
            ncycles = cycle + 2
        cycle += 1

    ctx.seen("shapes", case["parents"])
    ctx.count("cases:" + case["kind"])
    if attempts_seen and (ended or how == "close"):
        ctx.nontrivial([case["parents"], case["first"], sig, how])
    if case["kind"] == "rand" and len(sig) >= 3:
        ctx.sample({"case": case, "per_cycle": sig, "trace_head": [list(e) for e in rt.full[:40]]})
    try:
        gen.close()
    except Exception:
        pass
