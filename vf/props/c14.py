"""C14 - requests built by the HTTP client are recovered exactly by the server.

Monitor shape: producer/consumer round trip of the real code, judged against the
generated request *spec* (never against the bytes on the wire):

  direct   Requester(**spec).build()  ->  Requestant(msg=bytes).parse()  ->  Server.buildEnviron(requestant)
  loop     http.Client.request(**spec) <- loopback TCP -> http.Server (WSGI app records environ + wsgi.input)
  seq-*    SEQUENCES of 2-4 specs on ONE kept connection: seq-direct rebuilds one Requester per request (as
           Client.transmit does) and feeds one Requestant that is re-armed with makeParser() between messages exactly
           like Server.serviceReps; seq-loop sends them through one http.Client to one http.Server on one keep-alive
           connection.  Every request is judged against its OWN spec; when a request at position >= 2 fails although
           the same spec alone (fresh builder, fresh parser) is recovered exactly, the failure is keyed
           state-leak-across-requests:<field> (headers | query | body | method | path | not-parsed).
  *-cuts   two-piece delivery: direct-cuts feeds Requester.build() bytes to a fresh Requestant whole and then cut at EVERY
           position, with one parse() (= one service round) on the first piece alone; loop-cuts writes them to a real
           http.Server over loopback in two writes with service rounds in between, at the CR|LF of the request line and of
           a header line, around the head/body boundary, in the body and at two random places.  A delivery that recovers
           something else than the whole one is keyed recovery-differs-when-split:<field>:<where the cut fell>.
  queue    2-4 Client.request() calls queued on ONE http.Client before the first service round (with / without qargs=,
           headers=, method=, path=, a query embedded in the path; client-level default method/path/qargs/headers), then
           serviced against a loopback http.Server; each request must arrive as documented: values not given are the
           requester's at the time of the call, a query in the path is merged over the query args of THAT request only.

Recovered and compared: method; requestant.path and unquote(PATH_INFO); the query
arguments as any WSGI application decodes them (parse_qsl(QUERY_STRING)); every
header value (requestant.headers and HTTP_<NAME>) and the SET of recovered header names (nothing beyond the spec's
fields plus Host / Accept-Encoding / Content-Length / Content-Type that the client adds itself); the body bytes (requestant.body,
wsgi.input, CONTENT_LENGTH); for JSON `data` json.loads(body); for form `fargs`
parse_qsl(body).  The statement lists form *fields* as an input but only the body
bytes as recovered, so form fields containing the delimiters '&' '=' (which the
client does not escape) are counted as an observation, not judged.
"""
import json
import random
from urllib.parse import parse_qsl, quote, quote_plus, unquote, unquote_plus

from hio.core import http
from hio.core.http import clienting, serving

from vf.mon import http_loop as hl

ID = "C14"
LEVEL = "exploration"
TECHNIQUE = ("differential producer/consumer round trip of the real client builder and the real server parser/WSGI "
             "environ against the generated request spec; a sample of specs over real loopback sockets")
RULE = ("request specs = method (all 9 of httping.METHODS, any letter case) x unicode path (single leading '/', no '?', '#', "
        "TAB/CR/LF; literal %XX, reserved, latin-1, BMP, astral chars) x <= 8 query args (arbitrary unicode values; keys "
        "unreserved in 4/5 of the specs, arbitrary unicode incl. & = + % # ; space CR LF in 1/5) x <= 12 headers (token-char "
        "names unique under the WSGI HTTP_ mapping, latin-1 values without edge blanks) x body (none | binary bytes | latin-1 "
        "str | JSON data | form fargs | multipart fargs; none for GET) x explicit Content-Length or not. Non-trivial = the spec "
        "needs quoting somewhere or carries headers or a body; distinct = by the whole spec. Plus sequences of 2-4 such specs "
        "for one reused Requestant / one keep-alive connection, built so that consecutive specs drop header names, the body "
        "and the query args of their predecessor (rich -> sparse -> ...).")
ASSUMPTIONS = [
    "paths start with a single '/' and contain no '?', '#' (they delimit the path) and no TAB/CR/LF (urllib.parse.urlsplit removes them by design)",
    "strings contain no lone surrogates; header names are RFC 7230 tokens, values are latin-1 without leading/trailing SP/HTAB and without CR/LF",
    "no two header names of one request map to the same WSGI HTTP_ key; Transfer-Encoding is never requested (the client cannot chunk)",
    "GET specs carry no body (Requester documents that GET bodies are not sent); an explicit Content-Length equals the body length",
    "query arguments are recovered the way a WSGI application does: urllib.parse.parse_qsl(QUERY_STRING, keep_blank_values=True)",
]
LEVEL_TEXT = ("Every generated spec is pushed through the real builder and the real parser/environ and compared field by field; "
              "the space is sampled (seeded), not enumerated. Held means: no sampled spec was recovered differently.")
LEVEL_NOTE = "trusted: urllib.parse.parse_qsl/unquote and json as the application-side decoders; the spec generator"
NSHARDS = {"quick": 8, "thorough": 16}
PEAK_COUNTERS = ("loop_rounds_max",)
TIMEOUT_S = {"quick": 240, "thorough": 1500}
REQUIRE = {"requests_compared": 1500, "loop_requests_compared": 40, "header_values_compared": 3000,
           "qarg_pairs_compared": 3000, "body_bytes_compared": 20000, "json_bodies_compared": 100,
           "form_bodies_compared": 100, "paths_needing_quote": 500,
           "sequence_requests_compared_on_reused_parser": 1500, "loop_sequence_requests_compared_on_kept_connection": 100,
           "header_names_dropped_between_consecutive_requests": 800, "body_dropped_between_consecutive_requests": 400,
           "qargs_dropped_between_consecutive_requests": 400, "header_name_sets_compared": 5000,
           "two_piece_feeds_compared": 4000, "two_piece_cut_request-line-CR_LF": 16, "two_piece_cut_header-CR_LF": 60,
           "loop_two_write_requests_compared": 60, "queued_requests_compared": 600,
           "queued_requests_inheriting_qargs_behind_a_path_query": 100, "bodies_over_64KiB_recovered": 60}

METHODS = ["GET", "HEAD", "PUT", "PATCH", "POST", "DELETE", "OPTIONS", "TRACE", "CONNECT"]

# ---- string pools ---------------------------------------------------------------
PLAIN = "abcdefghijklmnopqrstuvwxyzABCDEFGHIJKLMNOPQRSTUVWXYZ0123456789-._~"
RESERVED = "&=+%;/:@!$'()*,[]<>\"\\{}|^` "
PCT = ["%41", "%2F", "%2f", "%zz", "%", "%%", "%20", "+", "%C3%A9", "%00", "%E9"]
LATIN = "\u00e9\u00fc\u00ff\u00a0\u0085\u00df\u00b2"
BMP = "\u65e5\u672c\u8a9e\u20ac\u03a9\u0436\u200b\u0301\u2028\ufeff"
ASTRAL = "\U0001F600\U0001D4B3"
CTL = "\x01\x7f\x0b\x1f\x00"
TOKEN = "abcdefghijklmnopqrstuvwxyzABCDEFGHIJKLMNOPQRSTUVWXYZ0123456789-_.!#$%&'*+^`|~"
HVAL = "".join(chr(c) for c in list(range(0x20, 0x7f)) + list(range(0x80, 0x100)))


def ustr(rng, lo, hi, hostile=True, extra="", exclude=""):
    n = rng.randint(lo, hi)
    out = []
    for _ in range(n):
        r = rng.random()
        if not hostile or r < 0.35:
            out.append(rng.choice(PLAIN))
        elif r < 0.6:
            out.append(rng.choice(RESERVED + extra))
        elif r < 0.7:
            out.append(rng.choice(PCT))
        elif r < 0.8:
            out.append(rng.choice(LATIN))
        elif r < 0.9:
            out.append(rng.choice(BMP))
        elif r < 0.95:
            out.append(rng.choice(ASTRAL))
        else:
            out.append(rng.choice(CTL))
    s = "".join(out)
    for ch in exclude:
        s = s.replace(ch, "")
    return s


def gen_path(rng):
    r = rng.random()
    if r < 0.05:
        return "/"
    nseg = rng.randint(1, 4)
    segs = [ustr(rng, 0 if i else 1, 10, hostile=rng.random() < 0.8, exclude="?#\t\r\n") for i in range(nseg)]
    p = "/" + "/".join(segs)
    while p.startswith("//"):
        p = p[1:]
    if len(p) > 1 and p[1] == "/":
        p = "/x" + p[1:]
    return p or "/"


def gen_json(rng, depth=0):
    r = rng.random()
    if depth > 2 or r < 0.35:
        k = rng.random()
        if k < 0.5:
            return ustr(rng, 0, 12)
        if k < 0.7:
            return rng.randint(-10 ** 12, 10 ** 12)
        if k < 0.8:
            return rng.choice([0.5, -1.25, 1e10, 3.0])
        return rng.choice([True, False, None])
    if r < 0.6:
        return [gen_json(rng, depth + 1) for _ in range(rng.randint(0, 4))]
    return {ustr(rng, 0, 8): gen_json(rng, depth + 1) for _ in range(rng.randint(0, 4))}


def wsgi_key(name):
    return name.replace("-", "_").upper()


AUTO = ["Host", "Accept-Encoding", "Content-Length", "Content-Type"]
SEMANTIC = [("Accept", "application/json, text/*;q=0.5"), ("User-Agent", "vf/1.0 (c14)"), ("Host", "example.com:8080"),
            ("Accept-Encoding", "gzip, identity"), ("Connection", "keep-alive"), ("Cookie", "a=1; b=\"x y\"; c=é"),
            ("Authorization", "Basic dXNlcjpwYXNz"), ("If-None-Match", "W/\"67ab43\", \"54ed21\""),
            ("X-Forwarded-For", "10.0.0.1, 127.0.0.1"), ("Referer", "http://h/p?a=b#f")]


def gen_headers(rng, allow_ctype, maxn):
    out = []
    used = {}
    for a in AUTO:
        used[wsgi_key(a)] = a.lower()
    n = rng.choice([0, 1, 2, 3, 5, 8, maxn])
    for _ in range(n):
        r = rng.random()
        if r < 0.25:
            name, value = rng.choice(SEMANTIC)
            if rng.random() < 0.5:
                name = rng.choice([name.lower(), name.upper()])
        else:
            if r < 0.6:
                name = "X-" + "".join(rng.choice(PLAIN[:62] + "-") for _ in range(rng.randint(1, 10)))
            else:
                name = "".join(rng.choice(TOKEN) for _ in range(rng.randint(1, 12)))
            vlen = rng.choice([0, 1, 3, 10, 40])
            value = "".join(rng.choice(HVAL) if rng.random() < 0.9 else "\t" for _ in range(vlen)).strip(" \t")
        low = name.lower()
        if low in ("content-length", "transfer-encoding", "te", "expect", "upgrade"):
            continue
        if low == "content-type" and not allow_ctype:
            continue
        wk = wsgi_key(name)
        if wk in used and not (used[wk] == low and low in ("host", "accept-encoding") and
                               not any(h[0].lower() == low for h in out)):
            continue
        used[wk] = low
        out.append([name, value])
    if allow_ctype and rng.random() < 0.2 and not any(h[0].lower() == "content-type" for h in out):
        out.append([rng.choice(["Content-Type", "content-type"]),
                    rng.choice(["text/plain", "application/octet-stream", "application/json", "text/plain; charset=utf-8"])])
    return out


def gen_bytes(rng, maxlen):
    n = rng.choice([1, 2, 7, 32, 200, maxlen])
    out = bytearray()
    while len(out) < n:
        r = rng.random()
        if r < 0.6:
            out.append(rng.randrange(256))
        elif r < 0.7:
            out += b"\r\n"
        elif r < 0.75:
            out += b"0\r\n\r\n"
        elif r < 0.8:
            out += b"\x00"
        else:
            out += rng.choice([b"GET / HTTP/1.1\r\n\r\n", b"\xff\xfe", b"\n", b"\r", b"a=b&c=d", b"{\"k\":1}"])
    return bytes(out[:n])


def gen_spec(rng, tier, mode, hint=None):
    """hint (sequences): {"body": bool|None, "headers": bool|None, "qargs": bool|None} forces presence / absence"""
    hint = hint or {}
    method = rng.choice(METHODS)
    if hint.get("body") is True and method == "GET":
        method = rng.choice(METHODS[1:])
    spec = {"mode": mode, "method": rng.choice([method, method, method.lower(), method.title()]),
            "path": gen_path(rng)}
    hostile_keys = rng.random() < 0.2
    qargs = []
    seen = set()
    nq = rng.choice([0, 0, 1, 2, 3, 5, 8])
    if hint.get("qargs") is True:
        nq = max(nq, rng.randint(1, 4))
    elif hint.get("qargs") is False:
        nq = 0
    for _ in range(nq):
        if hostile_keys:
            k = ustr(rng, 0, 8, extra="\r\n\t#?")
        else:
            k = ustr(rng, 0, 8, hostile=False)
        if k in seen:
            continue
        seen.add(k)
        v = ustr(rng, 0, 14, extra="#?\r\n\t") if rng.random() < 0.93 else rng.choice([0, 7, -3, 10 ** 20, True, None, 2.5])
        qargs.append([k, v])
    spec["qargs"] = qargs
    if rng.random() < 0.1:
        spec["fragment"] = ustr(rng, 1, 6)
    kind = "none"
    if method != "GET":
        kind = rng.choice(["none", "bytes", "bytes", "bytes", "str", "data", "data", "fargs", "fargs", "multipart"])
        if hint.get("body") is True and kind == "none":
            kind = rng.choice(["bytes", "str", "data", "fargs"])
    if hint.get("body") is False:
        kind = "none"
    spec["kind"] = kind
    if hint.get("headers") is False:
        spec["headers"] = []
    else:
        spec["headers"] = gen_headers(rng, allow_ctype=kind in ("none", "bytes", "str"), maxn=12)
        tries = 0
        while hint.get("headers") is True and len(spec["headers"]) < 2 and tries < 20:
            spec["headers"] = gen_headers(rng, allow_ctype=kind in ("none", "bytes", "str"), maxn=12)
            tries += 1
    maxlen = 256 if tier == "quick" else 4096
    if kind == "bytes":
        spec["body"] = gen_bytes(rng, maxlen).decode("latin-1")
    elif kind == "str":
        spec["body"] = "".join(chr(rng.randrange(256)) for _ in range(rng.choice([1, 5, 60])))
    elif kind == "data":
        d = gen_json(rng)
        if not isinstance(d, (dict, list)) or rng.random() < 0.7:
            d = {ustr(rng, 0, 8): gen_json(rng, 1) for _ in range(rng.randint(0, 5))}
        spec["data"] = d
    elif kind == "fargs":
        delims = rng.random() < 0.1
        fa, seenf = [], set()
        for _ in range(rng.randint(0, 6)):
            k = ustr(rng, 0, 8, exclude="" if delims else "&=")
            if k in seenf:
                continue
            seenf.add(k)
            fa.append([k, ustr(rng, 0, 12, exclude="" if delims else "&=")])
        spec["fargs"] = fa
    elif kind == "multipart":
        spec["headers"] = [h for h in spec["headers"] if h[0].lower() != "content-type"]
        spec["headers"].append(["Content-Type", "multipart/form-data"])
        fa = {}
        for _ in range(rng.randint(1, 4)):
            fa["f" + ustr(rng, 1, 5, hostile=False)] = ustr(rng, 0, 12, exclude="\r\n")
        spec["fargs"] = [[k, v] for k, v in fa.items()]
    if kind in ("none", "bytes", "str") and rng.random() < 0.3 and hint.get("headers") is not False:
        blen = len(spec.get("body", ""))
        name = rng.choice(["Content-Length", "content-length", "CONTENT-LENGTH"])
        spec["headers"].insert(rng.randint(0, len(spec["headers"])), [name, blen if rng.random() < 0.3 else str(blen)])
    return spec


def gen_sequence(rng, tier, mode):
    """2-4 specs for ONE kept connection / ONE reused Requestant; consecutive specs are made to differ in header names,
    presence of a body and of query args (rich -> sparse, or sparse -> rich), so that anything left over from the
    previous request shows up as a difference."""
    n = rng.choice([2, 2, 3, 4])
    rich = {"body": True, "headers": True, "qargs": True}
    seq = []
    flip = rng.random() < 0.3
    for i in range(n):
        if i % 2 == (1 if flip else 0):
            hint = dict(rich) if i < 2 else {}
        else:
            hint = {k: (False if rng.random() < 0.6 else None) for k in rich}
            if i < 2 and all(v is None for v in hint.values()):
                hint[rng.choice(sorted(rich))] = False
        seq.append(gen_spec(rng, tier, mode, hint))
    return {"mode": mode, "seq": seq}


def gen_pathquery(rng):
    """query string to embed in a request path: plain keys, values with %XX and '+' (no ';', '#')"""
    pairs = []
    for _ in range(rng.randint(1, 3)):
        k = ustr(rng, 1, 6, hostile=False)
        v = "".join(rng.choice(["a", "Z", "7", "+", "%21", "%C3%A9", "%2B", "-", "_"]) for _ in range(rng.randint(0, 6)))
        pairs.append([k, v])
    return pairs


BIG_KINDS = ["bytes", "data", "fargs", "str", "multipart"]
BIG_SIZES = [70000, 200000, 1000000]


def gen_big(rng, idx, mode, tier="thorough"):
    """spec whose body is far larger than the parser's 64 KiB LINE limit; the body is stored as [unit, repeat] and only
    expanded inside run_case (replay files and evidence stay small)"""
    kind = BIG_KINDS[idx % len(BIG_KINDS)]
    sizes = BIG_SIZES if tier != "quick" else [70000, 200000, 70000, 200000, 70000, 200000, 70000, 1000000]
    size = sizes[(idx // len(BIG_KINDS)) % len(sizes)]
    spec = gen_spec(rng, "quick", mode, hint={"body": False})
    m = rng.choice(METHODS[1:])
    spec["method"] = rng.choice([m, m.lower()])
    spec["kind"] = kind
    spec["headers"] = [h for h in spec["headers"] if h[0].lower() not in ("content-type", "content-length")]
    if kind == "bytes":
        unit = gen_bytes(rng, 32).decode("latin-1") + "\r\n\x00\xff"
    elif kind == "str":
        unit = "".join(chr(rng.randrange(256)) for _ in range(rng.randint(9, 17)))
    else:
        unit = ustr(rng, 9, 17, exclude="&=\r\n") or "x"
    spec["rep"] = [unit, max(1, size // len(unit))]
    if kind == "multipart":
        spec["headers"].append(["Content-Type", "multipart/form-data"])
    if kind in ("bytes", "str") and rng.random() < 0.3:
        spec["explicit_cl"] = True
    return spec


def materialize(case):
    """expand a [unit, repeat] body into the spec fields the round trips and the oracle use"""
    if "rep" not in case:
        return case
    unit, n = case["rep"]
    blob = unit * n
    spec = dict(case)
    spec["_compact"] = case
    kind = case["kind"]
    if kind in ("bytes", "str"):
        spec["body"] = blob
        if case.get("explicit_cl"):
            spec["headers"] = case["headers"] + [["Content-Length", str(len(blob.encode("latin-1")))]]
    elif kind == "data":
        spec["data"] = {"blob": blob, "n": n, "tail": [unit, None]}
    elif kind == "fargs":
        spec["fargs"] = [["blob", blob], ["k", unit]]
    elif kind == "multipart":
        spec["fargs"] = [["fblob", blob], ["fk", unit]]
    return spec


def compact(spec):
    return spec.get("_compact", spec)


def gen_qpath(rng):
    """path for the queue cases: as gen_path, without ';' and still with exactly one leading '/'"""
    p = "/" + gen_path(rng).replace(";", "").lstrip("/")
    return p


def gen_queue(rng, tier):
    """one Client with client-level defaults and 2-4 Client.request() calls that are all queued before any service round"""
    cl = {"method": rng.choice(["GET", "POST", "PUT"]), "path": gen_qpath(rng),
          "qargs": [[ustr(rng, 1, 6, hostile=False), ustr(rng, 0, 8)] for _ in range(rng.choice([0, 1, 2]))],
          "headers": [h for h in gen_headers(rng, allow_ctype=False, maxn=4) if h[0].lower() not in ("host", "accept-encoding")][:3]}
    if rng.random() < 0.3:
        cl["pathquery"] = gen_pathquery(rng)
    reqs = []
    n = rng.choice([2, 3, 3, 4])
    for i in range(n):
        r = {}
        if rng.random() < 0.7:
            r["method"] = rng.choice(METHODS)
        if rng.random() < 0.85:
            r["path"] = gen_qpath(rng)
            if rng.random() < (0.7 if i < n - 1 else 0.3):
                r["pathquery"] = gen_pathquery(rng)
        if rng.random() < (0.3 if i else 0.15):       # mostly inherit the defaults: that is where sharing would show
            r["qargs"] = [[ustr(rng, 0, 6, hostile=rng.random() < 0.3), ustr(rng, 0, 8)] for _ in range(rng.randint(0, 3))]
            r["qargs"] = [list(kv) for kv in {k: v for k, v in r["qargs"]}.items()]
        if rng.random() < 0.4:
            r["headers"] = [h for h in gen_headers(rng, allow_ctype=False, maxn=5)][:4]
        eff = r.get("method", cl["method"])
        kind = "none" if eff == "GET" else rng.choice(["none", "bytes", "data", "fargs"])
        r["kind"] = kind
        if kind == "bytes":
            r["body"] = gen_bytes(rng, 64).decode("latin-1")
        elif kind == "data":
            r["data"] = {ustr(rng, 0, 6): gen_json(rng, 1) for _ in range(rng.randint(0, 3))}
        elif kind == "fargs":
            r["fargs"] = [list(kv) for kv in {ustr(rng, 0, 6, exclude="&="): ustr(rng, 0, 8, exclude="&=") for _ in range(rng.randint(0, 3))}.items()]
        reqs.append(r)
    return {"mode": "queue", "client": cl, "reqs": reqs}


def cases(tier, seed, shard, nshards):
    rng = random.Random(f"{seed}:C14:{shard}")
    ndirect = (6000 if tier == "quick" else 150000) // nshards
    nloop = (240 if tier == "quick" else 2400) // nshards
    nseq = (1600 if tier == "quick" else 40000) // nshards
    nseqloop = (96 if tier == "quick" else 960) // nshards
    every = max(1, ndirect // max(1, nloop))
    for i in range(ndirect):
        yield gen_spec(rng, tier, "direct")
        if i % every == 0:
            yield gen_spec(rng, tier, "loop")
    every = max(1, nseq // max(1, nseqloop))
    for i in range(nseq):
        yield gen_sequence(rng, tier, "seq-direct")
        if i % every == 0:
            yield gen_sequence(rng, tier, "seq-loop")
    # two-piece delivery at EVERY cut position (socket-less) / at a few chosen ones (two writes over loopback)
    for _ in range((24 if tier == "quick" else 480) // nshards or 1):
        yield gen_spec(rng, "quick", "direct-cuts")
    for _ in range((16 if tier == "quick" else 160) // nshards or 1):
        yield dict(gen_spec(rng, "quick", "loop-cuts"), rcuts=[rng.random() for _ in range(2)])
    # bodies far beyond 64 KiB (a limit that applies to LINES, not to what is buffered behind the request line)
    nbig = (40 if tier == "quick" else 400) // nshards
    for j in range(nbig):
        idx = shard * nbig + j
        yield gen_big(rng, idx, "direct", tier)
        if j % 5 == 0:
            yield gen_big(rng, idx + 1, "direct-cuts", tier)
        if j % 5 == 2:
            yield gen_big(rng, idx + 2, "loop", tier)
    # several Client.request() calls queued before the first service round
    for _ in range((320 if tier == "quick" else 4800) // nshards):
        yield gen_queue(rng, tier)


# ---- the round trip ----------------------------------------------------------------
class StubRemoter:
    """what Requestant.checkPersisted and Server.buildEnviron touch on a connection"""
    def __init__(self):
        self.tymeout = 5.0
        self.ca = ("127.0.0.1", 54321)


_state = {"server": None, "ports": None}
GRACE = 20   # extra rounds with longer yields before "the request never reached the application" is reported


def setup(ctx):
    hl.install_shims()
    _state["ports"] = hl.Ports(ctx.shard, 0, 100)
    # never opened: buildEnviron only needs .name, .scheme and .servant.eha
    _state["server"] = http.Server(host="127.0.0.1", port=hl.BASE)


def spec_kwargs(spec):
    kw = {"method": spec["method"], "path": spec["path"],
          "qargs": {k: v for k, v in spec["qargs"]},
          "headers": {k: v for k, v in spec["headers"]}}
    if "fragment" in spec:
        kw["fragment"] = spec["fragment"]
    kind = spec["kind"]
    if kind == "bytes":
        kw["body"] = spec["body"].encode("latin-1")
    elif kind == "str":
        kw["body"] = spec["body"]
    elif kind == "data":
        kw["data"] = spec["data"]
    elif kind in ("fargs", "multipart"):
        kw["fargs"] = {k: v for k, v in spec["fargs"]}
    return kw


def hostile_keys(spec):
    return any(quote_plus(str(k)) != str(k) for k, _ in spec["qargs"])


_collect = {"sink": None}   # sequences first collect the failures of a request, then decide leak vs plain failure


def fail(ctx, spec, aspect, msg):
    """One mechanism key per failing aspect; failures of specs whose query keys need quoting are keyed apart."""
    if _collect["sink"] is not None:
        _collect["sink"].append((spec, aspect, msg))
        return
    if aspect in ("build-raises", "not-parsed", "query-args-differ") and hostile_keys(spec):
        ctx.violation("query-key-not-quoted:" + aspect, msg)
    else:
        ctx.violation(aspect + ":" + spec["mode"], msg)


def run_case(spec, ctx):
    if "seq" in spec:
        return run_sequence(spec, ctx)
    spec = materialize(spec)
    if "rep" in spec:
        ctx.count("specs_with_body_over_64KiB")
    if spec["mode"] == "queue":
        return run_queue(spec, ctx)
    if spec["mode"] == "direct-cuts":
        return run_direct_cuts(spec, ctx)
    if spec["mode"] == "loop-cuts":
        return run_loop_cuts(spec, ctx)
    ctx.count("specs_" + spec["mode"])
    ctx.count("method_" + spec["method"].upper())
    ctx.count("bodykind_" + spec["kind"])
    if hostile_keys(spec):
        ctx.count("specs_with_query_keys_needing_quote")
    if spec["mode"] == "direct":
        got = roundtrip_direct(spec, ctx)
    else:
        got = roundtrip_loop(spec, ctx)
    if got is None:
        return
    ok = compare(spec, got, ctx)
    path = spec["path"]
    if quote(path) != path or spec["qargs"] or spec["headers"] or spec["kind"] != "none":
        ctx.nontrivial(compact(spec))
    if ok and (quote(path) != path) and spec["qargs"] and spec["kind"] != "none" and "rep" not in spec:
        ctx.sample({"spec": spec, "first_line": got["wire"][:200], "PATH_INFO": got["env"].get("PATH_INFO"),
                    "QUERY_STRING": got["env"].get("QUERY_STRING"), "body_len": len(got["body"])})


def roundtrip_direct(spec, ctx):
    kw = spec_kwargs(spec)
    try:
        rq = clienting.Requester(hostname="127.0.0.1", port=8080, **kw)
        msg = rq.build()
    except Exception as ex:
        fail(ctx, spec, "build-raises", f"Requester.build raised {ex!r} for qargs={spec['qargs']!r} path={spec['path']!r}")
        return None
    rs = serving.Requestant(msg=bytearray(msg), remoter=StubRemoter())
    steps = 0
    try:
        while rs.parser and steps < 64:
            rs.parse()
            steps += 1
    except Exception as ex:
        fail(ctx, spec, "not-parsed", f"server parser raised {ex!r} on client-built bytes {bytes(msg[:300])!r}")
        return None
    if not rs.ended:
        fail(ctx, spec, "not-parsed", f"server parser still waits for bytes after the complete client message {bytes(msg[:300])!r}")
        return None
    if rs.errored:
        fail(ctx, spec, "not-parsed", f"server rejected the client-built request: {rs.error!r}; start of message {bytes(msg[:200])!r}")
        return None
    left = bytes(rs.msg)
    env = _state["server"].buildEnviron(rs)
    return {"wire": bytes(msg), "env": env, "body": env["wsgi.input"].read(), "rs": rs, "left": left,
            "ctype": rq.headers.get("content-type")}


class LoopSession:
    """one http.Server + one http.Client on ONE loopback connection; exchange() sends one spec and returns what the
    WSGI application saw for it.  Single loop cases use it once, sequences keep it for 2-4 requests."""

    def __init__(self, client=True, **ckw):
        self.caps = []
        self.srv = self.client = None
        hl.new_case()
        self.srv, self.port = hl.open_hio_server(http.Server, _state["ports"], app=self.app)
        if client:
            self.client = hl.open_hio_client(self.port, **ckw)
        self.done = 0

    def app(self, environ, start_response):
        rs = next(iter(self.srv.reqs.values()), None)    # the connection's (only, reused) Requestant
        self.caps.append({"env": dict(environ), "body": environ["wsgi.input"].read(),
                          "rs_names": {k.lower() for k in rs.headers.keys()} if rs is not None else None})
        start_response("200 OK", [("Content-Type", "text/plain"), ("Content-Length", "2")])
        return [b"ok"]

    def exchange(self, spec, ctx):
        client, srv = self.client, self.srv
        k = self.done
        client.request(**spec_kwargs(spec))
        idle = 0
        for rnd in range(100 + GRACE):
            try:
                client.service()
            except Exception as ex:
                typ, func, prim = hl.escape_mechanism(ex)
                if func == "build":
                    fail(ctx, spec, "build-raises", f"Client.service -> Requester.build raised {ex!r} for qargs={spec['qargs']!r}")
                else:
                    ctx.violation(f"loop-service-raises:client:{typ}:{func}", f"client.service() raised {ex!r} during a plain exchange")
                return None
            try:
                srv.service()
            except Exception as ex:
                typ, func, prim = hl.escape_mechanism(ex)
                ctx.violation(f"loop-service-raises:server:{typ}:{func}", f"server.service() raised {ex!r} on a client-built request")
                return None
            if len(client.responses) > k:
                break
            if rnd > 6:
                idle += 1
                hl.idle_wait([client.connector.cs] if client.connector.cs else [], idle, grace=rnd >= 100)
        ctx.peak("loop_rounds_max", rnd + 1)
        if len(self.caps) <= k:
            wire = bytes(client.requester.msg[:300])
            fail(ctx, spec, "not-parsed", f"the server never handed request #{k + 1} of the connection to the application "
                 f"(rounds={rnd + 1}, client responses={len(client.responses)}); wire starts {wire!r}")
            return None
        self.done += 1
        ctx.count("loop_roundtrips")
        cap = self.caps[k]
        return {"wire": bytes(client.requester.msg), "env": cap["env"], "body": cap["body"], "rs": None, "left": b"",
                "rs_names": cap["rs_names"], "loop": True}

    def close(self):
        for obj in (self.client, self.srv):
            if obj is not None:
                try:
                    obj.close()
                except Exception:
                    pass


def roundtrip_loop(spec, ctx):
    ses = None
    try:
        ses = LoopSession()
        return ses.exchange(spec, ctx)
    finally:
        if ses is not None:
            ses.close()


class DirectSession:
    """ONE Requester rebuilt per request the way Client.transmit does it, and ONE Requestant over one growing byte
    buffer, re-armed between messages exactly like http.Server: serviceReps calls requestant.makeParser() once the
    response has ended and the request was persistent (a non-persistent one ends the connection -> new Requestant)."""

    def __init__(self):
        self.rq = clienting.Requester(hostname="127.0.0.1", port=8080)
        self.rs = serving.Requestant(msg=bytearray(), remoter=StubRemoter())

    def exchange(self, spec, ctx):
        kw = spec_kwargs(spec)
        body = kw.get("body")
        try:
            msg = self.rq.rebuild(method=kw["method"].upper(), path=kw["path"], qargs=kw["qargs"],
                                  fragment=kw.get("fragment", ""), headers=kw["headers"], body=body,
                                  data=kw.get("data"), fargs=kw.get("fargs"))
        except Exception as ex:
            fail(ctx, spec, "build-raises", f"Requester.rebuild raised {ex!r} for qargs={spec['qargs']!r} path={spec['path']!r}")
            return None
        rs = self.rs
        if rs.parser is None:          # what Server.serviceReps does before the next message of a kept connection
            if rs.persisted:
                rs.makeParser()
                ctx.count("requestant_reuses")
            else:
                rs = self.rs = serving.Requestant(msg=bytearray(), remoter=StubRemoter())
                ctx.count("requestant_replaced_after_non_persistent_request")
        rs.msg.extend(msg)
        steps = 0
        try:
            while rs.parser and steps < 64:
                rs.parse()
                steps += 1
        except Exception as ex:
            fail(ctx, spec, "not-parsed", f"server parser raised {ex!r} on client-built bytes {bytes(msg[:300])!r}")
            return None
        if not rs.ended:
            fail(ctx, spec, "not-parsed", f"reused server parser still waits for bytes after the complete client message {bytes(msg[:300])!r}")
            return None
        if rs.errored:
            fail(ctx, spec, "not-parsed", f"server rejected the client-built request: {rs.error!r}; start of message {bytes(msg[:200])!r}")
            return None
        left = bytes(rs.msg)
        env = _state["server"].buildEnviron(rs)
        return {"wire": bytes(msg), "env": env, "body": env["wsgi.input"].read(), "rs": rs, "left": left}

    def close(self):
        pass


def cut_class(msg, c):
    i = msg.find(b"\r\n")
    h = msg.find(b"\r\n\r\n") + 4
    if c == i + 1:
        return "request-line-CR|LF"
    if c <= i:
        return "request-line"
    if c > h:
        return "body"
    if c == h:
        return "head|body"
    if msg[c - 1:c] == b"\r" and msg[c:c + 1] == b"\n":
        return "header-CR|LF"
    return "headers"


def report_split(ctx, spec, fails, cls, how):
    for field in sorted({FIELD_OF.get(a, a) for _, a, _ in fails}):
        msg = next(m for _, a, m in fails if FIELD_OF.get(a, a) == field)
        ctx.violation(f"recovery-differs-when-split:{field}:{cls}",
                      f"{how}: {msg}; the same bytes delivered in one piece are recovered exactly")


def run_direct_cuts(spec, ctx):
    """Requester.build() bytes -> fresh Requestant, delivered whole and then in TWO pieces at every cut position with one
    parse() (= one service round) in between; every delivery must recover the spec."""
    ctx.count("specs_direct-cuts")
    got = roundtrip_direct(spec, ctx)
    if got is None or not compare(spec, got, ctx):
        return          # already reported with the plain keys
    msg = got["wire"]
    bad = set()
    if "rep" in spec:       # a body beyond 64 KiB: the interesting cut positions only
        i, h = msg.find(b"\r\n"), msg.find(b"\r\n\r\n") + 4
        positions = sorted(x for x in {i + 1, msg.find(b"\r\n", i + 2) + 1, h - 1, h, h + 1, h + 65535, h + 65536, h + 65537,
                                        65536, 65537, len(msg) // 2, len(msg) - 1} if 0 < x < len(msg))
    else:
        positions = range(1, len(msg))
    for c in positions:
        cls = cut_class(msg, c)
        ctx.count("two_piece_feeds")
        ctx.count("two_piece_cut_" + cls.replace("|", "_"))
        if cls in bad:
            continue
        _collect["sink"] = fails = []
        try:
            rs = serving.Requestant(msg=bytearray(msg[:c]), remoter=StubRemoter())
            g = None
            try:
                rs.parse()                      # the server services the connection with only the first piece there
                rs.msg.extend(msg[c:])
                steps = 0
                while rs.parser and steps < 64:
                    rs.parse()
                    steps += 1
            except Exception as ex:
                fail(ctx, spec, "not-parsed", f"server parser raised {ex!r}")
            else:
                if not rs.ended:
                    fail(ctx, spec, "not-parsed", "server parser still waits for bytes after the complete client message")
                elif rs.errored:
                    fail(ctx, spec, "not-parsed", f"server rejected the client-built request: {rs.error!r}")
                else:
                    env = _state["server"].buildEnviron(rs)
                    g = {"wire": msg, "env": env, "body": env["wsgi.input"].read(), "rs": rs, "left": bytes(rs.msg)}
                    compare(spec, g, ctx)
        finally:
            _collect["sink"] = None
        if fails:
            bad.add(cls)
            report_split(ctx, spec, fails, cls, f"request cut after byte {c} of {len(msg)} ({msg[max(0, c - 12):c]!r} | {msg[c:c + 12]!r})")
        else:
            ctx.count("two_piece_feeds_compared")
    ctx.nontrivial(compact(spec))


def run_loop_cuts(spec, ctx):
    """the same over loopback: raw socket -> real http.Server, request written in two writes with service rounds in between"""
    ctx.count("specs_loop-cuts")
    kw = spec_kwargs(spec)
    try:
        msg = clienting.Requester(hostname="127.0.0.1", port=8080, **kw).build()
    except Exception as ex:
        fail(ctx, spec, "build-raises", f"Requester.build raised {ex!r}")
        return
    i = msg.find(b"\r\n")
    h = msg.find(b"\r\n\r\n") + 4
    hdr = msg.find(b"\r\n", i + 2)
    cuts = {i + 1, hdr + 1, h, h - 2, h - 1, i // 2 or 1}
    if len(msg) > h + 1:
        cuts.add(h + (len(msg) - h) // 2)
    for r in spec.get("rcuts", []):
        cuts.add(1 + int(r * (len(msg) - 1)))
    for c in sorted(x for x in cuts if 0 < x < len(msg)):
        cls = cut_class(msg, c)
        ses = raw = None
        _collect["sink"] = fails = []
        try:
            ses = LoopSession(client=False)
            raw = hl.Raw.connect(ses.port)
            pieces = [msg[:c], msg[c:]]
            idle = 0
            sent = 0
            for rnd in range(100 + GRACE):
                if sent < 2 and not raw.pending and (sent == 0 or hl.rx_count(raw.name) >= c):
                    if sent == 1:
                        ses.srv.service()        # one more round with exactly the first piece received
                    raw.queue(pieces[sent])
                    sent += 1
                moved = raw.pump()
                try:
                    ses.srv.service()
                except Exception as ex:
                    typ, func, prim = hl.escape_mechanism(ex)
                    ctx.violation(f"loop-service-raises:server:{typ}:{func}", f"server.service() raised {ex!r} on a client-built request in two writes")
                    return
                moved |= raw.pump()
                if ses.caps and hl.split_response(raw.rx) is not None:
                    break
                if raw.eof:
                    break
                if not moved:
                    idle += 1
                    hl.idle_wait([raw.s], idle, grace=rnd >= 100)
            ctx.count("loop_two_write_requests")
            if not ses.caps:
                fail(ctx, spec, "not-parsed", f"the server never handed the request to the application (connection closed={raw.eof})")
            else:
                cap = ses.caps[0]
                compare(spec, {"wire": msg, "env": cap["env"], "body": cap["body"], "rs": None, "left": b"",
                               "rs_names": cap["rs_names"], "loop": True}, ctx)
                if len(ses.caps) > 1:
                    fail(ctx, spec, "body-differs", f"one request was handed to the application as {len(ses.caps)} requests")
        finally:
            _collect["sink"] = None
            if raw is not None:
                raw.close()
            if ses is not None:
                ses.close()
        if fails:
            report_split(ctx, spec, fails, cls, f"request written in two writes, cut after byte {c} of {len(msg)} "
                         f"({msg[max(0, c - 12):c]!r} | {msg[c:c + 12]!r})")
        else:
            ctx.count("loop_two_write_requests_compared")
    ctx.nontrivial(compact(spec))


def queue_expected(case):
    """what each queued request is, per Client.request's documentation: values not given are the requester's at the time
    of the call (= the client-level defaults, since everything is queued before the first transmit); a query embedded
    in the path is merged over the query args"""
    cl = case["client"]
    dq = {k: v for k, v in cl["qargs"]}
    for k, v in cl.get("pathquery", []):
        dq[unquote_plus(k)] = unquote_plus(v)
    out = []
    for r in case["reqs"]:
        q = dict(dq) if "qargs" not in r else {k: v for k, v in r["qargs"]}
        for k, v in r.get("pathquery", []):
            q[unquote_plus(k)] = unquote_plus(v)
        spec = {"mode": "queue", "method": r.get("method", cl["method"]), "path": r.get("path", cl["path"]),
                "qargs": [[k, v] for k, v in q.items()], "headers": r["headers"] if "headers" in r else cl["headers"],
                "kind": r["kind"]}
        for f in ("body", "data", "fargs"):
            if f in r:
                spec[f] = r[f]
        out.append(spec)
    return out


def with_query(path, pairs):
    return path + ("?" + "&".join(f"{k}={v}" for k, v in pairs) if pairs else "")


def run_queue(case, ctx):
    ctx.count("queue_cases")
    cl = case["client"]
    specs = queue_expected(case)
    ses = None
    try:
        ses = LoopSession(method=cl["method"], path=with_query(cl["path"], cl.get("pathquery")),
                          qargs={k: v for k, v in cl["qargs"]}, headers={k: v for k, v in cl["headers"]})
        client = ses.client
        for r in case["reqs"]:
            kw = {}
            if "method" in r:
                kw["method"] = r["method"]
            if "path" in r:
                kw["path"] = with_query(r["path"], r.get("pathquery"))
            if "qargs" in r:
                kw["qargs"] = {k: v for k, v in r["qargs"]}
            if "headers" in r:
                kw["headers"] = {k: v for k, v in r["headers"]}
            if r["kind"] == "bytes":
                kw["body"] = r["body"].encode("latin-1")
            elif r["kind"] == "data":
                kw["data"] = r["data"]
            elif r["kind"] == "fargs":
                kw["fargs"] = {k: v for k, v in r["fargs"]}
            client.request(**kw)                 # all queued before the first service round
        n = len(specs)
        for k, r in enumerate(case["reqs"]):
            if k and "qargs" not in r and any("pathquery" in p for p in case["reqs"][:k]):
                ctx.count("queued_requests_inheriting_qargs_behind_a_path_query")
        idle = 0
        for rnd in range(100 + GRACE + 20 * n):
            try:
                client.service()
                ses.srv.service()
            except Exception as ex:
                typ, func, prim = hl.escape_mechanism(ex)
                ctx.violation(f"loop-service-raises:queue:{typ}:{func}", f"service() raised {ex!r} while the queued requests were exchanged")
                return
            if len(client.responses) >= n:
                break
            if rnd > 6 * n:
                idle += 1
                hl.idle_wait([client.connector.cs] if client.connector.cs else [], idle, grace=rnd >= 100 + 20 * n)
        ctx.peak("loop_rounds_max", rnd + 1)
        for k, spec in enumerate(specs):
            ctx.count("method_" + spec["method"].upper())
            if k >= len(ses.caps):
                fail(ctx, spec, "not-parsed", f"queued request #{k + 1} of {n} never reached the application "
                     f"({len(ses.caps)} did, {len(client.responses)} responses)")
                return
            cap = ses.caps[k]
            ok = compare(spec, {"wire": b"", "env": cap["env"], "body": cap["body"], "rs": None, "left": b"",
                                "rs_names": cap["rs_names"], "loop": True}, ctx)
            if ok:
                ctx.count("queued_requests_compared")
        ctx.nontrivial(case)
        if n >= 3:
            ctx.sample({"client": cl, "requests": case["reqs"], "recovered_query_strings": [c["env"].get("QUERY_STRING") for c in ses.caps]})
    finally:
        if ses is not None:
            ses.close()


FIELD_OF = {"header-names-differ": "headers", "header-differs-environ": "headers", "header-differs-requestant": "headers",
            "query-args-differ": "query", "body-differs": "body", "content-length-differs": "body", "json-differs": "body",
            "form-differs": "body", "method-differs": "method", "path-differs-PATH_INFO": "path",
            "path-differs-requestant": "path", "not-parsed": "not-parsed", "build-raises": "build"}


def header_names(spec):
    return {n.lower() for n, _ in spec["headers"]}


def run_sequence(case, ctx):
    mode = case["mode"]
    seq = case["seq"]
    ctx.count("sequences_" + mode)
    ses = None
    try:
        ses = DirectSession() if mode == "seq-direct" else LoopSession()
        prev = None
        for k, spec in enumerate(seq):
            spec = dict(spec, mode=mode)
            ctx.count("method_" + spec["method"].upper())
            ctx.count("bodykind_" + spec["kind"])
            if prev is not None:
                if header_names(prev) - header_names(spec):
                    ctx.count("header_names_dropped_between_consecutive_requests")
                if prev["kind"] != "none" and spec["kind"] == "none":
                    ctx.count("body_dropped_between_consecutive_requests")
                if prev["qargs"] and not spec["qargs"]:
                    ctx.count("qargs_dropped_between_consecutive_requests")
            _collect["sink"] = fails = []
            try:
                got = ses.exchange(spec, ctx)
                ok = compare(spec, got, ctx) if got is not None else False
            finally:
                _collect["sink"] = None
            if ok and not fails:
                ctx.count("sequence_requests_compared" if k == 0 else "sequence_requests_compared_on_reused_parser")
                if mode == "seq-loop" and k > 0:
                    ctx.count("loop_sequence_requests_compared_on_kept_connection")
                prev = spec
                continue
            if got is None and not fails:
                return          # service() raised: already reported by the session
            leak = False
            if k > 0:
                # metamorphic control: the same spec through a fresh builder + fresh parser
                fspec = dict(spec, mode="direct")
                _collect["sink"] = fresh = []
                try:
                    g2 = roundtrip_direct(fspec, ctx)
                    if g2 is not None:
                        compare(fspec, g2, ctx)
                finally:
                    _collect["sink"] = None
                leak = not fresh
            if leak:
                for field in sorted({FIELD_OF.get(a, a) for _, a, _ in fails}):
                    msg = next(m for _, a, m in fails if FIELD_OF.get(a, a) == field)
                    ctx.violation("state-leak-across-requests:" + field,
                                  f"request #{k + 1} on a reused {'parser' if mode == 'seq-direct' else 'keep-alive connection'}: {msg}; "
                                  f"the same spec alone (fresh parser) is recovered exactly. previous request: method={prev['method']!r} "
                                  f"headers={[h[0] for h in prev['headers']]!r} qargs={prev['qargs']!r} kind={prev['kind']!r}; "
                                  f"this request: method={spec['method']!r} headers={[h[0] for h in spec['headers']]!r} "
                                  f"qargs={spec['qargs']!r} kind={spec['kind']!r}")
            else:
                for fs, a, m in fails:
                    fail(ctx, fs, a, m)
            return
        ctx.nontrivial(case)
        if len(seq) >= 3 and mode == "seq-loop":
            ctx.sample({"sequence": [{"method": sp["method"], "headers": [h[0] for h in sp["headers"]], "nqargs": len(sp["qargs"]),
                                      "kind": sp["kind"]} for sp in seq], "mode": mode, "all_recovered": True})
    finally:
        if ses is not None:
            ses.close()


def expected_body(spec):
    kind = spec["kind"]
    if spec["method"].upper() == "GET" or kind == "none":
        return b""
    if kind in ("bytes", "str"):
        return spec["body"].encode("latin-1")
    return None   # data / fargs / multipart: judged through their decoders


def compare(spec, got, ctx):
    env, rs, body = got["env"], got["rs"], got["body"]
    loop = bool(got.get("loop"))
    ok = True
    # --- method
    m = spec["method"].upper()
    if env.get("REQUEST_METHOD") != m or (rs is not None and not loop and rs.method != m):
        fail(ctx, spec, "method-differs", f"sent {m!r}, REQUEST_METHOD={env.get('REQUEST_METHOD')!r}")
        ok = False
    # --- query arguments (before the path: an unquoted '#' or '?' in a key shifts both)
    want_q = {str(k): str(v) for k, v in spec["qargs"]}
    qs = env.get("QUERY_STRING", "")
    have_q = parse_qsl(qs, keep_blank_values=True)
    ctx.count("qarg_pairs_compared", len(want_q))
    if dict(have_q) != want_q or len(have_q) != len(want_q):
        fail(ctx, spec, "query-args-differ", f"qargs sent {want_q!r} recovered {have_q!r} from QUERY_STRING={qs!r}")
        return False
    if rs is not None and not loop and rs.query != qs:
        fail(ctx, spec, "query-args-differ", f"requestant.query {rs.query!r} != QUERY_STRING {qs!r}")
        ok = False
    # --- path
    path = spec["path"]
    if quote(path) != path:
        ctx.count("paths_needing_quote")
    if any(ord(c) > 127 for c in path):
        ctx.count("paths_non_ascii")
    pi = env.get("PATH_INFO")
    if pi is None or unquote(pi) != path:
        fail(ctx, spec, "path-differs-PATH_INFO", f"path {path!r} -> PATH_INFO {pi!r} -> {unquote(pi) if pi else None!r}")
        ok = False
    if rs is not None and not loop and rs.path != path:
        fail(ctx, spec, "path-differs-requestant", f"path {path!r} recovered as requestant.path {rs.path!r}")
        ok = False
    # --- header values
    kind = spec["kind"]
    for name, value in spec["headers"]:
        if name.lower() == "content-type" and kind in ("data", "fargs", "multipart"):
            continue   # documented: data / fargs set their own content type
        want = str(value)
        ctx.count("header_values_compared")
        hv = env.get("HTTP_" + wsgi_key(name))
        if hv != want:
            fail(ctx, spec, "header-differs-environ", f"header {name!r}: sent {want!r}, HTTP_{wsgi_key(name)}={hv!r}")
            ok = False
        if rs is not None and not loop:
            rv = rs.headers.get(name)
            if rv != want:
                fail(ctx, spec, "header-differs-requestant", f"header {name!r}: sent {want!r}, requestant has {rv!r}")
                ok = False
    # --- header NAMES: nothing but the spec's fields plus what the client adds by itself may be recovered
    spec_names = {n.lower() for n, _ in spec["headers"]}
    auto = {"host", "accept-encoding"}
    if body:
        auto.add("content-length")
    if kind in ("data", "fargs", "multipart") and m != "GET":
        auto.add("content-type")
    rec = got.get("rs_names")
    if rec is None and rs is not None and not loop:
        rec = {k.lower() for k in rs.headers.keys()}
    ctx.count("header_name_sets_compared")
    if rec is not None:
        extra, missing = rec - spec_names - auto, spec_names - rec
        if extra or missing:
            fail(ctx, spec, "header-names-differ", f"requestant.headers has unexpected fields {sorted(extra)!r}, lacks {sorted(missing)!r}; "
                 f"spec fields {sorted(spec_names)!r}")
            ok = False
    want_env = {"HTTP_" + wsgi_key(n) for n in spec_names | auto}
    have_env = {k for k in env if k.startswith("HTTP_")}
    if have_env - want_env:
        fail(ctx, spec, "header-names-differ", f"environ has unexpected keys {sorted(have_env - want_env)!r}; spec fields {sorted(spec_names)!r}")
        ok = False
    # --- body bytes
    if got["left"]:
        fail(ctx, spec, "body-differs", f"{len(got['left'])} bytes of the client message were not consumed as this request's body")
        ok = False
    if rs is not None and not loop and bytes(rs.body) != body:
        fail(ctx, spec, "body-differs", "requestant.body != wsgi.input")
        ok = False
    cl = env.get("CONTENT_LENGTH")
    if cl is not None and cl != str(len(body)):
        fail(ctx, spec, "content-length-differs", f"CONTENT_LENGTH={cl!r} but wsgi.input holds {len(body)} bytes")
        ok = False
    want_b = expected_body(spec)
    ctx.count("body_bytes_compared", len(body))
    if any(h[0].lower() == "content-length" for h in spec["headers"]):
        ctx.count("explicit_content_length_specs")
    if want_b is not None:
        if body != want_b:
            fail(ctx, spec, "body-differs", f"body sent {want_b[:80]!r} ({len(want_b)} B) recovered {body[:80]!r} ({len(body)} B)")
            ok = False
    elif kind == "data":
        ctx.count("json_bodies_compared")
        try:
            back = json.loads(body.decode("utf-8"))
        except ValueError as ex:
            back = ex
        if back != spec["data"]:
            fail(ctx, spec, "json-differs", f"data sent {spec['data']!r}, body {body[:120]!r} decodes to {back!r}")
            ok = False
        ct = env.get("CONTENT_TYPE", "")
        if not ct.lower().startswith("application/json"):
            fail(ctx, spec, "json-differs", f"CONTENT_TYPE of a JSON request is {ct!r}")
            ok = False
    elif kind == "fargs":
        want_f = {str(k): str(v) for k, v in spec["fargs"]}
        delims = any(("&" in s or "=" in s) for kv in want_f.items() for s in kv)
        try:
            have_f = parse_qsl(body.decode("utf-8"), keep_blank_values=True)
        except ValueError as ex:
            have_f = [("<undecodable>", repr(ex))]
        same = dict(have_f) == want_f and len(have_f) == len(want_f)
        if delims:
            ctx.count("form_fields_with_delimiters_observed")
            if not same:
                ctx.count("form_fields_with_delimiters_not_recoverable")
        else:
            ctx.count("form_bodies_compared")
            if not same:
                fail(ctx, spec, "form-differs", f"fargs sent {want_f!r}, body {body[:120]!r} decodes to {have_f!r}")
                ok = False
            ct = env.get("CONTENT_TYPE", "")
            if not ct.lower().startswith("application/x-www-form-urlencoded"):
                fail(ctx, spec, "form-differs", f"CONTENT_TYPE of a form request is {ct!r}")
                ok = False
    elif kind == "multipart":
        ctx.count("multipart_bodies_compared")
        ct = env.get("CONTENT_TYPE", "")
        marker = "boundary="
        fields = None
        if ct.lower().startswith("multipart/form-data") and marker in ct:
            b = ("--" + ct.split(marker, 1)[1]).encode("ascii")
            parts = body.split(b"\r\n" + b)
            fields = {}
            for p in parts[1:]:
                if p.startswith(b"--"):
                    break
                head, sep, val = p.partition(b"\r\n\r\n")
                nm = head.split(b'name="', 1)[1].split(b'"', 1)[0] if b'name="' in head else b"?"
                fields[nm.decode("utf-8")] = val.decode("utf-8")
        want_f = {str(k): str(v) for k, v in spec["fargs"]}
        if fields != want_f:
            fail(ctx, spec, "form-differs", f"multipart fargs sent {want_f!r} recovered {fields!r} (CONTENT_TYPE={ct!r})")
            ok = False
    if ok:
        if len(body) > 65536:
            ctx.count("bodies_over_64KiB_recovered")
        ctx.count("requests_compared")
        if loop:
            ctx.count("loop_requests_compared")
    return ok
