"""C28 - data-object serializations round-trip losslessly.

Monitor shape: post-condition on two real executions joined by the wire bytes
(serialize with the real `_asjson/_ascbor/_asmgpk`, deserialize with the real
`_fromjson/_fromcbor/_frommgpk`), judged for every generated object `obj` of class
`cls` and every format X:

  R1  neither direction raises
  R2  type(cls._fromX(obj._asX())) is cls
  R3  every field ANNOTATED with a data-object class that held an instance of that class
      holds an instance of that class again (not the intermediate dict), at every nesting level
  R4  cls._fromX(obj._asX()) == obj        (dataclass equality, as the statement says "equal")
  R5  _fromjson accepts the same text as str and as bytes
  R6  decode twice: after every mutable container reachable from the first decoded copy was edited (lists appended to,
      dict keys added, fields of non-frozen nested objects rebound), decoding the SAME bytes again gives an object equal
      to the ORIGINAL that shares no list / dict / non-frozen data object with the first copy (no state kept between decodes)

The family of registered data-object classes is defined in this module the way the
repository's own tests define theirs (@registerify @dataclass on RegDom / IceRegDom,
@namify @registerify @dataclass on TymeDom / IceTymeDom; real classes as annotations,
no `from __future__ import annotations` here, which would turn annotations into strings):
flat classes with Any / typed fields, list- and dict-typed fields, and classes nested one
and two levels deep through fields annotated with the nested class, in mutable and
frozen (Ice) flavours.

Field values come from the domain all three formats represent: None, bool, integers in
[-2^63, 2^64-1], finite floats, str without surrogates, lists and str-keyed dicts of those.
  H1  no history: every round trip gives what it gives in a fresh history whatever was fed to any deserializer before -
      malformed input (stray trailing byte, trailing frame start, truncated, empty, garbage, two frames) to every _fromX
      of both families between judged round trips; nothing is demanded of the malformed call itself (counted)

Observed but not judged (statement is silent): exact Python type of scalars after the
round trip (1 vs 1.0 vs True), data objects sitting in a list / dict / Any field (no
annotation to restore them from), a None in a nested-class field.
"""
import math
import random
from dataclasses import dataclass, field, fields, is_dataclass
from typing import Any

import json
import cbor2
import msgpack

from hio.help import doming
from hio.help.doming import (RegDom, IceRegDom, TymeDom, IceTymeDom, registerify, namify)

ID = "C28"
LEVEL = "exploration"
RULE = ("case = (class from a family of 33 registered data-object classes (8 of them inheriting / bequeathing nested data-object fields over 1-2 levels) (6 with odd but legal field names - leading/double/lone underscore, trailing underscore, single letter, unicode, keyword-like, 120 chars - always sent with non-default values): flat/typed/nested 1-2 levels/list+dict fields, field-less marker classes "
        "nested 1-2 levels and next to non-empty ones, frozen classes holding containers and non-frozen objects; mutable and "
        "frozen, Reg and Tyme flavours) x field values. Part 1 enumerates, for every class and every field, every value of a 60-entry "
        "boundary table (ints at 2^7..2^64 edges, float extremes, unicode planes/controls/escapes, empty and nested containers) with "
        "the other fields at defaults; part 2 draws random values (depth <= 4) for all fields. Each case is run through json, cbor and "
        "mgpk. Non-trivial = the object holds at least one nested data object or one container or one non-ASCII string; distinct = by "
        "class and value.")
ASSUMPTIONS = ["values are restricted to the common representable domain: None, bool, int in [-2^63, 2^64-1], finite float, str without "
               "surrogate code points, list, dict with str keys (no tuples, bytes, sets, NaN/inf)",
               "nested data objects are reachable through fields annotated with their class (datify's documented contract)",
               "equality is dataclass equality (the statement says 'equal'): 1 == 1.0 == True are not told apart (counted separately)"]
TECHNIQUE = "round-trip post-condition on the real serializers/deserializers over an enumerated boundary table and random nested values; class-typed nested-field check"
LEVEL_TEXT = ("Every class x field x boundary value is serialized and deserialized by the real code in all three formats and compared; random "
              "deep values are sampled. Held on what was generated; not a proof over all values.")
LEVEL_NOTE = "trusted: the json / cbor2 / msgpack libraries themselves (a value whose plain-dict form the library itself cannot round-trip is counted as outside the domain, not judged)"
NSHARDS = {"quick": 16, "thorough": 16}
TIMEOUT_S = {"quick": 200, "thorough": 1200}
REQUIRE = {"roundtrips_judged": 20000, "nested_fields_checked": 5000, "roundtrips:json": 6000, "roundtrips:cbor": 6000,
           "roundtrips:mgpk": 6000, "non_ascii_strings": 1000, "frozen_class_roundtrips": 3000,
           "fieldless_nested_checked": 3000, "second_decodes_judged": 20000, "second_decodes_after_mutation": 8000,
           "frozen_second_decodes_after_mutation": 3000, "containers_mutated_before_second_decode": 20000,
           "underscore_field_nondefault_roundtrips": 5000, "odd_named_field_nondefault_roundtrips": 3000,
           "inherited_nested_fields_checked": 3000, "malformed_inputs_fed": 600, "malformed_inputs_raised": 300,
           "history_roundtrips_after_malformed_input_refused": 1000, "history_roundtrips": 4000}
EXHAUSTIVE = {"quick": "every (class, field, boundary value) of the 33-class family x 60-value table, in json, cbor and mgpk",
              "thorough": "every (class, field, boundary value) and every (class, field pair, value pair) over an 8-value sub-table"}


# ---- the registered data-object family (as tests/help/test_doming.py defines its own) ------------------
@registerify
@dataclass
class VfFlat(RegDom):
    a: Any = None
    b: Any = None
    c: Any = None

    def __hash__(self):
        return hash((self.__class__.__name__,) + self._astuple())


@registerify
@dataclass
class VfTyped(RegDom):
    n: int = 0
    x: float = 0.0
    s: str = ""
    t: bool = False
    items: list = field(default_factory=list)
    table: dict = field(default_factory=dict)

    def __hash__(self):
        return hash(self.__class__.__name__)


@registerify
@dataclass
class VfInner(RegDom):
    v: Any = None
    w: str = "w"

    def __hash__(self):
        return hash(self.__class__.__name__)


@registerify
@dataclass
class VfMid(RegDom):
    inner: VfInner = None
    tag: Any = None
    other: VfInner = None

    def __hash__(self):
        return hash(self.__class__.__name__)


@registerify
@dataclass
class VfOuter(RegDom):
    mid: VfMid = None
    inner: VfInner = None
    items: list = field(default_factory=list)
    table: dict = field(default_factory=dict)
    note: Any = None

    def __hash__(self):
        return hash(self.__class__.__name__)


@namify
@registerify
@dataclass
class VfTyme(TymeDom):
    value: Any = None
    label: str = ""

    def __hash__(self):
        return hash(self.__class__.__name__)


@namify
@registerify
@dataclass
class VfTymeOuter(TymeDom):
    bag: VfTyme = None
    inner: VfInner = None
    extra: Any = None

    def __hash__(self):
        return hash(self.__class__.__name__)


@registerify
@dataclass(frozen=True)
class VfIceFlat(IceRegDom):
    a: Any = None
    b: Any = None


@registerify
@dataclass(frozen=True)
class VfIceMid(IceRegDom):
    ice: VfIceFlat = None
    tag: Any = None


@registerify
@dataclass(frozen=True)
class VfIceOuter(IceRegDom):
    mid: VfIceMid = None
    ice: VfIceFlat = None
    table: dict = field(default_factory=dict)
    items: list = field(default_factory=list)


@namify
@registerify
@dataclass(frozen=True)
class VfIceTyme(IceTymeDom):
    value: Any = None
    ice: VfIceFlat = None


# field-less data objects (markers / unit values): their dict form is {} - and still has to come back as an instance
@registerify
@dataclass
class VfUnit(RegDom):
    def __hash__(self):
        return hash(self.__class__.__name__)


@registerify
@dataclass(frozen=True)
class VfIceUnit(IceRegDom):
    pass


@registerify
@dataclass
class VfWithUnit(RegDom):
    unit: VfUnit = None
    inner: VfInner = None
    tag: Any = None
    unit2: VfUnit = None

    def __hash__(self):
        return hash(self.__class__.__name__)


@registerify
@dataclass
class VfUnitOuter(RegDom):
    holder: VfWithUnit = None          # field-less object two levels down
    unit: VfUnit = None
    items: list = field(default_factory=list)

    def __hash__(self):
        return hash(self.__class__.__name__)


@registerify
@dataclass(frozen=True)
class VfIceWithUnit(IceRegDom):
    unit: VfIceUnit = None
    ice: VfIceFlat = None
    tag: Any = None


@registerify
@dataclass(frozen=True)
class VfIceUnitOuter(IceRegDom):
    holder: VfIceWithUnit = None
    unit: VfIceUnit = None
    table: dict = field(default_factory=dict)


# frozen objects that hold mutable things: containers and a NON-frozen nested data object
@registerify
@dataclass(frozen=True)
class VfIceHolder(IceRegDom):
    item: VfInner = None
    tags: list = field(default_factory=list)
    attrs: dict = field(default_factory=dict)
    unit: VfUnit = None


@namify
@registerify
@dataclass(frozen=True)
class VfIceTymeHolder(IceTymeDom):
    item: VfWithUnit = None
    tags: list = field(default_factory=list)


# odd but legal field names: leading underscores (also the name-mangled `__x`, a lone `_`, and `_tyme` where the flavour has
# no bookkeeping attribute of that name), trailing underscore, single letter, unicode identifier, keyword-like, very long.
# Names that collide with the library's own attributes (_registry, _names, _asdict ..., and _tyme/_tymth/_now on the Tyme
# flavours) are kept out.  Defaults are values no generator produces, so a dropped field can never hide behind its default.
ODD_DEFAULT = -7777
LONGNAME = "very_long_field_name_" + "x" * 100


@registerify
@dataclass
class VfOdd(RegDom):
    _rev: Any = ODD_DEFAULT
    __x: Any = ODD_DEFAULT
    x_: Any = ODD_DEFAULT
    _tyme: Any = ODD_DEFAULT
    _: Any = ODD_DEFAULT
    q: Any = ODD_DEFAULT
    ñame: Any = ODD_DEFAULT
    class_: Any = ODD_DEFAULT
    _flags: dict = field(default_factory=dict)
    very_long_field_name_xxxxxxxxxxxxxxxxxxxxxxxxxxxxxxxxxxxxxxxxxxxxxxxxxxxxxxxxxxxxxxxxxxxxxxxxxxxxxxxxxxxxxxxxxxxxxxxxxxxxxxxxxxxxxxxxxxxxxxxx: Any = ODD_DEFAULT

    def __hash__(self):
        return hash(self.__class__.__name__)


@registerify
@dataclass(frozen=True)
class VfIceOdd(IceRegDom):
    _seq: Any = ODD_DEFAULT
    __y: Any = ODD_DEFAULT
    y_: Any = ODD_DEFAULT
    _tymth: Any = ODD_DEFAULT
    é: Any = ODD_DEFAULT
    _tags: list = field(default_factory=list)


@registerify
@dataclass
class VfOddOuter(RegDom):
    _inner: VfOdd = None
    odd: VfOdd = None
    _ice: VfIceOdd = None
    _note: Any = ODD_DEFAULT
    plain: Any = None

    def __hash__(self):
        return hash(self.__class__.__name__)


@registerify
@dataclass(frozen=True)
class VfIceOddOuter(IceRegDom):
    _ice: VfIceOdd = None
    ice: VfIceOdd = None
    _outer: VfOddOuter = None
    tag: Any = None


@namify
@registerify
@dataclass
class VfTymeOdd(TymeDom):
    _rev: Any = ODD_DEFAULT
    value: Any = None
    _odd: VfOdd = None

    def __hash__(self):
        return hash(self.__class__.__name__)


@namify
@registerify
@dataclass(frozen=True)
class VfIceTymeOdd(IceTymeDom):
    _rev: Any = ODD_DEFAULT
    _ice: VfIceOdd = None


# nested data-object fields that are INHERITED from a base class (one and two levels), both families
@registerify
@dataclass
class VfShape(RegDom):
    origin: VfInner = None
    tag: Any = None

    def __hash__(self):
        return hash(self.__class__.__name__)


@registerify
@dataclass
class VfCircle(VfShape):
    radius: Any = None

    def __hash__(self):
        return hash(self.__class__.__name__)


@registerify
@dataclass
class VfRing(VfCircle):
    mid: VfMid = None                   # a nested field of its own next to the inherited one
    inner_r: Any = None

    def __hash__(self):
        return hash(self.__class__.__name__)


@registerify
@dataclass(frozen=True)
class VfIceShape(IceRegDom):
    ice: VfIceFlat = None
    unit: VfIceUnit = None


@registerify
@dataclass(frozen=True)
class VfIceCircle(VfIceShape):
    radius: Any = None


@registerify
@dataclass(frozen=True)
class VfIceRing(VfIceCircle):
    holder: VfIceWithUnit = None
    inner_r: Any = None


@namify
@registerify
@dataclass
class VfTymeShape(TymeDom):
    bag: VfTyme = None
    label: Any = None

    def __hash__(self):
        return hash(self.__class__.__name__)


@namify
@registerify
@dataclass
class VfTymeCircle(VfTymeShape):
    radius: Any = None

    def __hash__(self):
        return hash(self.__class__.__name__)


INHERITING = [VfCircle, VfRing, VfIceCircle, VfIceRing, VfTymeCircle]
HEIRFAMILY = [VfShape, VfCircle, VfRing, VfIceShape, VfIceCircle, VfIceRing, VfTymeShape, VfTymeCircle]
ODDFAMILY = [VfOdd, VfIceOdd, VfOddOuter, VfIceOddOuter, VfTymeOdd, VfIceTymeOdd]
FAMILY = [VfFlat, VfTyped, VfInner, VfMid, VfOuter, VfTyme, VfTymeOuter, VfIceFlat, VfIceMid, VfIceOuter, VfIceTyme,
          VfUnit, VfIceUnit, VfWithUnit, VfUnitOuter, VfIceWithUnit, VfIceUnitOuter, VfIceHolder, VfIceTymeHolder] + ODDFAMILY + HEIRFAMILY
BYNAME = {c.__name__: c for c in FAMILY}
FROZEN = {VfIceFlat, VfIceMid, VfIceOuter, VfIceTyme, VfIceUnit, VfIceWithUnit, VfIceUnitOuter, VfIceHolder, VfIceTymeHolder,
          VfIceOdd, VfIceOddOuter, VfIceTymeOdd, VfIceShape, VfIceCircle, VfIceRing}
FIELDLESS = {VfUnit, VfIceUnit}


def dom_fields(cls):
    """{field name: nested data-object class} for fields annotated with a class of the family"""
    return {f.name: f.type for f in fields(cls) if isinstance(f.type, type) and f.type in FAMILY}


# ---- values ---------------------------------------------------------------------------------------
I64 = [0, 1, -1, 23, 24, 127, 128, 255, 256, -32, -33, -128, -129, 32767, 65535, 65536, 2**31 - 1, 2**31, -2**31, -2**31 - 1,
       2**32, 2**53, 2**53 + 1, -(2**53) - 1, 2**63 - 1, -2**63, 2**63, 2**64 - 1]
FLT = [0.0, -0.0, 1.0, -1.0, 0.1, 1.5, 1e-7, 123456789.123456789, 1e22, 1.7976931348623157e308, 5e-324, 2.2250738585072014e-308,
       -1.7976931348623157e308, 3.4028234663852886e38, 65504.0, 1.0000001]
STR = ["", "a", "0", "null", "é", "ß€", "日本語", "\U0001F600", "\x00", "\x1f\x7f", "  ", "\"\\/\b\f\n\r\t", "a" * 33,
       "\u00ff" * 300, "\ud7ff\ufffd\uffff", "\U0010ffff"]
CON = [[], {}, [None], [[]], [{}], {"": None}, {"a": [1, {"b": [2.5, "é"]}]}, [1, "a", None, True, 2.5], {"k": {"k": {"k": {}}}},
       {"x": 1, "y": [1, 2, 3], "é": "ü"}, [0] * 40]
TABLE = [None, True, False] + I64 + FLT + STR + CON
RULE = RULE.replace("60-entry", f"{len(TABLE)}-entry")
EXHAUSTIVE = {k: v.replace("60-value", f"{len(TABLE)}-value") for k, v in EXHAUSTIVE.items()}
SUB = [None, True, 0, -1, 2**63, 1.5, -0.0, "", "é", "\U0001F600", [], {"a": [1]}, [None, {"": 0.1}], "x"]


PAIR_IDX = [0, 2, 4, 5, 8, 9, 11, 12]       # the 8 entries of SUB used for the field-pair enumeration of the thorough tier


def rand_scalar(rng):
    k = rng.random()
    if k < 0.08:
        return None
    if k < 0.16:
        return rng.random() < 0.5
    if k < 0.40:
        return rng.choice([rng.randint(-2**63, 2**64 - 1), rng.randint(-300, 300), rng.choice(I64)])
    if k < 0.62:
        x = rng.choice([rng.uniform(-1e6, 1e6), rng.choice(FLT), math.ldexp(rng.random() - 0.5, rng.randint(-1000, 1000))])
        return x
    n = rng.choice([0, 1, 2, 5, 20])
    alphabet = rng.choice(["abc xyz", "éßü€", "Ж中א", "\U0001F600\U00010000", "\"\\\n\t\x00\x7f", "aé\U0001F600\\"])
    return "".join(rng.choice(alphabet) for _ in range(n))


def rand_value(rng, depth):
    if depth <= 0 or rng.random() < 0.55:
        return rand_scalar(rng)
    if rng.random() < 0.5:
        return [rand_value(rng, depth - 1) for _ in range(rng.randint(0, 4))]
    return {rand_key(rng): rand_value(rng, depth - 1) for _ in range(rng.randint(0, 4))}


def rand_key(rng):
    return rng.choice(["", "a", "b", "key", "é", "\U0001F600", "a b", "0", "v", "inner", "w"]) + rng.choice(["", "", "1", "_"])


def default_spec(cls):
    return {}


def rand_spec(rng, cls, depth):
    """JSON-able spec of an instance: {field: value}; nested class fields hold a spec dict under {'@': classname, 'f': {...}} or None"""
    spec = {}
    nested = dom_fields(cls)
    for f in fields(cls):
        if f.name in nested:
            if rng.random() < 0.85:
                spec[f.name] = {"@": nested[f.name].__name__, "f": rand_spec(rng, nested[f.name], depth)}
            else:
                spec[f.name] = None
        elif f.type is list:
            spec[f.name] = [rand_value(rng, depth - 1) for _ in range(rng.randint(0, 4))]
        elif f.type is dict:
            spec[f.name] = {rand_key(rng): rand_value(rng, depth - 1) for _ in range(rng.randint(0, 4))}
        elif is_odd_name(f.name):
            v = rand_value(rng, depth)
            spec[f.name] = v if v not in (None, ODD_DEFAULT) else rng.choice(ODD_SCHED[:7])
        elif rng.random() < 0.9:
            spec[f.name] = rand_value(rng, depth)
    return spec


def build(cls, spec):
    """instance of cls from a spec; fields missing in the spec keep their defaults, nested class fields are instantiated"""
    nested = dom_fields(cls)
    kw = {}
    for name, val in spec.items():
        if name in nested and isinstance(val, dict) and "@" in val:
            kw[name] = build(BYNAME[val["@"]], val["f"])
        else:
            kw[name] = val
    return cls(**kw)


def nested_defaults(cls):
    """spec that fills every nested class field (recursively) with a default instance"""
    return {name: {"@": c.__name__, "f": nested_defaults(c)} for name, c in dom_fields(cls).items()}


def cases(tier, seed, shard, nshards):
    n = -1
    # part 1: every class x field x table value (nested class fields filled so that the value sits at depth 0, 1 and 2)
    for cls in FAMILY:
        for path in field_paths(cls):
            for k in range(len(TABLE)):
                n += 1
                if n % nshards == shard:
                    yield {"kind": "table", "cls": cls.__name__, "path": path, "k": k}
    if tier == "thorough":
        for cls in FAMILY:
            paths = field_paths(cls)
            for i, p1 in enumerate(paths):
                for p2 in paths[i + 1:]:
                    for k1 in PAIR_IDX:
                        for k2 in PAIR_IDX:
                            n += 1
                            if n % nshards == shard:
                                yield {"kind": "pair", "cls": cls.__name__, "p1": p1, "k1": k1, "p2": p2, "k2": k2}
    # history cases: malformed input to a deserializer between judged round trips
    for ci in range(len(HIST_CLASSES)):
        for fi in range(len(HFORMATS)):
            for mi in range(len(MALFORMED)):
                n += 1
                if n % nshards == shard:
                    yield {"kind": "hist", "ops": [["bad", ci, fi, mi, n % 7], ["probe", (ci + 3) % len(HIST_CLASSES), n % 11],
                                                   ["probe", ci, (n + 1) % 11]]}
    hrng = random.Random(f"{seed}:C28:hist:{shard}")
    for _ in range((480 if tier == "quick" else 12000) // nshards):
        ops = []
        for _ in range(hrng.randint(2, 16)):
            if hrng.random() < 0.45:
                ops.append(["bad", hrng.randrange(len(HIST_CLASSES)), hrng.randrange(len(HFORMATS)),
                            hrng.randrange(len(MALFORMED)), hrng.randrange(50)])
            else:
                ops.append(["probe", hrng.randrange(len(HIST_CLASSES)), hrng.randrange(50)])
        ops.append(["probe", hrng.randrange(len(HIST_CLASSES)), hrng.randrange(50)])
        yield {"kind": "hist", "ops": ops}

    rng = random.Random(f"{seed}:C28:{shard}")
    nrand = (12000 if tier == "quick" else 120000) // nshards
    for _ in range(nrand):
        cls = rng.choice(FAMILY)
        yield {"kind": "rand", "cls": cls.__name__, "spec": rand_spec(rng, cls, rng.randint(1, 4))}
    # observation-only cases: data objects where no annotation can restore them
    for j in range(3 if tier == "quick" else 20):
        if (j % nshards) == shard:
            yield {"kind": "unannotated", "j": j}


def field_paths(cls, prefix=(), depth=0):
    """paths of non-class fields reachable through nested class fields: [['mid','inner','v'], ...]"""
    out = []
    nested = dom_fields(cls)
    for f in fields(cls):
        if f.name in nested:
            if depth < 3:
                out += field_paths(nested[f.name], prefix + (f.name,), depth + 1)
        else:
            out.append(list(prefix + (f.name,)))
    return out


def typed_ok(cls, path, val):
    """keep list-/dict-typed fields holding lists/dicts (the other typed fields take any value: hints are not enforced by hio)"""
    c = cls
    for name in path[:-1]:
        c = dom_fields(c)[name]
    t = {f.name: f.type for f in fields(c)}[path[-1]]
    if t is list:
        return isinstance(val, list)
    if t is dict:
        return isinstance(val, dict)
    return True


ODD_SCHED = [1, "x", 2.5, True, [1, "_a"], {"_k": 1}, "é", 0, None, -1, "", False]


def is_odd_name(name):
    return name.startswith("_") or name.endswith("_") or len(name) == 1 or len(name) > 60 or not name.isascii()


def fill_odd(cls, spec, k, skip, trail=()):
    """fixed schedule: every odd-named plain field that the case does not edit itself gets a NON-default value"""
    nested = dom_fields(cls)
    for i, f in enumerate(fields(cls)):
        here = list(trail + (f.name,))
        if f.name in nested:
            sub = spec.get(f.name)
            if isinstance(sub, dict) and "@" in sub:
                fill_odd(nested[f.name], sub["f"], k + i + 1, skip, trail + (f.name,))
        elif is_odd_name(f.name) and here not in skip:
            if f.type is dict:
                spec[f.name] = {"_hidden": k, "n": [1, 2.5, None]}
            elif f.type is list:
                spec[f.name] = ["_", k]
            else:
                spec[f.name] = ODD_SCHED[(k + i) % len(ODD_SCHED)]


def odd_nondefault(obj, acc=None):
    """[underscore-named, other odd-named] counts of fields holding a non-default value, at any nesting depth"""
    acc = [0, 0] if acc is None else acc
    for f in fields(obj):
        v = getattr(obj, f.name)
        if is_dataclass(v) and not isinstance(v, type):
            odd_nondefault(v, acc)
        if is_odd_name(f.name) and not (v is None or v == ODD_DEFAULT or v == [] or v == {}):
            acc[0 if f.name.startswith("_") else 1] += 1
    return acc


def put(spec, path, val):
    cur = spec
    for name in path[:-1]:
        cur = cur[name]["f"]
    cur[path[-1]] = val


# ---- oracle ---------------------------------------------------------------------------------------------
FORMATS = [("json", "_asjson", "_fromjson"), ("cbor", "_ascbor", "_fromcbor"), ("mgpk", "_asmgpk", "_frommgpk")]


def is_frozen(o):
    return type(o).__dataclass_params__.frozen


def mutables(o, acc=None, seen=None):
    """every mutable container reachable from o: lists, dicts, non-frozen data objects (frozen ones are walked through)"""
    acc = [] if acc is None else acc
    seen = set() if seen is None else seen
    if id(o) in seen:
        return acc
    if isinstance(o, list):
        seen.add(id(o)); acc.append(o)
        for x in o:
            mutables(x, acc, seen)
    elif isinstance(o, dict):
        seen.add(id(o)); acc.append(o)
        for x in o.values():
            mutables(x, acc, seen)
    elif is_dataclass(o) and not isinstance(o, type):
        seen.add(id(o))
        if not is_frozen(o):
            acc.append(o)
        for f in fields(o):
            mutables(getattr(o, f.name, None), acc, seen)
    return acc


def deep_mutate(o):
    """what a consumer may do to ITS decoded copy: append to every list, add a key to every dict, rebind every field of
    every non-frozen data object reachable from it.  Returns the number of containers changed."""
    found = mutables(o)
    for m in found:
        if isinstance(m, list):
            m.append("vf-mutated")
        elif isinstance(m, dict):
            m["vf-mutated"] = True
    for m in found:                      # rebinding last: the walk above used the original links
        if is_dataclass(m):
            for f in fields(m):
                try:
                    setattr(m, f.name, "vf-rebound")
                except Exception:
                    pass
    return len(found)


def decode_twice(cls, obj, raw, first, fromx, fmt, ctx):
    """R6: the decoded copy belongs to the caller. After the first copy was edited in every mutable place, decoding the
    SAME bytes again still gives an object equal to the original, sharing no mutable container with the first copy."""
    before = {id(m) for m in mutables(first)}
    keep = mutables(first)               # keep them alive so ids cannot be recycled
    n = deep_mutate(first)
    try:
        second = getattr(cls, fromx)(raw)
    except Exception as ex:
        ctx.violation(f"second-decode-raises:{fmt}:{type(ex).__name__}", f"{cls.__name__}.{fromx} raised {ex!r} on the second decode of {raw[:200]!r}")
        return
    ctx.count("second_decodes_judged")
    ctx.count("second_decodes:" + fmt)
    ctx.count("containers_mutated_before_second_decode", n)
    if n:
        ctx.count("second_decodes_after_mutation")
        if cls in FROZEN:
            ctx.count("frozen_second_decodes_after_mutation")
    shared = [m for m in mutables(second) if id(m) in before]
    if second is first and not shared:
        ctx.count("second_decode_same_immutable_instance")     # nothing mutable inside: sharing cannot be observed, not judged
    if shared:
        ctx.violation(f"decodes-share-mutable-state:{fmt}",
                      f"{cls.__name__}.{fromx}: second decode of the same bytes shares {len(shared)} mutable container(s) "
                      f"{'(it is the very same instance) ' if second is first else ''}with the first decoded copy, which the "
                      f"caller had edited; wire {raw[:200]!r}")
        return
    if type(second) is not cls or not (second == obj):
        ctx.violation(f"second-decode-not-equal:{fmt}",
                      f"{cls.__name__}: after the first decoded copy was edited, decoding the same bytes gives {second!r:.300}, "
                      f"original {obj!r:.300}")
    del keep


LIBRT = {"json": lambda d: json.loads(json.dumps(d)),
         "cbor": lambda d: cbor2.loads(cbor2.dumps(d)),
         "mgpk": lambda d: msgpack.loads(msgpack.dumps(d))}


def strict_equal(a, b):
    """equality that also tells 1 / 1.0 / True and 0.0 / -0.0 apart (observation only)"""
    if type(a) is not type(b):
        return False
    if is_dataclass(a):
        return all(strict_equal(getattr(a, f.name), getattr(b, f.name)) for f in fields(a))
    if isinstance(a, list):
        return len(a) == len(b) and all(strict_equal(x, y) for x, y in zip(a, b))
    if isinstance(a, dict):
        return a.keys() == b.keys() and all(strict_equal(a[k], b[k]) for k in a)
    if isinstance(a, float):
        return a == b and math.copysign(1, a) == math.copysign(1, b)
    return a == b


def check_nested(cls, obj, back, ctx, fmt, trail=()):
    """R3; returns False when a nested field was not restored"""
    ok = True
    for name, ncls in dom_fields(cls).items():
        orig = getattr(obj, name)
        got = getattr(back, name, None)
        if isinstance(orig, ncls):
            ctx.count("nested_fields_checked")
            if ncls in FIELDLESS:
                ctx.count("fieldless_nested_checked")
            if name not in cls.__dict__.get("__annotations__", {}):
                ctx.count("inherited_nested_fields_checked")
            if not isinstance(got, ncls):
                ctx.violation(f"nested-field-not-restored:{fmt}",
                              f"{cls.__name__}.{'.'.join(trail + (name,))} annotated {ncls.__name__} came back as "
                              f"{type(got).__name__}: {got!r:.200}")
                ok = False
            else:
                ok = check_nested(ncls, orig, got, ctx, fmt, trail + (name,)) and ok
        elif orig is None:
            ctx.count("nested_field_none")
    return ok


def has_non_ascii(v):
    if isinstance(v, str):
        return any(ord(c) > 127 for c in v)
    if isinstance(v, list):
        return any(has_non_ascii(x) for x in v)
    if isinstance(v, dict):
        return any(has_non_ascii(k) or has_non_ascii(x) for k, x in v.items())
    return False


def judge(cls, obj, ctx):
    plain = obj._asdict()
    interesting = False
    if has_non_ascii(plain):
        ctx.count("non_ascii_strings")
        interesting = True
    if any(isinstance(getattr(obj, f.name), (list, dict)) and getattr(obj, f.name) for f in fields(cls)) or \
            any(isinstance(getattr(obj, n), c) for n, c in dom_fields(cls).items()):
        interesting = True
    under, odd = odd_nondefault(obj)
    for fmt, asx, fromx in FORMATS:
        # "representable" is decided by the library itself: a plain dict the codec cannot round-trip is outside the domain
        try:
            if LIBRT[fmt](plain) != plain:
                raise ValueError("library round trip differs")
            ctx.count("library_roundtrip_ok")
        except Exception as ex:
            ctx.count(f"outside_domain_library_roundtrip_fails:{fmt}:{type(ex).__name__}")
            continue
        try:
            raw = getattr(obj, asx)()
        except Exception as ex:
            ctx.violation(f"serialize-raises:{fmt}:{type(ex).__name__}", f"{cls.__name__}.{asx}() raised {ex!r} for {obj!r:.300}")
            continue
        if not isinstance(raw, bytes):
            ctx.violation(f"serialized-not-bytes:{fmt}", f"{cls.__name__}.{asx}() returned {type(raw).__name__}")
            continue
        try:
            back = getattr(cls, fromx)(raw)
        except Exception as ex:
            ctx.violation(f"deserialize-raises:{fmt}:{type(ex).__name__}",
                          f"{cls.__name__}.{fromx}({raw[:200]!r}) raised {ex!r} for {obj!r:.300}")
            continue
        ctx.count("roundtrips_judged")
        ctx.count("roundtrips:" + fmt)
        if under:
            ctx.count("underscore_field_nondefault_roundtrips")
            ctx.count("underscore_fields_nondefault_sent", under)
        if odd:
            ctx.count("odd_named_field_nondefault_roundtrips")
        if cls in FROZEN:
            ctx.count("frozen_class_roundtrips")
        if type(back) is not cls:
            ctx.violation(f"wrong-class:{fmt}", f"{cls.__name__}.{fromx} returned a {type(back).__name__}")
            continue
        if not check_nested(cls, obj, back, ctx, fmt):
            continue
        if not (back == obj):
            ctx.violation(f"not-equal:{fmt}", f"{cls.__name__}: sent {obj!r:.400} got {back!r:.400} wire {raw[:200]!r}")
            continue
        ctx.count("strict_types_preserved:" + fmt if strict_equal(obj, back) else "scalar_type_or_sign_changed:" + fmt)
        decode_twice(cls, obj, raw, back, fromx, fmt, ctx)
        if fmt == "json":
            try:
                back2 = cls._fromjson(raw.decode("utf-8"))
                ctx.count("json_str_input_checked")
                if type(back2) is not cls or not (back2 == obj):
                    ctx.violation("not-equal:json-str-input", f"{cls.__name__}._fromjson(str) gave {back2!r:.300} for {obj!r:.300}")
                else:
                    decode_twice(cls, obj, raw.decode("utf-8"), back2, "_fromjson", "json-str-input", ctx)
            except Exception as ex:
                ctx.violation(f"deserialize-raises:json-str-input:{type(ex).__name__}", f"{cls.__name__}._fromjson(str) raised {ex!r}")
    return interesting


# ---- call histories: malformed input must leave no trace ----------------------------------------------------------
HIST_CLASSES = ["VfFlat", "VfOuter", "VfIceOuter", "VfTyme", "VfIceTyme", "VfWithUnit", "VfIceHolder", "VfOdd", "VfRing", "VfIceRing"]
HFORMATS = [("json", "_asjson", "_fromjson"), ("cbor", "_ascbor", "_fromcbor"), ("mgpk", "_asmgpk", "_frommgpk"),
            ("json-str", "_asjson", "_fromjson")]
MALFORMED = ["trailing-byte", "trailing-frame-start", "truncated-1", "truncated-half", "empty", "garbage", "two-frames"]


def obj_from(clsname, k):
    """a deterministic instance: nested defaults with one field path set from the small value table"""
    cls = BYNAME[clsname]
    spec = nested_defaults(cls)
    paths = field_paths(cls)
    if paths:
        path, val = paths[k % len(paths)], SUB[(k * 7 + 3) % len(SUB)]
        if typed_ok(cls, path, val):
            put(spec, path, val)
        if cls in ODDFAMILY:
            fill_odd(cls, spec, k, [path])
    return cls, build(cls, spec)


def malform(raw, how):
    if how == "trailing-byte":
        return raw + b"\x00"
    if how == "trailing-frame-start":
        return raw + raw[:1]
    if how == "truncated-1":
        return raw[:-1]
    if how == "truncated-half":
        return raw[:max(1, len(raw) // 2)]
    if how == "empty":
        return b""
    if how == "garbage":
        return b"\xc1\xff\x00garbage{"
    return raw + raw


def rt_outcomes(cls, obj):
    """per format: what the round trip of obj gives - 'equal' | 'not-equal' | 'raise:<Type>'"""
    out = []
    for fmt, asx, fromx in HFORMATS:
        try:
            raw = getattr(obj, asx)()
            back = getattr(cls, fromx)(raw.decode("utf-8") if fmt == "json-str" else raw)
            out.append("equal" if type(back) is cls and back == obj else "not-equal")
        except Exception as ex:
            out.append("raise:" + type(ex).__name__)
    return out


def run_history(case, ctx):
    """H1: every round trip gives what it gives in a fresh history, whatever was fed to any deserializer before it - in
    particular malformed input that was refused (or accepted) and forgotten by the caller."""
    probes = sorted({(op[1], op[2]) for op in case["ops"] if op[0] == "probe"})
    fresh = {}
    for ci, k in probes:
        cls, obj = obj_from(HIST_CLASSES[ci], k)
        judge(cls, obj, ctx)                        # the full post-conditions, once, in the reference position
        fresh[(ci, k)] = rt_outcomes(cls, obj)
    prev, prevdesc, shape = "start", "the reference round trips", []
    for op in case["ops"]:
        if op[0] == "bad":
            _, ci, fi, mi, k = op
            cls, obj = obj_from(HIST_CLASSES[ci], k)
            fmt, asx, fromx = HFORMATS[fi]
            bad = malform(getattr(obj, asx)(), MALFORMED[mi])
            arg = bad.decode("utf-8", "replace") if fmt == "json-str" else bad
            try:
                getattr(cls, fromx)(arg)
                res = "accepted"
            except Exception as ex:
                res = "raised " + type(ex).__name__
            ctx.count("malformed_inputs_fed")
            ctx.count("malformed_inputs_raised" if res != "accepted" else "malformed_inputs_accepted")
            ctx.seen("malformed_outcomes", [fmt, MALFORMED[mi], res])
            prev = "malformed-input-refused" if res != "accepted" else "malformed-input-accepted"
            prevdesc = f"{cls.__name__}.{fromx}({MALFORMED[mi]} {arg[:40]!r}) which {res}"
            shape.append("B" + res[:2])
            continue
        _, ci, k = op
        cls, obj = obj_from(HIST_CLASSES[ci], k)
        got = rt_outcomes(cls, obj)
        ctx.count("history_roundtrips", len(got))
        ctx.count("history_roundtrips_after_" + prev.replace("-", "_"), len(got))
        for (fmt, asx, fromx), g, w in zip(HFORMATS, got, fresh[(ci, k)]):
            if g != w:
                ctx.violation(f"result-depends-on-call-history:{fmt}:after-{prev}",
                              f"{cls.__name__} round trip through {fmt}: fresh history -> {w}; right after {prevdesc} -> {g} "
                              f"(object {obj!r:.200})")
        shape.append("J")
        prev, prevdesc = "judged-round-trip", f"the round trips of {cls.__name__}"
    return shape


def run_case(case, ctx):
    kind = case["kind"]
    if kind == "unannotated":
        return observe_unannotated(case, ctx)
    if kind == "hist":
        shape = run_history(case, ctx)
        ctx.seen("history_shapes", shape)
        ctx.nontrivial(["hist", case["ops"]])
        if len(case["ops"]) > 4:
            ctx.sample({"case": case, "shape": shape})
        return
    cls = BYNAME[case["cls"]]
    if kind == "rand":
        spec = case["spec"]
    else:
        spec = nested_defaults(cls)
        if kind == "table":
            edits = [(case["path"], TABLE[case["k"]])]
        else:
            edits = [(case["p1"], SUB[case["k1"]]), (case["p2"], SUB[case["k2"]])]
        for path, val in edits:
            if not typed_ok(cls, path, val):
                ctx.count("table_entries_skipped_container_typed_field")
                return
            put(spec, path, val)
        if cls in ODDFAMILY:
            fill_odd(cls, spec, sum(case.get(x, 0) for x in ("k", "k1", "k2")), [p for p, _ in edits])
    obj = build(cls, spec)
    interesting = judge(cls, obj, ctx)
    ctx.seen("classes", cls.__name__)
    if interesting:
        ctx.nontrivial([case["cls"], spec])
    if kind == "rand" and dom_fields(cls):
        ctx.sample({"case": case, "asjson": obj._asjson()[:300]})


def observe_unannotated(case, ctx):
    """data objects inside list / dict / Any fields: dictify flattens them, nothing tells datify their class. Counted only."""
    inner = VfInner(v=case["j"], w="é")
    holders = [VfFlat(a=inner), VfOuter(items=[inner]), VfOuter(table={"k": inner}), VfTyme(value=inner)]
    for obj in holders:
        for fmt, asx, fromx in FORMATS:
            try:
                back = getattr(type(obj), fromx)(getattr(obj, asx)())
            except Exception as ex:
                ctx.count(f"unannotated_nested:{fmt}:raises:{type(ex).__name__}")
                continue
            ctx.count(f"unannotated_nested:{fmt}:" + ("restored" if back == obj else "left_as_dict"))
