"""C16 - no bytes sent by a peer make the HTTP service loops raise.

Monitor shape: trace oracle over real loopback executions, decided on service ROUNDS.

  wsgi / bare   fresh hio `http.Server` (WSGI echo app) or `http.BareServer` on a concrete loopback port;
                a VICTIM raw connection delivers the hostile bytes (fragmented on a generated schedule,
                optionally followed by a half-close) and a SIBLING raw connection sends one well-formed
                tagged request before / together with / after them.  server.service() is called once per
                round.
  client        fresh hio `http.Client` queued with one request against a scripted raw listener that
                answers with the hostile bytes (same fragmentation / EOF choices); client.service() once
                per round.

Oracle (no more than the statement):
  O1  service() never raises.  An escaping exception is a violation keyed by mechanism
      escape:<role>:<exception type>:<innermost hio function>:<primitive> (primitive = the stdlib callee that
      raised, e.g. urlsplit / port, or the kind of statement on the raising hio line: int, split, decode, raise ...).
  O2  the sibling receives exactly the response the application script defines for its tagged request.
  O3  a victim whose input is complete and certainly no HTTP request (unknown method, no/garbled version)
      is closed or answered with a status >= 400 - never left open, never answered 2xx.
  O4  client: a complete, certainly malformed response (bad status line) is queued with errored=True;
      unmodified corpus messages are answered 200 (servers) / queued without error (client) - the controls
      that show the harness itself is sound.
Everything else (what lenient parsing accepts, how long an incomplete message may wait) is counted, not judged.
After every case all sockets are closed and the next case gets a new server, so one defect never masks another.
"""
import json
import random
import sys

from hio.core import http
from hio.core.http import httping, serving, clienting

from vf import gen_http_hostile as gh
from vf.mon import http_loop as hl

ID = "C16"
LEVEL = "exploration"
TECHNIQUE = ("mutational + dictionary fuzzing of real loopback http.Server / BareServer / http.Client, with a victim/sibling "
             "connection pair; round-counted trace oracle; escapes keyed by (exception type, innermost hio function, primitive)")
RULE = ("inputs = corpus of 12 valid requests / 12 valid responses, each either unmodified (control), given one shape from the "
        "dictionary of near-valid forms (header line without ': ', non-hex/signed/huge/non-ASCII chunk sizes, bad chunk ends and "
        "trailers, absolute-URL targets with out-of-range/non-numeric ports and bad IPv6 literals, bad request/status lines, "
        "negative/garbage/duplicate Content-Length, odd Transfer-Encoding, > 100 headers, lines around and beyond 64 KiB, "
        "redirects with missing/garbled Location, malformed SSE and JSON bodies, 1xx prefixes, non-ASCII bytes, bare CR/LF), "
        "byte-mutated (flip/set/delete/duplicate/insert/token/eol/line swap), spliced, random bytes, or truncated; x 0..5 cut "
        "points (or byte-by-byte) on a round schedule x optional EOF x sibling before/with/after and accepted first/second. "
        "Every 20th input is constructed as a control and every 20th as a complete, certainly invalid message (for O3/O4). "
        "Every 20th input is a complete response whose status line has no reason phrase (with / without the trailing blank), an "
        "unlisted reason or a lower-case version, over codes {299,308,418,422,451,599,200,404,500,226,207,102} (quick) / every "
        "code 100..599 (thorough). "
        "Every 20th input is a followed redirect (300/301/302/303/307) whose Location has an out-of-range / huge / zero / signed / "
        "non-ASCII-digit port or an odd authority (userinfo, empty host, IPv6, trailing dot), serviced for >= 8 passes afterwards. "
        "Every 20th input is an event stream with a hostile retry: value (hundreds / thousands of digits, 0, signed, non-ASCII digits, "
        "1e400, blanks) after which the scripted server cuts the connection; the client is reconnectable and its clock advances, so "
        "the value is used for the reconnect timer; >= 16 passes follow. "
        "Non-trivial = not a control and hio received the hostile bytes; distinct = by role and byte string.")
ASSUMPTIONS = [
    "plain TCP on 127.0.0.1 only (no TLS); peers never close abortively during a case (socket-level faults are C10's subject)",
    "the resolver knows no names except localhost (checks never ask DNS); connects to anything but this check's own ports are refused",
    "virtual time stands still (no idle time-outs fire); the WSGI application is a total echo function that always sets Content-Length",
    "O3/O4 are only applied to inputs the generator marks complete and certainly invalid; all other outcomes for the victim are observations",
]
LEVEL_TEXT = ("Each generated input is really sent over loopback to a fresh server/client and every service round is watched; the "
              "input space is sampled by a seeded mutational generator, not enumerated. Held means: none of the sampled inputs made "
              "service() raise, starved the sibling, or was wrongly accepted.")
LEVEL_NOTE = "trusted: the Linux loopback stack, the 40-line response splitter of the harness, the generator's reject/control marks"
NSHARDS = {"quick": 16, "thorough": 16}
TIMEOUT_S = {"quick": 280, "thorough": 1700}
PEAK_COUNTERS = ("rounds_max",)
REQUIRE = {"server_cases": 2000, "client_cases": 1000, "service_rounds": 30000, "hostile_bytes_received_by_hio": 300000,
           "sibling_exact_responses": 1200, "reject_inputs_judged": 150, "controls_ok": 100, "fragmented_inputs": 1000,
           "status_lines_without_or_with_unlisted_reason": 200, "redirects_with_odd_port_or_authority": 200, "scheduled_json_and_sse_bodies": 200, "event_streams_cut_on_reconnectable_client": 120, "reconnects_after_cut": 120, "complete_responses_required_queued": 100,
           "lines_httping": 150, "lines_serving": 150, "lines_clienting": 150}

_state = {"ports": None, "cov": False}
GRACE = 20    # extra rounds (with longer yields) a case gets before a delivery-dependent verdict (O2-O4) is reported


def cases(tier, seed, shard, nshards):
    rng = random.Random(f"{seed}:C16:{shard}")
    n = (4800 if tier == "quick" else 200000) // nshards
    sts = gh.status_schedule(tier)      # status lines without / with an unlisted reason phrase, on a fixed schedule
    nst = nloc = nbody = ntgt = nretry = 0
    for i in range(n):
        r = rng.random()
        role = "wsgi" if r < 0.40 else ("bare" if r < 0.65 else "client")
        force = {0: "control", 1: "reject"}.get(i % 20)     # the classes O3/O4 and the controls need are constructed, not hoped for
        if i % 20 == 2:
            role = "client"
            code, variant = sts[(shard * ((n + 19) // 20) + nst) % len(sts)]
            nst += 1
            inp = gh.gen_status_case(code, variant, http10=rng.random() < 0.25)
        elif i % 20 == 3:
            role = "client"
            inp = gh.gen_location_case(shard * ((n + 19) // 20) + nloc)     # redirects with odd ports / authorities
            nloc += 1
        elif i % 20 == 4:
            role = "client"
            inp = gh.gen_body_case(shard * ((n + 19) // 20) + nbody)     # malformed / deeply nested JSON and SSE bodies
            nbody += 1
        elif i % 20 == 6:
            role = "client"
            inp = gh.gen_retry_case(shard * ((n + 19) // 20) + nretry)    # SSE retry values, used on reconnect
            nretry += 1
        elif i % 20 == 5:
            k = shard * ((n + 19) // 20) + ntgt
            role = "wsgi" if (k // len(gh.TARGETS)) % 3 < 2 else "bare"
            inp = gh.gen_target_case(k)                                   # every odd request target, both servers
            ntgt += 1
        else:
            inp = gh.gen_input(rng, is_request=role != "client", allow_big=(tier == "thorough" or rng.random() < 0.6), force=force)
        total = gh.seglen(inp["segs"])
        cuts = []
        if total > 1:
            if total <= 80 and rng.random() < 0.08:
                cuts = list(range(1, total))
            else:
                k = rng.choice([0, 0, 0, 1, 1, 2, 3, 5])
                cuts = sorted({rng.randrange(1, total) for _ in range(k)})
                if k and rng.random() < 0.3:   # cut right at / inside a line terminator
                    data = gh.expand(inp["segs"]) if total < 5000 else b""
                    pos = [i for i in range(len(data)) if data[i] in (10, 13)]
                    if pos:
                        p = rng.choice(pos) + rng.choice([0, 1])
                        if 0 < p < total:
                            cuts = sorted(set(cuts + [p]))
        t = rng.randint(0, 2)
        sched = [t]
        for _ in cuts:
            t += rng.choice([0, 1, 1, 1, 2]) if len(cuts) < 12 else rng.choice([0, 1])
            sched.append(t)
        case = dict(inp)
        case.update({"role": role, "cuts": cuts, "sched": sched, "eof": rng.random() < 0.3})
        if case.get("reconnect"):
            case["eof"] = True      # the server cuts the stream; the client is reconnectable and its clock advances
        if role == "client":
            case["method"] = rng.choice(["GET", "GET", "GET", "HEAD", "POST"])
            case["dictable"] = inp.get("dictable", rng.random() < 0.3)
        if (case["control"] or "queued" in case or case.get("reconnect")) and case.get("method") == "HEAD":
            case["method"] = "GET"      # the corpus responses carry bodies: they answer GET/POST, not HEAD
        if case["control"] and (role != "client" or case["shape"][0] == "control:redirect"):
            # a half-closing client is (silently) dropped by hio servers, and a redirect cannot be followed on a
            # connection the server has closed: neither is this property's subject
            case["eof"] = False
        if role != "client":
            when = rng.choice(["before", "with", "after"])
            at = 0 if when == "before" else (sched[0] if when == "with" else sched[-1] + rng.randint(1, 3))
            case["sib"] = {"first": rng.random() < 0.5, "at": at, "tag": "%06x" % rng.randrange(1 << 24),
                           "post": rng.random() < 0.5,
                           "payload": "".join(rng.choice("abcdefghijklmnopqrstuvwxyz0123456789 &=%") for _ in range(rng.randint(0, 40)))}
        yield case


# ---- coverage of the anchored modules (shows reach; decides nothing) --------------------
def _install_coverage(ctx):
    if _state["cov"] or not hasattr(sys, "monitoring"):
        return
    mon = sys.monitoring
    files = {httping.__file__: "httping", serving.__file__: "serving", clienting.__file__: "clienting"}
    tool = None
    for tid in (3, 4, 2):
        try:
            mon.use_tool_id(tid, "vf-c16")
            tool = tid
            break
        except ValueError:
            continue
    if tool is None:
        return

    def on_line(code, line):
        short = files.get(code.co_filename)
        if short is not None:
            ctx.seen("lines_" + short, line)
        return mon.DISABLE
    mon.register_callback(tool, mon.events.LINE, on_line)
    mon.set_events(tool, mon.events.LINE)
    _state["cov"] = True


def setup(ctx):
    hl.install_shims()
    _state["ports"] = hl.Ports(ctx.shard, 100, 600)
    _install_coverage(ctx)


# ---- scripted application -----------------------------------------------------------------
def echo_app(environ, start_response):
    body = environ["wsgi.input"].read()
    line = "ECHO {} {}?{}\n".format(environ.get("REQUEST_METHOD"), environ.get("PATH_INFO"), environ.get("QUERY_STRING"))
    out = line.encode("latin-1", "replace") + body
    start_response("200 OK", [("Content-Type", "application/octet-stream"), ("Content-Length", str(len(out)))])
    return [out]


def sibling_request(sib):
    tag, payload = sib["tag"], sib["payload"].encode("ascii")
    if sib["post"]:
        return (b"POST /sib/" + tag.encode() + b"?t=" + tag.encode() + b" HTTP/1.1\r\nHost: sibling\r\nContent-Length: " +
                str(len(payload)).encode() + b"\r\n\r\n" + payload)
    return b"GET /sib/" + tag.encode() + b"?t=" + tag.encode() + b" HTTP/1.1\r\nHost: sibling\r\n\r\n"


def sibling_verdict(role, sib, raw):
    """None while incomplete, else (ok, description)"""
    resp = hl.split_response(raw.rx)
    if resp is None:
        return None
    code, headers, body, complete, rest = resp
    if not complete:
        return None
    method = "POST" if sib["post"] else "GET"
    payload = sib["payload"].encode("ascii") if sib["post"] else b""
    if code != 200:
        return False, f"status {code}"
    if role == "wsgi":
        want = f"ECHO {method} /sib/{sib['tag']}?t={sib['tag']}\n".encode() + payload
        return (body == want and not rest), f"body {body[:120]!r} want {want[:120]!r} extra {rest[:40]!r}"
    try:
        data = json.loads(body.decode("utf-8"))
    except ValueError as ex:
        return False, f"undecodable echo {body[:80]!r}: {ex}"
    ok = (data.get("method") == method and data.get("path") == "/sib/" + sib["tag"] and
          data.get("qargs") == {"t": sib["tag"]} and data.get("body") == payload.decode("ascii") and not rest)
    return ok, f"echo {data!r}"


def fragments(data, cuts):
    out, last = [], 0
    for c in cuts:
        out.append(data[last:c])
        last = c
    out.append(data[last:])
    return out


def describe(case, data):
    return {"role": case["role"], "shape": case["shape"], "len": len(data), "head": data[:160], "cuts": case["cuts"][:8],
            "eof": case["eof"]}


def run_case(case, ctx):
    role = case["role"]
    for s in case["shape"]:
        ctx.count("shape_" + s.split(":")[0] + ("_" + s.split(":")[1] if s.startswith(("big:", "m:")) else ""))
    if case["cuts"]:
        ctx.count("fragmented_inputs")
    if case["eof"]:
        ctx.count("inputs_followed_by_eof")
    if role == "client":
        run_client(case, ctx)
    else:
        run_server(case, ctx, role)


def report_escape(ctx, role, ex, case, data, rnd):
    typ, func, prim = hl.escape_mechanism(ex)
    ctx.count("escapes_observed")
    ctx.violation(f"escape:{role}:{typ}:{func}:{prim}",
                  f"{'client' if role == 'client' else 'server'}.service() raised {typ}({str(ex)[:160]!r}) in round {rnd}; "
                  f"innermost hio function {func} ({prim}); input {describe(case, data)!r}")


# ---- servers ---------------------------------------------------------------------------------
def run_server(case, ctx, role):
    ctx.count("server_cases")
    ctx.count("cases_" + role)
    data = gh.expand(case["segs"])
    frs = fragments(data, case["cuts"])
    sched = case["sched"]
    sib = case["sib"]
    srv = vic = sibc = None
    hl.new_case()
    try:
        if role == "wsgi":
            srv, port = hl.open_hio_server(http.Server, _state["ports"], app=echo_app)
        else:
            srv, port = hl.open_hio_server(http.BareServer, _state["ports"])
        if sib["first"]:
            sibc = hl.Raw.connect(port)
            vic = hl.Raw.connect(port)
        else:
            vic = hl.Raw.connect(port)
            sibc = hl.Raw.connect(port)
        last = max(sched[-1], sib["at"])
        nrounds = last + 40 + len(data) // 4096
        full_at = None
        idle = 0
        verdict = None
        escaped = False
        for rnd in range(nrounds + GRACE):
            for i, at in enumerate(sched):
                if at == rnd:
                    vic.queue(frs[i])
            if case["eof"] and rnd >= sched[-1]:
                vic.want_shut = True
            if rnd == sib["at"]:
                sibc.queue(sibling_request(sib))
            vic.pump()
            sibc.pump()
            ctx.count("service_rounds")
            try:
                srv.service()
            except Exception as ex:
                report_escape(ctx, role, ex, case, data, rnd)
                escaped = True
                break
            moved = vic.pump()
            moved |= sibc.pump()
            if verdict is None and rnd >= sib["at"]:
                verdict = sibling_verdict(role, sib, sibc)
            delivered = hl.rx_count(vic.name) >= len(data) or vic.eof or vic.reset
            if full_at is None and rnd >= sched[-1] and delivered and not vic.pending:
                full_at = rnd
            refused = vic.eof or hl.split_response(vic.rx) is not None
            # what a verdict depends on (must) / what merely shows that the input was consumed (full_at)
            must = (rnd >= sib["at"] and verdict is None) or ((case["reject"] or case["control"]) and not refused)
            waiting = must or full_at is None
            if not waiting and rnd >= full_at + 4 and rnd >= last + 2:
                break
            if rnd + 1 >= nrounds and not must:
                break
            if waiting and not moved:
                idle += 1
                hl.idle_wait([vic.s, sibc.s], idle, grace=rnd + 1 >= nrounds)
        ctx.peak("rounds_max", rnd + 1)
        got = hl.rx_count(vic.name)
        if rnd + 1 >= nrounds and not escaped:
            ctx.count("server_cases_that_used_all_rounds")
            if full_at is None:
                ctx.count("server_cases_delivery_unconfirmed")
        ctx.count("hostile_bytes_received_by_hio", got)
        if escaped:
            return
        if not case["control"] and got:
            ctx.nontrivial([role, case["segs"]])
        # O2 sibling
        if verdict is None:
            ctx.violation(f"sibling-not-served:{role}",
                          f"no complete response for the sibling's well-formed request within {nrounds} rounds "
                          f"(sibling rx {bytes(sibc.rx[:120])!r}, eof={sibc.eof}); victim input {describe(case, data)!r}")
        elif not verdict[0]:
            ctx.violation(f"sibling-wrong-response:{role}", f"sibling got {verdict[1]}; victim input {describe(case, data)!r}")
        else:
            ctx.count("sibling_exact_responses")
        # victim outcome (observation), O3 / control
        resp = hl.split_response(vic.rx)
        code = resp[0] if resp else None
        if code is not None:
            ctx.count(f"victim_answered_{code // 100}xx" if code > 0 else "victim_answered_garbled")
        if vic.eof:
            ctx.count("victim_closed_by_server")
        if code is None and not vic.eof:
            ctx.count("victim_left_waiting")
        if case["reject"]:
            ctx.count("reject_inputs_judged")
            ok = (code >= 400) if code is not None else vic.eof
            if not ok:
                ctx.violation(f"malformed-request-not-refused:{role}",
                              f"complete invalid request was {'answered ' + str(code) if code is not None else 'left open'} "
                              f"after {rnd + 1} rounds; input {describe(case, data)!r}")
        if case["control"]:
            if code == 200:
                ctx.count("controls_ok")
            elif role == "bare" and case["shape"][0] in ("control:close", "control:close10") and vic.eof:
                # BareServer closes a non-persistent connection before the queued echo is sent: the response is lost,
                # but nothing raises and nobody else is affected - outside this statement, counted only
                ctx.count("bare_nonpersistent_closed_before_response")
            else:
                ctx.violation(f"control-not-served:{role}",
                              f"valid corpus request {case['shape'][0]} answered {code} eof={vic.eof}; rx {bytes(vic.rx[:100])!r}")
        if len(ctx.samples) < ctx.MAX_SAMPLES and case["shape"] and not case["control"]:
            ctx.sample({"input": describe(case, data), "rounds": rnd + 1, "victim_status": code, "victim_closed": vic.eof,
                        "sibling": "exact response" if verdict and verdict[0] else verdict})
    finally:
        for c in (vic, sibc):
            if c is not None:
                c.close()
        if srv is not None:
            try:
                srv.close()
            except Exception:
                try:
                    srv.servant.close()
                except Exception:
                    pass


# ---- client ----------------------------------------------------------------------------------
OK_RESPONSE = b"HTTP/1.1 200 OK\r\nContent-Length: 4\r\n\r\nnext"


def run_client(case, ctx):
    ctx.count("client_cases")
    ls = conn = client = None
    extra = []
    hl.new_case()
    try:
        ls, port = hl.open_raw_listener(_state["ports"])
        data = gh.expand(case["segs"]).replace(gh.PORT, str(port).encode())
        frs = fragments(data, [c for c in case["cuts"] if c < len(data)])
        sched = case["sched"][:len(frs)]
        reconnect = bool(case.get("reconnect"))
        if reconnect:
            client = hl.open_hio_client(port, dictable=case["dictable"], reconnectable=True, tymeout=0.25)
        else:
            client = hl.open_hio_client(port, dictable=case["dictable"])
        kw = {"method": case["method"], "path": "/c16/probe"}
        if case["method"] == "POST":
            kw["body"] = b"ping"
        client.request(**kw)
        nrounds = sched[-1] + 45 + len(data) // 4096
        base = None
        full_at = None
        answered = 0
        idle = 0
        escaped = False
        shut_at = None
        for rnd in range(nrounds + GRACE):
            ctx.count("service_rounds")
            if reconnect:
                client._vf_tymist.tyme += 0.125        # virtual time runs: the reconnect timer expires and is restarted
            try:
                client.service()
            except Exception as ex:
                report_escape(ctx, "client", ex, case, data, rnd)
                escaped = True
                break
            moved = False
            while True:
                try:
                    s, _ = ls.accept()
                except (BlockingIOError, InterruptedError):
                    break
                except OSError:
                    break
                moved = True
                if conn is None:
                    conn = hl.Raw(s)
                else:
                    extra.append(hl.Raw(s))
            for e in extra:
                e.pump()
            if conn is not None:
                moved |= conn.pump()
                nreq = bytes(conn.rx).count(b"\r\n\r\n")
                if base is None and nreq >= 1:
                    base = rnd
                if base is not None:
                    for i, at in enumerate(sched):
                        if base + at == rnd:
                            conn.queue(frs[i])
                    done_sending = rnd >= base + sched[-1]
                    if done_sending and case["eof"] and not conn.want_shut:
                        conn.want_shut = True
                        shut_at = rnd
                    if done_sending and not case["eof"] and nreq > 1 + answered and answered < 3 and not conn.pending:
                        conn.queue(OK_RESPONSE)      # follow-up request (redirect on the same connection)
                        answered += 1
                    moved |= conn.pump()
                    delivered = hl.rx_count(conn.peer) >= len(data) and not conn.pending and done_sending
                    if full_at is None and delivered and (not case["eof"] or conn.shut):
                        full_at = rnd
            must = base is None or ((case["reject"] or case["control"] or case.get("queued")) and
                                    not client.responses and not client.events)
            if case["control"] and case["shape"][0] == "control:close_delim" and not case["eof"]:
                must = False
            waiting = must or full_at is None
            if not waiting and rnd >= full_at + (16 if reconnect else 8):   # keep servicing: a redirect / reconnect only shows on later passes
                break
            if rnd + 1 >= nrounds and not must:
                break
            if waiting and not moved:
                idle += 1
                hl.idle_wait([ls, conn.s if conn else None], idle, grace=rnd + 1 >= nrounds)
        ctx.peak("rounds_max", rnd + 1)
        got = hl.rx_count(conn.peer) if conn is not None else 0
        ctx.count("hostile_bytes_received_by_hio", got)
        if escaped:
            return
        if conn is None or base is None:
            raise RuntimeError(f"harness: the client's request did not arrive within {rnd + 1} rounds")   # -> inconclusive
        if not case["control"] and got:
            ctx.nontrivial(["client", case["segs"]])
        responses = list(client.responses)
        first = responses[0] if responses else None
        if first is not None:
            ctx.count("client_responses_queued")
            ctx.count("client_responses_errored" if first["errored"] else "client_responses_normal")
        elif client.respondent.evented:
            ctx.count("client_event_streams")
            ctx.count("client_events_queued", len(client.events))
        elif client.redirects or client.respondent.redirected:
            ctx.count("client_redirect_in_progress")
        else:
            ctx.count("client_still_waiting" + ("_after_eof" if case["eof"] else ""))
        if case["reject"]:
            ctx.count("reject_inputs_judged")
            if first is None:
                ctx.violation("malformed-response-not-reported",
                              f"complete response with an invalid status line: nothing queued after {rnd + 1} rounds; {describe(case, data)!r}")
            elif not first["errored"]:
                ctx.violation("malformed-response-not-flagged",
                              f"complete response with an invalid status line queued with errored=False "
                              f"(status={first['status']!r}); {describe(case, data)!r}")
        if case["shape"][0] == "location_sched":
            ctx.count("redirects_with_odd_port_or_authority")
            ctx.count("client_passes_after_redirect_response", rnd - (full_at if full_at is not None else rnd))
        if reconnect:
            ctx.count("event_streams_cut_on_reconnectable_client")
            ctx.count("reconnects_after_cut", len(extra))
            ctx.seen("retry_values_used", repr(client.respondent.retry)[:40])
        if case["shape"][0] == "body_sched":
            ctx.count("scheduled_json_and_sse_bodies")
        if "queued" in case:
            ctx.count("status_lines_without_or_with_unlisted_reason")
            ctx.seen("status_code_variants", case["shape"] + [bytes(data[:16])])
            if case["queued"]:
                ctx.count("complete_responses_required_queued")
                if first is None:
                    ctx.violation("complete-response-not-queued:client",
                                  f"complete response (status line {bytes(data.split(b'\r\n')[0])!r}, Content-Length framed): nothing "
                                  f"queued after {rnd + 1} rounds; {describe(case, data)!r}")
        if case["control"]:
            name = case["shape"][0]
            if name in ("control:sse", "control:sse_chunked"):
                if client.events:
                    ctx.count("controls_ok")
                else:
                    ctx.violation("control-not-delivered:client", f"valid event stream {name}: no event queued")
            elif name == "control:close_delim" and not case["eof"]:
                ctx.count("controls_ok")      # legitimately waits for the close
            elif first is None or first["errored"]:
                ctx.violation("control-not-delivered:client",
                              f"valid corpus response {name} (method {case['method']}): queued={first is not None} "
                              f"errored={first['errored'] if first else None} error={first['error'] if first else None!r}")
            else:
                ctx.count("controls_ok")
        if len(ctx.samples) < ctx.MAX_SAMPLES and not case["control"] and first is not None and first["errored"]:
            ctx.sample({"input": describe(case, data), "rounds": rnd + 1, "errored": True, "error": first["error"]})
    finally:
        if client is not None:
            try:
                client.close()
            except Exception:
                pass
        for c in [conn] + extra:
            if c is not None:
                c.close()
        if ls is not None:
            ls.close()
