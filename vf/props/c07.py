"""C07 - real-time pacing never runs early and does not drift.

Monitor shape: the real `Doist.do()` loop runs on a scripted fake clock
(vf.mon.fakeclock) that replaces the module-global `time` of hio.help.timing and
hio.base.doing.  The clock keeps TRUE elapsed time (advanced only by sleep(d) +
scripted overshoot - or minus a scripted undershoot: a sleep cut short / returning
early, after which more waiting must follow - and by scripted per-cycle work) apart from the WALL reading
returned by time(), which the script steps backwards or stalls.  A class-level
wrapper on `Doist.recur` marks the begin and end of every cycle in the clock's
log; nothing else is instrumented.  The log is judged after the run:

  E  never early     start_k - t_do >= k * tock           (TRUE time, exact)
        t_do = true time when do() was called (the earliest meaning of "the run
        started"), tock = doist.tock read just before do() is called.
  L  lossless        for every cycle k >= 1 that was waited for (a sleep happened
        between the end of cycle k-1 and the begin of cycle k):
            P(start_k) - k * tock <= overshoot of the last of those sleeps
        where P = time the scheduler can account for from its own clock readings
        since cycle 0 began (sum of the non-negative increments of successive
        readings; time taken away by a backward step / stall is undetectable and is
        not held against the scheduler).  I.e. the lateness of a cycle that had to
        be waited for is only that wait's own overshoot - lateness of earlier
        cycles (long work, overshoots) is not carried into later deadlines.
        A cycle that starts with no wait at all cannot start sooner: not judged.
        Not judged either (observed and counted only, see notes/C07.md section 3): a
        cycle whose wait contains a sleep sized by a reading that itself revealed a
        backward step - MonoTimer.remaining is then too long by the step, but that
        lateness is made in the cycle's own wait and is caught up afterwards, which
        the statement does not forbid.

Violation keys name the mechanism, not the symptom's case: `<early|drift>:stale-timer-duration`
(timer.duration != doist.tock when cycle 0 begins), `<early|drift>:stale-last-reading`
(the pacing timer begins the run with _last != _start; diagnosis only, nothing is decided on
these attributes), `<early|drift>:tock-assigned-mid-run` (a doer assigned a different doist.tock while the run
was in progress: both clauses stay measured against the tock the run STARTED with), else `early:cycle-start` / `drift:lateness-accumulates`;
`wait-loop:no-progress`, `escape:do:<Exception>`.

All script values are multiples of 1/64 s (coarse families) or of 2**-16 s (the "fine"
families, which make waits of every size down to 15 us occur, e.g. a doer whose work
ends 1/65536 .. 1/1024 s before the deadline) and the wall base is an integer, so the
arithmetic of hio and of the oracle is exact and both comparisons are exact.
Forward wall jumps are never generated (excluded by the statement).
"""
import itertools
import random

from hio.base import doing
from hio.help import timing

from vf.mon.fakeclock import FakeClock, Installed, ClockBudgetExceeded

ID = "C07"
LEVEL = "exploration"
TECHNIQUE = ("trace oracle over a scripted fake clock: real Doist.do() paced by a clock whose true elapsed time and wall "
             "reading are separate; cycle starts (Doist.recur wrapper) judged exactly in a dyadic time domain")
RULE = ("a case = (tock at construction, optional tock assigned afterwards before do(), optional doist.tock assignments by a doer "
        "at given cycles while the run is in progress (smaller and larger), idle time / backward wall step before do(), "
        "per-cycle work times, per-sleep overshoots and undershoots (sleep returns early, down to no time at all), backward wall steps during given sleeps / at given clock reads / "
        "between given cycles, stalls of the reading over given sleeps, end by limit or by the doer finishing, one or two "
        "runs of the same Doist).  Enumerated: every single-event script (one event of each kind at every position, every "
        "size class) for 4 tocks x 6 cycles, and on a 2**-16 s grid the work of one cycle ending r before its deadline for "
        "r from 15 us to a few ms at every position; random beyond, by family (steady, overshoot, undershoot, longwork, stall, backstep-sleep, "
        "backstep-between, backstep-read, predo, retock, rerun, mix, fine = 2**-16 s grid, midtock) with 5-60 cycles.  Non-trivial = at least 3 cycle "
        "starts judged, at least one of them waited for, and at least one perturbation present; distinct = by family, tock, "
        "the set of perturbation kinds and the per-cycle waited/late pattern.")
ASSUMPTIONS = [
    "time values are multiples of 1/64 s (coarse families) or of 2**-16 s (fine families: waits down to 15 us) on an "
    "integer wall base - exact IEEE arithmetic either way; tock > 0",
    "the wall clock never jumps forward (excluded by the statement); backward steps and stalls are permanent losses",
    "a doist.tock assigned by a doer while do() is running does not change the pacing of that run: both clauses are measured "
    "against the tock read just before do() is called (the statement's 'tock the scheduler has when the run starts')",
    "'the run started' = the moment do() is called for the never-early bound; the lossless bound is measured from the "
    "begin of cycle 0 (both are the choices that demand least)",
    "doers are trivial Doer subclasses whose recur consumes scripted true time; hio is single threaded",
    "reading the clock takes no true time",
    "lossless is judged in the scheduler's own compensated time (sum of non-negative reading increments): wall time lost to "
    "backward steps / stalls is not drift; a wait sized by a reading that revealed a backward step is observed, not judged",
]
LEVEL_TEXT = ("Every cycle start of every generated run is judged against the exact never-early bound and the exact "
              "no-accumulated-lateness bound; the space of single-event clock scripts is enumerated for small runs and "
              "combinations are sampled. Held on the runs observed, not a proof for all clock behaviours.")
LEVEL_NOTE = "trusted: the 150-line fake clock, the 40-line log oracle, exactness of dyadic float arithmetic"
NSHARDS = {"quick": 8, "thorough": 16}
TIMEOUT_S = {"quick": 240, "thorough": 1800}
BUDGET_S = {"quick": 30, "thorough": 400}
REQUIRE = {"early_checks": 5000, "lossless_checks": 2000, "retrograde_reads_seen": 200, "stalled_sleeps": 100,
           "cycles_late_no_wait": 200, "overshot_sleeps": 500, "runs_with_tock_reassigned": 20,
           "runs_with_backstep_before_run": 20, "submillisecond_waits": 300, "submillisecond_wait_sizes": 8,
           "undershot_sleeps": 500, "sleeps_that_took_no_time": 50, "cycles_waited_through_a_short_sleep": 300,
           "runs_with_tock_assigned_mid_run": 300, "mid_run_tock_assignments_smaller": 150,
           "mid_run_tock_assignments_larger": 150}
EXHAUSTIVE = {"quick": "all single-event scripts: tock in {1,4,16,33}/64 x 6 cycles x event kind in {overshoot, undershoot (x1, x2, with work), work, "
                       "sleep-step, read-step, between-step, stall, pre-run step, tock reassigned before the run, tock assigned by a doer "
                       "mid-run (6 values; with work, with a backstep, twice)} x every position x 5 sizes; fine grid "
                       "(2**-16 s): work of one cycle ending r before its deadline, r in 10 sizes from 15 us to 4.6 ms, every "
                       "position, 3 tocks",
              "thorough": "same single-event space with 10 cycles and 8 tocks; fine grid with 20 sizes of r and 6 tocks"}

U = 64.0                    # case values are integers in units of 1/64 s
HOUR = 64 * 3600
FAMILIES = ["steady", "overshoot", "undershoot", "longwork", "stall", "backstep_sleep", "backstep_between", "backstep_read",
            "predo", "retock", "rerun", "mix", "fine", "midtock"]


# --------------------------------------------------------------------------
# case generation
# --------------------------------------------------------------------------
def blank(fam, q, n, unit=64):
    return {"fam": fam, "unit": unit, "tock0": q, "retock": None, "idle": 0, "prestep": 0, "enter_work": 0, "n": n,
            "work": [0] * n, "overs": [], "unders": {}, "midtock": {}, "sleep_steps": {}, "read_steps": {}, "cycle_steps": {}, "stalls": {},
            "use_limit": False, "runs": 1, "between_idle": 0, "between_step": 0, "ndoers": 1}


def sizes(q):
    return [1, max(1, q // 2), q, 2 * q + 1, HOUR]


def single_event_cases(tier):
    tocks = [1, 4, 16, 33] if tier == "quick" else [1, 2, 4, 5, 16, 33, 64, 96]
    n = 6 if tier == "quick" else 10
    for q in tocks:
        yield blank("enum-steady", q, n)
        for pos in range(n):
            for s in sizes(q):
                c = blank("enum-overshoot", q, n); c["overs"] = [0] * pos + [s]; yield c
                c = blank("enum-work", q, n); c["work"][pos] = s; yield c
                c = blank("enum-sleep-step", q, n); c["sleep_steps"] = {str(pos): s}; yield c
                c = blank("enum-between-step", q, n); c["cycle_steps"] = {str(pos): s}; yield c
                c = blank("enum-stall", q, n); c["stalls"] = {str(pos): 1 + (s % 3)}; yield c
            for s in (1, max(1, q // 2), q - 1 or 1, q, 5 * q):      # sleep returns early by s (>= q: no time passed at all)
                c = blank("enum-undershoot", q, n); c["unders"] = {str(pos): s}; yield c
                c = blank("enum-undershoot-twice", q, n); c["unders"] = {str(pos): s, str(pos + 1): s}; yield c
                c = blank("enum-undershoot-work", q, n); c["unders"] = {str(pos): s}; c["work"] = [max(1, q // 4)] * n; yield c
            for rpos in (3 * pos, 3 * pos + 1, 3 * pos + 2):
                for s in sizes(q):
                    c = blank("enum-read-step", q, n); c["read_steps"] = {str(rpos): s}; yield c
        for s in sizes(q):
            for idle in (0, q, 7 * q + 3):
                c = blank("enum-predo", q, n); c["prestep"] = s; c["idle"] = idle; yield c
        for q2 in (1, 2, 3, 4, 8, 16, 33, 64, 128):
            if q2 != q:
                c = blank("enum-retock", q, n); c["retock"] = q2; yield c
        c = blank("enum-retock", None, n); c["retock"] = q; yield c
        # a doer assigns doist.tock while the run is in progress: pacing must keep the tock the run started with
        for pos in range(n - 1):
            for q2 in sorted({1, max(1, q // 2), max(1, q - 1), q + 1, 2 * q, 8 * q} - {q}):
                c = blank("enum-midtock", q, n); c["midtock"] = {str(pos): q2}; yield c
                c = blank("enum-midtock-work", q, n); c["midtock"] = {str(pos): q2}; c["work"] = [max(1, q // 4)] * n; yield c
            c = blank("enum-midtock-backstep", q, n); c["midtock"] = {str(pos): max(1, q // 2)}
            c["sleep_steps"] = {str(pos + 1): q}; yield c
            c = blank("enum-midtock-twice", q, n); c["midtock"] = {str(pos): 4 * q, str(pos + 1): 1}; yield c


FINE = 65536                 # fine grid: multiples of 2**-16 s (15 us); 31 + 16 bits, still exact in doubles
MS = 0.001


def fine_enum_cases(tier):
    """Fixed schedule: the doer's work of one cycle ends r before that cycle's deadline, for every r from one
    grid step (15 us) up to a few ms, at every cycle position; plus the same with the wait cut short by fine
    overshoots / steps elsewhere.  Waits of every size class down to 15 us occur."""
    n = 6
    rs = [1, 2, 4, 16, 32, 64, 65, 66, 128, 300] if tier == "quick" else \
        [1, 2, 3, 4, 8, 16, 17, 32, 33, 48, 63, 64, 65, 66, 67, 100, 128, 200, 300, 1000]
    for q in ([1024, 640, 4096] if tier == "quick" else [1024, 640, 4096, 257, 2048, 65536]):
        for r in rs:
            if r >= q:
                continue
            for pos in range(n - 1):
                c = blank("enum-fine-work", q, n, FINE); c["work"][pos] = q - r; yield c
            c = blank("enum-fine-work-all", q, n, FINE); c["work"] = [q - r] * n; yield c
            c = blank("enum-fine-work-overrun", q, n, FINE); c["work"][1] = 2 * q - r; yield c
            c = blank("enum-fine-overshoot", q, n, FINE); c["overs"] = [0, r, 0, r]; c["work"][3] = q - r; yield c
            c = blank("enum-fine-sleep-step", q, n, FINE); c["sleep_steps"] = {"1": r}; c["work"][3] = q - r; yield c
            c = blank("enum-fine-undershoot", q, n, FINE); c["unders"] = {"1": r, "4": r}; yield c


def fine_rand_case(rng, tier):
    q = rng.choice([257, 640, 1000, 1024, 2048, 4096, 16384, 65536])
    n = rng.randint(5, 30 if tier == "quick" else 60)
    c = blank("fine", q, n, FINE)
    c["use_limit"] = rng.random() < 0.3

    def small():
        return rng.choice([1, 2, 3, 4, 7, 16, 31, 64, 65, 66, 100, 128, 255, 256, 1000])

    c["work"] = [rng.choice([0, 0, small(), max(0, q - small()), max(0, q - small()), q + small(), max(0, 2 * q - small())])
                 for _ in range(n)]
    if rng.random() < 0.5:
        c["overs"] = [rng.choice([0, 0, small(), q - 1]) for _ in range(3 * n)]
    if rng.random() < 0.4:
        c["unders"] = {str(i): rng.choice([small(), small(), q]) for i in rng.sample(range(2 * n), 3)}
    if rng.random() < 0.4:
        c["sleep_steps"] = {str(i): small() for i in rng.sample(range(2 * n), 3)}
    if rng.random() < 0.3:
        c["cycle_steps"] = {str(i): small() for i in rng.sample(range(n), 2)}
    if rng.random() < 0.2:
        c["stalls"] = {str(rng.randrange(n)): rng.randint(1, 2)}
    if rng.random() < 0.15:
        c["enter_work"] = small()
    if rng.random() < 0.15:
        c["idle"] = small()
    return c


def rand_case(rng, fam, tier):
    if fam == "fine":
        return fine_rand_case(rng, tier)
    q = rng.choice([1, 2, 3, 4, 5, 8, 12, 16, 24, 32, 33, 48, 64, 96, 128])
    n = rng.randint(5, 30 if tier == "quick" else 60)
    c = blank(fam, q, n)
    c["use_limit"] = rng.random() < 0.3
    c["ndoers"] = rng.choice([1, 1, 2])
    if rng.random() < 0.15:
        c["enter_work"] = rng.choice([1, q, 3 * q + 1])
    if rng.random() < 0.2:
        c["idle"] = rng.choice([1, q, 10 * q + 5, HOUR])

    def bsize():
        return rng.choice([1, 1, max(1, q // 2), q - 1 or 1, q, q + 1, 2 * q, 5 * q + 3, 1000 * q, HOUR, 24 * HOUR])

    def some(limit, lo=1, hi=4):
        return rng.sample(range(limit), min(limit, rng.randint(lo, hi)))

    feats = {fam} if fam not in ("mix", "midtock") else {f for f in FAMILIES[1:9] if rng.random() < (0.45 if fam == "mix" else 0.25)}
    if fam == "midtock" or (fam == "mix" and rng.random() < 0.1):
        feats.add("midtock")
    if fam == "mix":
        if rng.random() < 0.1:
            feats.add("retock")
        if rng.random() < 0.1:
            feats.add("rerun")
    if "overshoot" in feats:
        c["overs"] = [rng.choice([0, 0, 1, 2, max(1, q // 2), q, q + 1, 2 * q, 3 * q + 1]) for _ in range(3 * n)]
    if "undershoot" in feats:
        c["unders"] = {str(i): rng.choice([1, 1, max(1, q // 2), q - 1 or 1, q, 3 * q]) for i in some(2 * n, 1, 8)}
    if "longwork" in feats:
        c["work"] = [rng.choice([0, 0, 0, 1, max(1, q - 1), q, q + 1, 2 * q, 3 * q + 5, 7 * q]) for _ in range(n)]
    elif rng.random() < 0.3:
        c["work"] = [rng.choice([0, 1, max(1, q // 4), max(1, q // 2)]) for _ in range(n)]
    if "stall" in feats:
        c["stalls"] = {str(i): rng.randint(1, 4) for i in some(n)}
    if "backstep_sleep" in feats:
        c["sleep_steps"] = {str(i): bsize() for i in some(2 * n, 1, 6)}
    if "backstep_between" in feats:
        c["cycle_steps"] = {str(i): bsize() for i in some(n, 1, 6)}
    if "backstep_read" in feats:
        c["read_steps"] = {str(i): bsize() for i in some(4 * n, 1, 6)}
    if "predo" in feats:
        c["prestep"] = bsize()
    if "retock" in feats:
        q2 = rng.choice([x for x in [1, 2, 3, 4, 8, 16, 24, 32, 33, 64, 128, 256] if x != q])
        c["retock"] = q2
        if rng.random() < 0.2:
            c["tock0"] = None
    if "midtock" in feats:
        c["midtock"] = {str(i): rng.choice([1, max(1, q // 4), max(1, q // 2), max(1, q - 1), q + 1, 2 * q, 5 * q, 16 * q])
                        for i in some(n - 1, 1, 3)}
        c["use_limit"] = False          # the virtual-tyme limit would follow the new tock; end by the doer finishing
        if rng.random() < 0.15:
            feats.add("rerun")
    if "rerun" in feats:
        c["runs"] = 2
        c["between_idle"] = rng.choice([0, 1, q, 10 * q])
        c["between_step"] = rng.choice([0, 0, bsize(), bsize()])
        c["work"] = c["work"] + [rng.choice([0, 0, 1, q + 1]) for _ in range(n)]
    return c


def cases(tier, seed, shard, nshards):
    i = 0
    for c in itertools.chain(single_event_cases(tier), fine_enum_cases(tier)):
        if i % nshards == shard:
            yield c
        i += 1
    rng = random.Random(f"{seed}:C07:{shard}")
    nrand = (16000 if tier == "quick" else 240000) // nshards
    for j in range(nrand):
        yield rand_case(rng, FAMILIES[j % len(FAMILIES)], tier)


# --------------------------------------------------------------------------
# hook: class-level wrapper on Doist.recur; records marks only, judges nothing
# --------------------------------------------------------------------------
_mon = {"run": None, "installed": False, "orig": None}


class RunRecord:
    def __init__(self, doist, clock, cycle_steps, k0):
        self.doist = doist
        self.clock = clock
        self.cycle_steps = cycle_steps
        self.k = 0
        self.k0 = k0                    # cycles of earlier runs (indexes the work script)
        self.mid_assigned = []          # (cycle, tock) assigned to doist.tock by a doer while the run was in progress
        self.timer_duration = "unset"   # doist.timer.duration seen when cycle 0 begins
        self.last_vs_start = None       # diagnosis only: timer._last - timer._start when cycle 0 begins


def _recur_wrapper(self, *pa, **kwa):
    rec = _mon["run"]
    if rec is None or rec.doist is not self:
        return _mon["orig"](self, *pa, **kwa)
    k = rec.k
    if k == 0:
        try:
            rec.timer_duration = self.timer.duration
        except Exception:
            rec.timer_duration = None
        try:
            rec.last_vs_start = self.timer._last - self.timer._start
        except Exception:
            rec.last_vs_start = None
    rec.clock.mark(("cs", k))
    try:
        return _mon["orig"](self, *pa, **kwa)
    finally:
        rec.clock.mark(("ce", k))
        b = rec.cycle_steps.get(k)
        if b:
            rec.clock.step_back(b, "between")
        rec.k = k + 1


def setup(ctx):
    if not _mon["installed"]:
        _mon["orig"] = doing.Doist.recur
        doing.Doist.recur = _recur_wrapper
        _mon["installed"] = True


def teardown(ctx):
    if _mon["installed"]:
        doing.Doist.recur = _mon["orig"]
        _mon["installed"] = False


# --------------------------------------------------------------------------
# workload doers
# --------------------------------------------------------------------------
class WorkDoer(doing.Doer):
    """Runs `count` cycles (or for ever when count is None); each recur consumes scripted true time."""

    def __init__(self, clock=None, work=(), count=None, enter_work=0.0, midtock=None, **kwa):
        super().__init__(**kwa)
        self.midtock = midtock or {}      # {cycle index: tock assigned to the doist during that cycle}
        self.doist = None
        self.clock = clock
        self.work = work
        self.count = count
        self.enter_work = enter_work
        self.ran = 0

    def enter(self, *, temp=None):
        self.ran = 0
        self.clock.work(self.enter_work)

    def recur(self, tyme):
        rec = _mon["run"]
        k = (rec.k0 + rec.k) if rec is not None else self.ran
        if k < len(self.work):
            self.clock.work(self.work[k])
        if k in self.midtock and self.doist is not None:
            self.doist.tock = self.midtock[k]            # takes effect for the virtual tyme; pacing keeps the start tock
            if rec is not None:
                rec.mid_assigned.append((rec.k, self.midtock[k]))
        self.ran += 1
        return self.count is not None and self.ran >= self.count


class IdleDoer(doing.Doer):
    """Second trivial doer with its own tock: runs every other cycle, does nothing, finishes after 3 runs."""

    def enter(self, *, temp=None):
        self.ran = 0

    def recur(self, tyme):
        self.ran += 1
        return self.ran >= 3


# --------------------------------------------------------------------------
# the oracle: judge one run from the clock log
# --------------------------------------------------------------------------
def judge(log, i0, t_do, tock, ctx, diag):
    """Returns (stats dict, list of (key, msg)). diag(kind) names the violation key."""
    out = []
    seen = set()
    p = 0.0
    lastw = None
    waits = None          # sleeps since the last cycle end: list of (requested, overshoot); None before cycle 0
    short_in_wait = False  # a sleep of the current wait returned early
    retro_sized = False   # a sleep of the current wait was sized by a reading that itself revealed a backward step
    last_read_retro = False
    nextk = 0
    pattern = []
    ncs = 0
    for i in range(i0, len(log)):
        ev = log[i]
        kind = ev[0]
        if kind == "read":
            if lastw is not None:
                d = ev[2] - lastw
                last_read_retro = d < 0
                if d > 0:
                    p += d
                elif d < 0:
                    ctx.count("retrograde_reads_seen")
                else:
                    ctx.count("standstill_reads_seen")
                lastw = ev[2]
        elif kind == "sleep":
            ctx.count("sleeps")
            if ev[3] > 0:
                ctx.count("overshot_sleeps")
            elif ev[3] < 0:
                ctx.count("undershot_sleeps")          # returned early in true time: more waiting must follow
                if ev[3] == -ev[2]:
                    ctx.count("sleeps_that_took_no_time")
                if waits is not None:
                    short_in_wait = True
            if waits is not None:
                waits.append((ev[2], ev[3]))
                if 0 < ev[2] < MS:
                    ctx.count("submillisecond_waits")
                    ctx.seen("submillisecond_wait_sizes", ev[2])
                if last_read_retro:
                    # OBSERVATION ONLY (see notes/C07.md): MonoTimer.remaining evaluates `_stop` before `.latest`
                    # shifts it, so a wait sized by a reading that reveals a backward step of b is b too long.
                    # The lateness is made inside this cycle's own wait and is caught up afterwards, so the
                    # statement's "lateness ... does not push later deadlines back" is silent about it.
                    retro_sized = True
                    ctx.count("waits_sized_by_retrograde_read")
                    if ev[2] > nextk * tock - p:
                        ctx.count("observed_oversleep_after_retrograde_read")
        elif kind == "step":
            if ev[3] == "stall":
                ctx.count("stalled_sleeps")
            else:
                ctx.count("backsteps_" + ev[3].replace("-", "_"))
        elif kind == "mark":
            what, k = ev[2]
            if what == "ce":
                waits = []
                short_in_wait = False
                retro_sized = False
                nextk = k + 1
                continue
            ncs += 1
            start = ev[1]
            if k == 0:
                lastw = ev[3]
                p = 0.0
                last_read_retro = False
            # E: never early, in TRUE time
            ctx.count("early_checks")
            need = k * tock
            if start - t_do < need:
                ctx.count("early_cycle_starts")
                if "E" not in seen:
                    seen.add("E")
                    out.append((diag("early"),
                                f"cycle {k} began {start - t_do} s of true time after do() was called; with tock={tock} "
                                f"it must not begin before {need} s (early by {need - (start - t_do)} s)"))
            # L: lateness is not accumulated
            if k >= 1:
                if waits and retro_sized:
                    pattern.append("r")     # not judged, see above
                    ctx.count("cycles_not_judged_wait_sized_by_retrograde_read")
                elif waits:
                    ctx.count("lossless_checks")
                    late = p - need
                    over = max(0.0, waits[-1][1])
                    if short_in_wait:
                        ctx.count("cycles_waited_through_a_short_sleep")
                    pattern.append("w" if late <= 0 else "o")
                    if late > over:
                        ctx.count("drifted_cycle_starts")
                        if "L" not in seen:
                            seen.add("L")
                            out.append((diag("drift"),
                                        f"cycle {k} was waited for ({len(waits)} sleep(s), last sleep({waits[-1][0]}) overshot by "
                                        f"{over}) and began when the scheduler's own readings accounted for {p} s since cycle 0, "
                                        f"i.e. {late} s after its deadline {need} s (tock={tock}): lateness beyond the last "
                                        f"overshoot was carried over from earlier cycles / a wrong period"))
                else:
                    pattern.append("L")     # due or late on arrival: started with no wait
                    ctx.count("cycles_late_no_wait")
    return {"cycle_starts": ncs, "pattern": "".join(pattern)}, out


# --------------------------------------------------------------------------
# one case
# --------------------------------------------------------------------------
def run_case(case, ctx):
    unit = float(case.get("unit", U))
    u = lambda x: x / unit
    clock = FakeClock(overshoots=[u(x) for x in case["overs"]],
                      sleep_steps={k: u(v) for k, v in case["sleep_steps"].items()},
                      read_steps={k: u(v) for k, v in case["read_steps"].items()},
                      stalls=case["stalls"], undershoots={k: u(v) for k, v in case.get("unders", {}).items()},
                      max_sleeps=200 * (case["n"] + 5) * case["runs"], max_reads=2000 * (case["n"] + 5) * case["runs"])
    n = case["n"]
    work = [u(x) for x in case["work"]]
    cycle_steps = {int(k): u(v) for k, v in case["cycle_steps"].items()}
    feats = sorted(f for f in ("overs", "unders", "sleep_steps", "read_steps", "cycle_steps", "stalls") if case.get(f)) + \
        (["work"] if any(case["work"]) else []) + (["prestep"] if case["prestep"] else []) + \
        (["retock"] if case["retock"] is not None else []) + (["rerun"] if case["runs"] > 1 else []) + \
        (["midtock"] if case.get("midtock") else [])
    sig_runs = []
    total_cs = 0
    any_wait = False
    with Installed(clock, [timing, doing]):
        kw = {} if case["tock0"] is None else {"tock": u(case["tock0"])}
        use_limit = case["use_limit"]
        wd = WorkDoer(clock=clock, work=work, count=None if use_limit else n, enter_work=u(case["enter_work"]),
                      midtock={int(k): u(v) for k, v in case.get("midtock", {}).items()})
        doers = [wd]
        if case["ndoers"] > 1:
            doers.append(IdleDoer(tock=2 * (u(case["retock"]) if case["retock"] is not None else
                                            (u(case["tock0"]) if case["tock0"] is not None else 1 / 32))))
        doist = doing.Doist(real=True, doers=doers, **kw)
        wd.doist = doist
        if case["retock"] is not None:
            doist.tock = u(case["retock"])
            ctx.count("runs_with_tock_reassigned", case["runs"])
        k0 = 0
        for run in range(case["runs"]):
            # what happens to the clock while no run is in progress
            idle, step = (case["idle"], case["prestep"]) if run == 0 else (case["between_idle"], case["between_step"])
            clock.work(u(idle))
            if step:
                clock.step_back(u(step), "before-run")
                ctx.count("runs_with_backstep_before_run")
            tock = doist.tock                       # the tock the scheduler has when the run starts
            if not tock > 0:
                raise AssertionError("generator must give tock > 0")
            rec = RunRecord(doist, clock, cycle_steps, k0)
            i0 = len(clock.log)
            t_do = clock.true
            clock.arm()
            _mon["run"] = rec
            escaped = None
            try:
                if use_limit:
                    doist.do(limit=n * tock)
                else:
                    doist.do()
            except ClockBudgetExceeded as ex:
                escaped = ("wait-loop:no-progress", f"the wait loop did not finish within the harness budget: {ex}")
            except Exception as ex:
                escaped = (f"escape:do:{type(ex).__name__}", f"Doist.do() raised {ex!r} in real-time mode")
            finally:
                _mon["run"] = None
                clock.disarm()
            ctx.count("runs")
            stale = rec.timer_duration not in ("unset", None) and rec.timer_duration != tock
            if stale:
                ctx.count("runs_timer_duration_differs_from_tock")

            # diagnosis (names the key, decides nothing): the pacing timer began the run with a last-reading that is
            # not its start reading, so its retrograde handling spans clock history from before the run
            stale_last = bool(rec.last_vs_start)
            if stale_last:
                ctx.count("runs_timer_last_reading_differs_from_start")

            mid = [a for a in rec.mid_assigned if a[1] != tock]
            if mid:
                ctx.count("runs_with_tock_assigned_mid_run")
                ctx.count("mid_run_tock_assignments_smaller", sum(1 for a in mid if a[1] < tock))
                ctx.count("mid_run_tock_assignments_larger", sum(1 for a in mid if a[1] > tock))

            def diag(kind, stale=stale, stale_last=stale_last, mid=mid):
                if stale:
                    return kind + ":stale-timer-duration"
                if stale_last:
                    return kind + ":stale-last-reading"
                if mid:
                    return kind + ":tock-assigned-mid-run"
                return "early:cycle-start" if kind == "early" else "drift:lateness-accumulates"

            stats, viols = judge(clock.log, i0, t_do, tock, ctx, diag)
            k0 += rec.k
            total_cs += stats["cycle_starts"]
            any_wait = any_wait or ("w" in stats["pattern"] or "o" in stats["pattern"])
            sig_runs.append(stats["pattern"])
            trace = None
            if viols or escaped:
                trace = [list(e) for e in clock.log[i0:i0 + 120]]
            for key, msg in viols:
                ctx.violation(key, f"{msg}; at cycle 0 timer.duration={rec.timer_duration} timer._last-timer._start={rec.last_vs_start}, "
                              f"features={feats}, run={run}",
                              trace=trace)
            if escaped:
                ctx.violation(escaped[0], escaped[1], trace=trace)
                break
            if stats["cycle_starts"] != rec.k:
                raise AssertionError("log marks and wrapper count disagree")
            ctx.peak("max_cycles_in_a_run", rec.k)
    ctx.count("clock_reads", clock.total_reads)
    ctx.seen("families", case["fam"])
    ctx.seen("feature_sets", feats)
    if total_cs >= 3 and any_wait and feats:
        ctx.nontrivial([case["fam"].split("-")[0], case["tock0"], case["retock"], feats, sig_runs])
    ctx.sample({"case": {k: v for k, v in case.items() if v not in (0, None, {}, [], False)},
                "cycle_pattern(w=on time,o=overshot,L=late no wait,r=not judged)": sig_runs,
                "true_time_end": clock.true, "wall_lost": clock.lost})


PEAK_COUNTERS = ("max_cycles_in_a_run",)
