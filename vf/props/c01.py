"""C01 - every doer runs a well-formed lifecycle on every exit path.

Monitor shape: trace automaton.  Every lifecycle callback of every doer (Doer
subclasses with plain / generator recur, doify / doize / bound-method generator
functions in the canonical try/except/else/finally form, DoDoers) appends to one
trace.  Per doer the event word up to the moment do() returned or raised must be
    enter recur* (clean | cease | abort) exit
with the terminal context the doer's own script implies: it returned -> clean, it (or, for a
DoDoer, a child) raised -> abort, anything else that was started -> cease; exactly one exit,
nothing after exit, and no doer still un-exited when do() returns/raises.
"""
import random

from vf import sched, gen_sched, faults

ID = "C01"
LEVEL = "exploration"
TECHNIQUE = "trace automaton over lifecycle events recorded by subclass hooks; exit paths driven by scripted faults and sys.monitoring line failpoints"
RULE = ("random doer forests (5 leaf kinds, DoDoers with tock 0 and >0, 'always' DoDoers, <= 8 leaves, depth <= 3) x exit path: "
        "completion, limit, ValueError in recur of leaf i at step k, failing enter (initial/nested/inside extend), runtime remove, "
        "KeyboardInterrupt raised inside a doer, KeyboardInterrupt injected at the k-th line of scheduler code; thorough also "
        "enumerates every (leaf, step) fault site of forests with <= 5 leaves. Non-trivial = doers of the run ended in >= 2 "
        "different terminal contexts; distinct = by (forest shape, exit path, fault site, terminal contexts).")
LEVEL_TEXT = ("The automaton judges every doer of every generated run; faults are placed by construction on every exit path the "
              "statement lists. Held on the runs observed (bounded forests, <= 400 cycles).")
LEVEL_NOTE = ("trusted: vf/sched.py hooks (subclass overrides reached through self-dispatch from the unmodified do() generators); "
              "CPython reference counting decides when an orphaned generator is finalised")
ASSUMPTIONS = ["faults inside cease/exit/clean callbacks are not generated (outside the statement's list)",
               "scheduler-level interrupts are injected only where do() is designed to survive them (loop body, recur), never inside exit()"]
NSHARDS = {"quick": 8, "thorough": 16}
REQUIRE = {"doers_judged": 10000, "path:completion": 200, "path:limit": 200, "path:recur-raise": 200, "path:enter-raise": 200,
           "path:extend-enter-raise": 100, "path:remove": 200, "path:kbint-in-doer": 200, "path:kbint-sched": 200, "path:hook-acts": 150, "path:extend-idle-always": 150, "path:extend-present": 150, "runs_through_ado": 400, "clean_hooks_raised": 60,
           "terminal:clean": 1000, "terminal:cease": 1000, "terminal:abort": 300, "failpoints_fired": 150}


def cases(tier, seed, shard, nshards):
    rng = random.Random(f"{seed}:C01:{shard}")
    n = (4000 if tier == "quick" else 80000) // nshards
    for i in range(n):
        path = faults.PATHS[i % len(faults.PATHS)]
        case = faults.make_case(rng, path, readd=True)
        prog = case["prog"]
        if path != "kbint-sched" and rng.random() < 0.25:
            prog["runner"] = "ado"        # the asyncio entry point must give every doer the same lifecycle
        if rng.random() < 0.12:
            # a Doer subclass whose own clean hook raises after it finished by itself
            cands = [lf for lf in gen_sched.leaves_of(prog["doers"])
                     if lf["kind"] in ("doer", "redoer") and (lf.get("end") and lf["end"][1] == "return" or lf.get("enter") == "finish")]
            if cands:
                rng.choice(cands)["clean_raise"] = True
                case["clean_raise"] = True
        yield case
    if tier == "thorough":
        for _ in range(400 // nshards + 1):
            base = gen_sched.gen_prog(rng, dyadic=True, nmax=5, depth=2, group_p=0.4, group_tocks=(0.0, 0.5),
                                      limit_p=0.3)
            for site in faults.enumerate_fault_sites(base["prog"] if "prog" in base else base):
                for exc in ("ValueError", "KeyboardInterrupt"):
                    if site[1] == "enter" and exc != "ValueError":
                        continue
                    yield {"prog": faults.place_fault(base, site, exc), "path": "enum-" + site[1] + "-" + exc,
                           "fault": {"leaf": site[0], "where": site[1], "step": site[2], "exc": exc}}


def execute_case(case):
    prog = case["prog"]
    if case["path"] == "kbint-sched":
        dry = sched.execute(prog, failpoint_k=0, max_cycles=sched.cycle_budget(prog))
        nlines = dry.failpoint.n
        k = 1 + int(case["kfrac"] * nlines) if nlines else 1
        run = sched.execute(prog, failpoint_k=k, max_cycles=sched.cycle_budget(prog))
        return run, {"lines": nlines, "k": k, "fired_at": run.failpoint.fired_at}
    return sched.execute(prog, max_cycles=sched.cycle_budget(prog)), {}


def must_abort(run, did):
    """a DoDoer must abort iff an exception left one of its children while it was running them"""
    spec = run.specs[did]
    if spec["kind"] != "dodoer":
        return run.state[did].outcome in ("raised", "kbint") or run.state[did].clean_raised
    return any(must_abort(run, c["id"]) for c in spec.get("doers", []) if run.state[c["id"]].enters) or \
        run.state[did].outcome == "child-raised"


def raised_kbint(run, did):
    spec = run.specs[did]
    if spec["kind"] != "dodoer":
        return run.state[did].outcome == "kbint"
    return any(raised_kbint(run, c["id"]) for c in spec.get("doers", []))


def judge(run, ctx, case, extra):
    tr = sched.compact(run)
    end = sched.end_index(run)
    life = sched.life_events(run)
    contexts = set()
    ok = True
    if run.result[0] == "runaway":
        ctx.violation("non-termination:logical-cycle-budget-exceeded",
                      f"run exceeded the cycle budget {run.max_cycles} derived from its own limit/scripts "
                      f"(cycles={run.cycles}, recur steps={run.total_steps})", trace=sched.compact(run)[-60:])
        return None
    for did, evs in life.items():
        ctx.count("doers_judged")
        before_all = [(i, k, info) for (i, k, info) in evs if i < end]
        after_all = [(i, k, info) for (i, k, info) in evs if i > end]
        kind = run.specs[did]["kind"]
        st = run.state[did]
        # a doer that was removed (force-closed) and later added again runs a second, separate lifecycle: a new enter
        # is legitimate only after the previous lifecycle's exit; each lifecycle is judged on its own
        segs = [[]]
        for ev in before_all:
            if ev[1] == "enter" and any(k == "exit" for (_, k, _) in segs[-1]):
                segs.append([])
            segs[-1].append(ev)
        if len(segs) > 1:
            ctx.count("doers_with_a_second_lifecycle_after_removal")
        for si, before in enumerate(segs):
            after = after_all if si == len(segs) - 1 else []
            single = len(segs) == 1
            word = [k for (_, k, _) in before]
            # -- shape -------------------------------------------------------------------
            key = None
            msg = None
            if word.count("enter") > 1:
                key, msg = "entered-twice", f"{did} entered {word.count('enter')}x"
            elif not word or word[0] != "enter":
                key, msg = "event-before-enter", f"{did}: {word[:4]}"
            elif word.count("exit") > 1:
                key, msg = "exit-twice", f"{did}: {word}"
            elif "exit" not in word:
                late = [k for (_, k, _) in after]
                if case["path"] == "extend-enter-raise" and did in (case.get("fault") or {}).get("entered_before_bad", []):
                    key = "extend-enter-failure-orphans-earlier-new-doers"
                elif extra.get("fired_at") and extra["fired_at"][0] == "recur":
                    key = "kbint-between-pop-and-reappend-orphans-in-hand-doer"
                else:
                    key = "not-exited-before-run-end"
                msg = (f"{did} ({kind}) still not exited when do() {run.result[0]}ed; events before: {word[-4:]}, "
                       f"after the run (garbage collection): {late}")
            else:
                xi = word.index("exit")
                if xi != len(word) - 1 or after:
                    key, msg = "event-after-exit", f"{did}: {word[xi:]} + after run {[k for (_, k, _) in after]}"
                else:
                    terms = [k for k in word if k in ("clean", "cease", "abort")]
                    body = word[1:xi]
                    if len(terms) != 1 or body[-1:] != terms or any(k != "recur" for k in body[:-1]):
                        if not terms and (raised_kbint(run, did) or st.outcome == "kbint"):
                            key = "kbint-in-doer:exit-without-terminal-context"
                        elif not terms and extra.get("fired_at"):
                            key = "kbint-in-scheduler-code-of-dodoer:exit-without-terminal-context"
                        else:
                            key = "malformed-lifecycle"
                        msg = f"{did} ({kind}): {word}"
                    else:
                        term = terms[0]
                        contexts.add(term)
                        ctx.count("terminal:" + term)
                        if not single:
                            want = term      # outcome bookkeeping spans lifecycles: only the shape is judged
                        elif st.outcome == "returned":
                            want = "clean"
                        elif must_abort(run, did):
                            want = "abort"
                        else:
                            want = "cease"
                        if term != want:
                            key = f"wrong-terminal-context:{want}-expected-got-{term}"
                            msg = f"{did} ({kind}) outcome={st.outcome}: {word}"
            if key:
                ok = False
                ctx.violation(key, msg + (f" failpoint={extra}" if extra else ""), trace=tr)
    return contexts if ok else None


def run_case(case, ctx):
    run, extra = execute_case(case)
    ctx.count("path:" + case["path"].split("-ValueError")[0].split("-KeyboardInterrupt")[0]
              if case["path"].startswith("enum-") else "path:" + case["path"])
    if extra.get("fired_at"):
        ctx.count("failpoints_fired")
        ctx.seen("failpoint_lines", extra["fired_at"])
    if case["prog"].get("runner") == "ado":
        ctx.count("runs_through_ado")
    ctx.count("clean_hooks_raised", sum(1 for st in run.state.values() if st.clean_raised))
    contexts = judge(run, ctx, case, extra)
    ctx.seen("run_results", run.result)
    if contexts and len(contexts) >= 2:
        ctx.nontrivial([gen_sched.shape_sig(case["prog"]["doers"]), case["path"], case.get("fault"),
                        extra.get("fired_at"), sorted(contexts)])
        ctx.sample({"path": case["path"], "fault": case.get("fault"), "failpoint": extra or None,
                    "shape": gen_sched.shape_sig(case["prog"]["doers"]), "result": run.result,
                    "words": {d: " ".join(k if k != "recur" else "r" for (_, k, _) in evs)
                              for d, evs in sched.life_events(run).items()}})
