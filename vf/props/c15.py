"""C15 - server-sent events are delivered exactly, whatever the line terminators and however the bytes arrive.

Monitor shape: reference model in lock-step.  A LOGICAL event stream (list of lines) is interpreted by the independent
WHATWG interpreter `vf.models.sse`; the same stream is written with a terminator chosen per line (CRLF / LF / CR), put in
an HTTP response (close-delimited body, or chunked with arbitrary chunk boundaries), and fed to a fresh real
`clienting.Respondent` whole and fragmented.  After the last byte (and `close()` for the close-delimited form)
`Respondent.events` (id, name, data of each, in order), `.leid` and `.retry` must equal the model's.
Violation keys (mechanisms):
  sse:crlf-split-across-reads          a stream that is delivered right in one piece is delivered wrong when a read or a
                                       chunk ends between the CR and the LF of one CRLF terminator
  sse:mixed-terminators-in-one-buffer  a stream using more than one terminator kind is delivered wrong even in one piece
  sse:<events|leid|retry>-mismatch:<plain|chunked>     anything else
  (the first two labels are only used while vf.mon.http_parse.line_probe observes that behaviour in the tree's parseLine)
  sse:escape:<Exc>:<hio function>      parse() raised
Not judged (counted only): an event whose data is one empty `data` line (the spec dispatches it with data ''), and
`retry` values that are not ASCII digits only (the spec ignores them); the statement names neither.
"""
import random

from vf import gen_http as G
from vf.models import sse
from vf.mon import http_parse as H

ID = "C15"
LEVEL = "exploration"
TECHNIQUE = "lock-step reference model (WHATWG event-stream interpreter) against the real Respondent/EventSource under generated terminators, chunkings and fragmentations"
RULE = ("seeded logical streams of 1-6 blocks (id incl. empty reset, event, 0-3 data lines, retry, comments, unknown and "
        "colon-less fields, UTF-8 values, extra blank lines), always ending in a blank line; terminators uniform CRLF / LF / CR "
        "or chosen per line; delivered close-delimited (whole, every 2-piece split, 1-byte reads, all CR|LF cuts, random cuts) "
        "and chunked under several chunkings (incl. one byte per chunk and boundaries at every CR|LF) each whole, bytewise "
        "and randomly cut; plus a fixed schedule of 4 (quick) / 8 (thorough) BIG streams of 72-200 KiB of short events delivered "
        "in one read, in reads and chunks larger than 64 KiB, as one chunk, and in small reads/chunks. Non-trivial = the model dispatches >= 1 event and the stream has >= 2 field kinds; distinct = by "
        "(terminator sequence class, field-kind sequence, delivery kinds).")
ASSUMPTIONS = [
    "streams are valid UTF-8 without BOM and without NUL in ids; they end with a blank line",
    "a CR-terminated line is never followed by an empty LF-terminated line (those bytes are one CRLF)",
    "expected values come from the WHATWG interpretation of the logical stream; id None and '' are the same 'no id'; an "
    "unset retry leaves the Respondent default (100)",
    "events with a single empty data line and non-digit retry values are outside the judged workload (observed only)",
]
LEVEL_TEXT = ("Each generated stream is interpreted by the model and by the real client under every listed delivery; the "
              "2-piece splits of the close-delimited form are complete per stream, other deliveries sampled.")
LEVEL_NOTE = "trusted: vf/models/sse.py (two independent entry points cross-checked on every case), vf.gen_http chunk encoder"
NSHARDS = {"quick": 16, "thorough": 16}
BUDGET_S = {"quick": 25, "thorough": 420}
REQUIRE = {"deliveries": 20000, "deliveries_plain": 8000, "deliveries_chunked": 2000, "events_expected": 300,
           "streams_uniform_crlf": 20, "streams_uniform_lf": 20, "streams_uniform_cr": 20, "streams_mixed": 40,
           "deliveries_with_read_boundary_inside_crlf": 500, "model_crosschecks": 200,
           "big_streams": 4, "deliveries_big_buffer": 32, "delivery:big-plain-one-read": 4, "delivery:big-chunked-one-chunk": 4}
EXHAUSTIVE = {"quick": "for every generated stream: all partitions of the close-delimited response into two reads",
              "thorough": "for every generated stream: all 2-read partitions of the close-delimited response and of its first chunked form"}

TEXTS = ["x", "hello world", "a:b", " lead", "  two", "{\"k\": 1}", "héllo", "日本語", "\U0001f600", "", "data: nested",
         "\ttab", "trail ", ":colon-first", "0", "line with many words in it to be a little longer than the rest"]
IDS = ["1", "42", "abc", "", "é-7", "id with blanks", "0"]
NAMES = ["update", "message", "x", "", "add", "über"]
RETRY_OK = ["0", "1000", "250", "007", "99999", "1"]
RETRY_BAD = ["+5", "-5", "1_0", " 7", "1.5", "abc", "５", "7 "]


def gen_stream(rng, bad_retry=False, nblocks=None, style=None, avoid_empty=False):
    lines = []
    for _ in range(rng.randint(1, 6) if nblocks is None else nblocks):
        fields = []
        if rng.random() < 0.3:
            fields.append(":" + rng.choice(["", " keepalive", "comment: x", ":"]))
        if rng.random() < 0.4:
            v = rng.choice(IDS)
            fields.append("id" if (v == "" and rng.random() < 0.5) else "id" + rng.choice([":", ": "]) + v)
        if rng.random() < 0.4:
            fields.append("event" + rng.choice([":", ": "]) + rng.choice(NAMES))
        if rng.random() < 0.25:
            fields.append("retry" + rng.choice([":", ": "]) + rng.choice(RETRY_BAD if bad_retry and rng.random() < 0.7 else RETRY_OK))
        vals = [rng.choice(TEXTS) for _ in range(rng.choice([0, 1, 1, 1, 2, 3]))]
        if avoid_empty and vals == [""]:
            vals = ["x"]
        for v in vals:
            fields.append("data" if (v == "" and rng.random() < 0.3) else "data" + rng.choice([":", ": "]) + v)
        if rng.random() < 0.15:
            fields.append(rng.choice(["foo: bar", "Data: upper", "datum", " data: x", "id2:3"]))
        rng.shuffle(fields)
        lines += fields + [""]
        if rng.random() < 0.15:
            lines.append("")
    style = style or rng.choice(["crlf", "lf", "cr", "mixed", "mixed"])
    out = []
    for t in lines:
        term = style if style != "mixed" else rng.choice(["crlf", "lf", "cr"])
        if out and out[-1][1] == "cr" and t == "" and term == "lf":
            term = rng.choice(["cr", "crlf"])
        out.append([t, term])
    return out


def head(chunked, version):
    hs = ["HTTP/%s 200 OK" % version, "Content-Type: text/event-stream", "Cache-Control: no-cache"]
    if chunked:
        hs.append("Transfer-Encoding: chunked")
    return ("\r\n".join(hs) + "\r\n\r\n").encode("latin-1")


def build(tlines, chunking, version="1.1"):
    """response bytes and the offset where the payload starts; chunking None = close-delimited, else cut offsets in the payload"""
    payload = sse.encode(tlines)
    if chunking is None:
        h = head(False, version)
        return h + payload, len(h)
    h = head(True, "1.1")
    chunks = [["%x" % len(p), [], G.b2s(p)] for p in G.pieces(payload, chunking) if p]
    return h + G.chunk_encode(chunks, ["0", []], []), len(h)


# fixed (seed independent) schedule of BIG streams: many short events, more than MAX_LINE_SIZE (64 KiB) buffered at once
# (hio's line search is quadratic in the buffered size for LF / CR streams, so the largest ones are CRLF or mixed)
BIG = [(72, "lf"), (200, "crlf"), (120, "mixed"), (80, "cr"), (180, "mixed"), (90, "crlf"), (100, "cr"), (150, "lf")]


def big_stream(spec):
    rng = random.Random(f"C15:big:{spec['k']}")
    tl = []
    while len(sse.encode(tl)) < spec["kib"] * 1024:
        more = gen_stream(rng, False, nblocks=400, style=spec["style"], avoid_empty=True)
        if tl and tl[-1][1] == "cr" and more[0] == ["", "lf"]:
            more[0][1] = "crlf"
        tl += more
    return tl


def cases(tier, seed, shard, nshards):
    for k, (kib, style) in enumerate(BIG if tier != "quick" else BIG[:4]):
        if k % nshards == shard:
            yield {"kind": "big", "k": k, "kib": kib, "style": style}
    rng = random.Random(f"{seed}:C15:{shard}")
    ncases = (640 if tier == "quick" else 16000) // nshards
    for i in range(ncases):
        bad_retry = rng.random() < 0.04
        tl = gen_stream(rng, bad_retry)
        payload = sse.encode(tl)
        n = len(payload)
        version = rng.choice(["1.1", "1.1", "1.0"])
        plain, off = build(tl, None, version)
        inner = [c for c in G.crlf_cuts(payload)]
        chunkings = [G.random_cuts(rng, n, rng.choice([1, 2, 3, 5, 9])) for _ in range(3 if tier == "quick" else 6)]
        if inner:
            chunkings.append(sorted(set(rng.sample(inner, rng.randint(1, len(inner)))) | set(G.random_cuts(rng, n, rng.randint(0, 3)))))
        prand = [G.random_cuts(rng, len(plain), rng.choice([2, 3, 5, 9, 17])) for _ in range(4)]
        crand = []
        for ch in chunkings:
            m = len(build(tl, ch)[0])
            crand.append([G.random_cuts(rng, m, rng.choice([2, 4, 9, 33])) for _ in range(2)])
        yield {"lines": tl, "version": version, "bad_retry": bad_retry, "chunkings": chunkings, "plain_rand": prand,
               "chunked_rand": crand, "chunked_two_split": tier != "quick" or n < 250}


def norm(events):
    return [[e.get("id") or "", e.get("name"), e.get("data")] for e in events]


def run_big(case, ctx):
    """> 64 KiB of short events buffered at once: one read, one chunk, reads/chunks larger than 64 KiB"""
    tl = big_stream(case)
    payload = sse.encode(tl)
    exp = sse.interpret_lines([t for t, _ in tl])
    if sse.ambiguous(tl) or sse.interpret_bytes(payload) != exp:
        raise AssertionError("big stream: generator/model self-check failed")
    ctx.count("model_crosschecks")
    want = {"events": norm(exp["events"]), "leid": exp["leid"] or "", "retry": exp["retry"] if exp["retry"] is not None else 100}
    n = len(payload)
    ctx.count("big_streams")
    ctx.count("big_stream_bytes", n)
    ctx.count("events_expected", len(exp["events"]))
    big = 65536 + 1000
    deliveries = []
    plain, off = build(tl, None, "1.1")
    deliveries.append(("big-plain-one-read", plain, [], None))
    deliveries.append(("big-plain-reads-over-64KiB", plain, list(range(off + big, len(plain), big)), None))
    deliveries.append(("big-plain-head-then-all", plain, [off], None))
    deliveries.append(("big-plain-4KiB-reads", plain, list(range(4096, len(plain), 4096)), None))
    one, off1 = build(tl, [])
    deliveries.append(("big-chunked-one-chunk", one, [], []))
    ch = list(range(big, n, big))
    many, off2 = build(tl, ch)
    deliveries.append(("big-chunked-chunks-over-64KiB", many, [], ch))
    deliveries.append(("big-chunked-chunks-over-64KiB-8KiB-reads", many, list(range(8192, len(many), 8192)), ch))
    small = list(range(3000, n, 3000))
    sm, off3 = build(tl, small)
    deliveries.append(("big-chunked-3KB-chunks-one-read", sm, [], small))
    bad = set()
    for family, data, cuts, chunking in deliveries:
        res = H.feed("response", G.pieces(data, cuts), chunking is None, "GET")
        ctx.count("deliveries")
        ctx.count("deliveries_big_buffer")
        ctx.count("deliveries_plain" if chunking is None else "deliveries_chunked")
        ctx.count("delivery:" + family)
        got = {"events": norm(res["events"]), "leid": res["leid"] or "", "retry": res["retry"]}
        ctx.count("events_observed", len(got["events"]))
        what = "escape" if res["raised"] else next((k for k in ("events", "leid", "retry") if got[k] != want[k]), None)
        if what is None and not res["msgs"] and not res["open"]:
            what = "response-not-parsed"
        if what and what not in bad:
            bad.add(what)
            errs = [m.get("error") for m in res["msgs"] if m.get("errored")]
            ctx.violation(f"sse:big-buffer:{what}",
                          f"{family}: {n} bytes of short events ({len(want['events'])} events): got {len(got['events'])} events, "
                          f"leid={got['leid']!r} retry={got['retry']} raised={res['raised']} errored={errs}; expected leid="
                          f"{want['leid']!r} retry={want['retry']}; first differing event index="
                          f"{next((i for i, (a, b) in enumerate(zip(got['events'], want['events'])) if a != b), min(len(got['events']), len(want['events'])))}")
    ctx.nontrivial(["big", case["k"], case["kib"], case["style"]])
    ctx.seen("stream_shapes", ["big", case["k"]])
    if not bad:
        ctx.sample({"big_stream_bytes": n, "style": case["style"], "events": len(want["events"]), "deliveries": [d[0] for d in deliveries]})


def run_case(case, ctx):
    if case.get("kind") == "big":
        return run_big(case, ctx)
    tl = case["lines"]
    logical = [t for t, _ in tl]
    payload = sse.encode(tl)
    exp = sse.interpret_lines(logical)
    if sse.ambiguous(tl):
        raise AssertionError("generator produced a CR + empty-LF sequence")
    if sse.interpret_bytes(payload) != exp:
        raise AssertionError(f"reference model disagrees with itself: lines={exp} bytes={sse.interpret_bytes(payload)}")
    ctx.count("model_crosschecks")
    want = {"events": norm(exp["events"]), "leid": exp["leid"] or "", "retry": exp["retry"] if exp["retry"] is not None else 100}
    terms = {t for _, t in tl}
    mixed = len(terms) > 1
    ctx.count("streams_mixed" if mixed else "streams_uniform_" + next(iter(terms)))
    judged = True
    if any(e["data"] == "" for e in exp["events"]):
        judged = False
        ctx.count("streams_with_single_empty_data_line(observed-only)")
    if case["bad_retry"]:
        judged = False
        ctx.count("streams_with_non_digit_retry(observed-only)")
    ctx.count("events_expected", len(exp["events"]))
    inner = set(G.crlf_cuts(payload))       # payload offsets between a CR and its LF
    reported = set()
    state = {"baseline_ok": None}

    def deliver(data, off, cuts, chunking, family):
        """feed one delivery, compare; returns True when it matched"""
        close = chunking is None
        res = H.feed("response", G.pieces(data, cuts), close, "GET")
        ctx.count("deliveries")
        ctx.count("deliveries_plain" if close else "deliveries_chunked")
        ctx.count("delivery:" + family)
        if close:
            split_inside = any((c - off) in inner for c in cuts)
        else:
            split_inside = any(c in inner for c in chunking)
        if split_inside:
            ctx.count("deliveries_with_read_boundary_inside_crlf")
        got = {"events": norm(res["events"]), "leid": res["leid"] or "", "retry": res["retry"]}
        ctx.count("events_observed", len(got["events"]))
        if not judged:
            if got != want:
                ctx.count("observed-only_difference:" + ("retry" if case["bad_retry"] else "empty-data-event"))
            return True
        what = None
        if res["raised"]:
            what = "escape"
        else:
            for k in ("events", "leid", "retry"):
                if got[k] != want[k]:
                    what = k
                    break
        if what is None:
            if not res["msgs"] and not res["open"]:
                what = "response-not-parsed"
            else:
                return True
        probe = H.line_probe()      # labels only: what the tree's line splitter is observed to do
        if split_inside and state["baseline_ok"] and probe["crsplit"]:
            key = "sse:crlf-split-across-reads"
        elif mixed and probe["precedence"]:
            key = "sse:mixed-terminators-in-one-buffer"
        elif what == "escape":
            key = f"sse:escape:{res['raised'][0]}:{res['raised'][1]}"
        else:
            key = f"sse:{what}-mismatch:{'plain' if close else 'chunked'}"
        if key not in reported:
            reported.add(key)
            ctx.violation(key, f"{family} cuts={cuts[:10]} chunking={chunking}: got {what}="
                               f"{res['raised'] if what == 'escape' else got.get(what)!r} expected {want.get(what)!r}; "
                               f"payload={payload[:300]!r}")
        return False

    # close-delimited deliveries; the whole one first (it is the baseline of the classification)
    plain, off = build(tl, None, case["version"])
    state["baseline_ok"] = deliver(plain, off, [], None, "plain-whole")
    for c in range(1, len(plain)):
        deliver(plain, off, [c], None, "plain-two-split")
    deliver(plain, off, G.all_one_byte(len(plain)), None, "plain-one-byte")
    cl = [c + off for c in sorted(inner)]
    if cl:
        deliver(plain, off, cl, None, "plain-all-crlf-cuts")
    for cuts in case["plain_rand"]:
        deliver(plain, off, cuts, None, "plain-random")
    # chunked deliveries
    n = len(payload)
    chunkings = list(case["chunkings"]) + [list(range(1, n))]
    if inner:
        chunkings.append(sorted(inner))
    for j, ch in enumerate(chunkings):
        data, off2 = build(tl, ch)
        deliver(data, off2, [], ch, "chunked-whole")
        deliver(data, off2, G.all_one_byte(len(data)), ch, "chunked-one-byte")
        if j < len(case["chunked_rand"]):
            for cuts in case["chunked_rand"][j]:
                deliver(data, off2, cuts, ch, "chunked-random")
        if j == 0 and case["chunked_two_split"]:
            for c in range(1, len(data)):
                deliver(data, off2, [c], ch, "chunked-two-split")

    kinds = [t.split(":")[0] if t else "" for t in logical]
    sig = ["mixed" if mixed else next(iter(terms)), kinds, len(exp["events"])]
    ctx.seen("stream_shapes", sig)
    ctx.seen("terminator_sequences", [t for _, t in tl])
    if judged and exp["events"] and len(set(kinds)) >= 3:
        ctx.nontrivial(sig)
    if judged and len(exp["events"]) >= 2 and mixed and not reported:
        ctx.sample({"payload": payload[:300], "expected": want, "deliveries": 2 * len(plain) + 20})
