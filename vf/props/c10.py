"""C10 - connection-level socket faults never escape servicing.

Monitor shape: fault enumeration at the socket boundary + three observations per case.

A *victim* connection and (for the server roles) a *sibling* connection run a scripted tagged echo exchange:
  Client / ClientTls      real hio client  <->  harness-owned raw echo peer
  Remoter / RemoterTls    harness-owned raw peers V (victim) and S (sibling)  <->  real hio Server / ServerTls whose
                          application echoes rxbs back (what tcp.EchoServerDoer does)
INJECTED faults: the victim's hio-side socket runs under `vf.mon.sockshim` with exactly one scripted fault: at the
n-th call of send | recv | do_handshake raise OSError(errno) for every connection-level errno of the statement, or
ssl.SSLEOFError / ssl.SSLError(SSL_ERROR_EOF) on the TLS roles.  REAL faults: the raw peer closes (FIN), resets
(SO_LINGER 0), half-closes, sends close_notify, aborts in the middle of the TLS handshake, or resets before the
server has accepted - at every round of the exchange; servicing is either `service()` or the split public service
calls in the order the repository's tests use them (sends ... receives).

Observed per case (rounds of servicing, never the clock):
  O1 escape          no exception leaves Client.service()/serviceConnect/serviceSends/serviceReceives resp.
                     Server.service()/serviceConnects/serviceSendsAllIx/serviceReceivesAllIx - during the round of the fault
                     and N_AFTER further rounds.                     key  escape:<role>:<innermost hio function>:<fault name>
  O2 marking         right after the service call in which the fault struck (real faults: within N_MARK rounds) the
                     victim is marked: `cutoff`, or `aborted` for a server-side handshake in progress.  Also accepted,
                     because the statement is silent on it: the server closed and removed the connection
                     (serviceReceivesAllIx does that for an OSError; a newer connection from the same address replaces it).
                     A client has no such way out: its flags are all its owner sees, so after the service call that took
                     the fault `cutoff` must be True (the next connect attempt may reset it).
                                                                                       key  not-cutoff:<role>:<call>:<fault name>
  O3 sibling         the sibling's echoed stream equals what it sent - it keeps sending during and after the fault.
                                                                                       key  sibling-starved:<role>:<call>
The fault name comes from the escaping exception itself (errno symbol, SSLEOFError, SSL_ERROR_EOF, else type name),
so an injected and a kernel-made EPIPE that leave through the same function share one key.
"""
import errno
import random
import ssl

from hio.base import tyming
from hio.core import tcp
from hio.core.tcp import serving

from vf.mon import sockshim as sh
from vf.mon import tcpkit as tk

ID = "C10"
LEVEL = "fault_enumeration"
ERRNOS = ["ECONNRESET", "EPIPE", "ENETRESET", "ENETUNREACH", "EHOSTUNREACH", "ENETDOWN", "EHOSTDOWN", "ETIMEDOUT",
          "ECONNREFUSED"]
SSL_FAULTS = [["ssleof"], ["sslerr", "EOF"]]
ROLES = ["Client", "ClientTls", "Remoter", "RemoterTls"]
KMAX = {"quick": 3, "thorough": 12}
PMAX = {"quick": 6, "thorough": 12}
N_AFTER = 6      # service rounds that must stay silent after the fault struck
N_MARK = 12      # real faults: rounds within which the victim must be seen marked
SIB_ROUNDS = 60  # extra rounds the sibling gets to finish its exchange before it is called starved

RULE = ("Enumerated, not sampled: role {Client, ClientTls, Remoter, RemoterTls} x call {send, recv, +do_handshake on TLS} x fault "
        "{9 errnos of the statement, +SSLEOFError, +SSLError(SSL_ERROR_EOF) on TLS} x call index 0..K (x victim accepted "
        "before/after the sibling on the server roles; the fault repeats on every later call of that kind - a dead connection "
        "keeps failing - and, thorough tier, also as a one-shot), one faulted connection per case; plus real peer faults {close, RST, half-close, "
        "close_notify, handshake abort by close/RST after h handshake steps, close/RST before accept, RST followed 0/1/3 rounds later "
        "by a new connection from the SAME (host, port) while the stale entry is still listed} x round 0..P of the exchange x "
        "{service(), split service calls}.  The seed only varies message sizes.  Non-trivial = the scripted fault actually fired "
        "on the victim socket, resp. the hio side of a real fault saw an error/EOF from its socket or raised; distinct = by "
        "(role, call, fault, index, order) resp. (role, fault kind, round, mode, order).")
ASSUMPTIONS = [
    "an injected errno is raised by the victim socket's call without disturbing the kernel connection (the socket stays usable)",
    "real faults are whatever Linux loopback TCP and OpenSSL 3 make of close()/SO_LINGER 0/shutdown() at that round",
    "closing-and-removing (or replacing) a server connection is accepted as 'marked' because the statement does not say which "
    "flag a connection has that no longer exists; a client must show cutoff after the service call that took the fault",
    "the sibling's raw peer and the echo loop (EchoServerDoer's three lines) are harness code and correct",
]
TECHNIQUE = "fault injection at the socket shim, enumerated completely, + real peer faults; trace oracle over service rounds"
LEVEL_TEXT = ("The listed errno x call x role x index space is enumerated completely up to index K and every case is judged by the "
              "three observations; real close/RST/half-close/handshake-abort faults are applied at every round of the exchange. "
              "Indices beyond K, errnos outside the list and faults on two connections at once are not covered.")
LEVEL_NOTE = "trusted: sockshim fault raising (20 lines), the raw sibling peer and echo loop, Linux loopback, OpenSSL"
NSHARDS = {"quick": 12, "thorough": 16}
TIMEOUT_S = {"quick": 240, "thorough": 1500}


def is_tls(role):
    return role.endswith("Tls")


def is_server(role):
    return role.startswith("Remoter")


# --------------------------------------------------------------------------
# enumeration
# --------------------------------------------------------------------------
def enum_inject(tier):
    K = KMAX[tier]
    for role in ROLES:
        calls = ["send", "recv"] + (["handshake"] if is_tls(role) else [])
        faults = [["errno", e] for e in ERRNOS] + (SSL_FAULTS if is_tls(role) else [])
        for call in calls:
            for fault in faults:
                for index in range(K + 1):
                    for order in (["victim-first", "sibling-first"] if is_server(role) else [None]):
                        # sticky: the dead connection keeps failing on that call; one-shot (thorough only): it fails once
                        for sticky in ([True] if tier == "quick" else [True, False]):
                            yield {"kind": "inject", "role": role, "call": call, "fault": fault, "index": index,
                                   "order": order, "sticky": sticky}


def enum_real(tier):
    P = PMAX[tier]
    for role in ROLES:
        kinds = ["close", "rst", "half"] + (["closenotify"] if is_tls(role) else [])
        orders = ["victim-first", "sibling-first"] if is_server(role) else [None]
        for order in orders:
            for mode in ("service", "split"):
                for fault in kinds:
                    for point in range(P + 1):
                        yield {"kind": "real", "role": role, "fault": fault, "point": point, "mode": mode, "order": order}
                if is_server(role):
                    for fault in ("rst-before-accept", "close-before-accept"):
                        yield {"kind": "real", "role": role, "fault": fault, "point": -1, "mode": mode, "order": order}
                    # peer dies with RST, then the SAME (host, port) connects again `delay` rounds later while the stale
                    # entry is still in .ixes (a crashed host coming back): the server must replace it silently
                    for fault in ("rst-reconnect",):
                        for delay in (0, 1, 3):
                            for point in range(0, P + 1, 2):
                                yield {"kind": "real", "role": role, "fault": fault, "point": point, "mode": mode,
                                       "order": order, "delay": delay}
            if is_tls(role):
                for fault in ("hs-close", "hs-rst"):
                    for steps in range(0, 3):  # the raw peer performs this many do_handshake steps, then aborts
                        yield {"kind": "real", "role": role, "fault": fault, "point": steps, "mode": "service", "order": order}


N_INJECT = {t: sum(1 for _ in enum_inject(t)) for t in ("quick", "thorough")}
N_REAL = {t: sum(1 for _ in enum_real(t)) for t in ("quick", "thorough")}
REQUIRE = {
    "quick": {"faults_fired": N_INJECT["quick"], "real_faults_applied": N_REAL["quick"], "real_faults_noticed": 150,
              "sibling_exchanges_completed": 300, "rounds_serviced_after_fault": 3000, "same_port_reconnects_completed": 80,
              "same_port_reconnects_while_stale_entry_listed": 80, "client_handshake_faults_marked_cutoff": 40},
    "thorough": {"faults_fired": N_INJECT["thorough"], "real_faults_applied": N_REAL["thorough"], "real_faults_noticed": 300,
                 "sibling_exchanges_completed": 1000, "rounds_serviced_after_fault": 12000, "same_port_reconnects_completed": 150,
                 "same_port_reconnects_while_stale_entry_listed": 150, "client_handshake_faults_marked_cutoff": 150},
}
EXHAUSTIVE = {
    "quick": f"role x call x fault x index 0..{KMAX['quick']} (x sibling order): {N_INJECT['quick']} injected-fault cases, each fault "
             f"confirmed fired; {N_REAL['quick']} real-fault cases (kind x round 0..{PMAX['quick']} x mode x order)",
    "thorough": f"role x call x fault x index 0..{KMAX['thorough']} (x sibling order): {N_INJECT['thorough']} injected-fault cases, each "
                f"fault confirmed fired; {N_REAL['thorough']} real-fault cases (kind x round 0..{PMAX['thorough']} x mode x order)",
}


def cases(tier, seed, shard, nshards):
    rng = random.Random(f"{seed}:C10:{shard}")
    i = 0
    for gen in (enum_inject, enum_real):
        for case in gen(tier):
            if i % nshards == shard:
                case["mseed"] = rng.getrandbits(24)
                yield case
            i += 1


# --------------------------------------------------------------------------
# naming
# --------------------------------------------------------------------------
def fault_name(ex):
    if isinstance(ex, ssl.SSLEOFError):
        return "SSLEOFError"
    if isinstance(ex, ssl.SSLError):
        if ex.errno == ssl.SSL_ERROR_EOF:
            return "SSL_ERROR_EOF"
        return type(ex).__name__ + (":" + str(ex.reason) if getattr(ex, "reason", None) else "")
    if isinstance(ex, OSError) and ex.errno:
        return errno.errorcode.get(ex.errno, str(ex.errno))
    return type(ex).__name__


def action_name(action):
    return fault_name(sh.make_fault(action))


CALL_OF = {"send": "send", "receive": "recv", "handshake": "handshake"}


def call_of(ex, default):
    frames = tk.hio_frames(ex.__traceback__)
    if not frames:
        return default
    fn = frames[-1][0].split(".")[-1]
    return CALL_OF.get(fn, fn)


# --------------------------------------------------------------------------
# per-shard setup: remember every Remoter the server creates (a faulted one may live for a single service call)
# --------------------------------------------------------------------------
_state = {"ports": None, "remoters": [], "orig_init": None}


def setup(ctx):
    sh.install()
    _state["ports"] = tk.Ports(ctx.shard, 1)
    if _state["orig_init"] is None:
        orig = serving.Remoter.__init__

        def init(self, *pa, **kwa):
            _state["remoters"].append(self)
            return orig(self, *pa, **kwa)
        init.__wrapped__ = orig
        _state["orig_init"] = orig
        serving.Remoter.__init__ = init


def teardown(ctx):
    if _state["orig_init"] is not None:
        serving.Remoter.__init__ = _state["orig_init"]
        _state["orig_init"] = None
    sh.uninstall()


# --------------------------------------------------------------------------
# exchange partners
# --------------------------------------------------------------------------
class Talker:
    """A raw peer that sends one tagged message per round and collects what comes back."""

    def __init__(self, peer, tag, rng):
        self.peer = peer
        self.tag = tag
        self.rng = rng
        self.n = 0
        self.sent = bytearray()

    def say(self):
        p = self.peer
        if p.ready and not p.closed and p.error is None:
            body = bytes(self.rng.choices(b"abcdefghijklmnopqrstuvwxyz", k=self.rng.choice([1, 5, 20, 200])))
            msg = b"%s%03d:%s\n" % (self.tag, self.n, body)
            self.n += 1
            p.write(msg)
            self.sent += msg

    def io(self):
        self.peer.flush()
        self.peer.drain()


class Run:
    """State of one case: what escaped, when the fault struck, what the victim looked like."""

    def __init__(self, case, ctx):
        self.case = case
        self.ctx = ctx
        self.role = case["role"]
        self.escapes = []          # (round, call, fault name, message)
        self.escape_keys = set()
        self.round = 0

    def guarded(self, fn, default_call="?"):
        self.ctx.count("service_calls")
        try:
            fn()
            return True
        except Exception as ex:
            call = call_of(ex, default_call)
            name = fault_name(ex)
            frames = tk.hio_frames(ex.__traceback__)
            self.escapes.append((self.round, call, name))
            key = f"escape:{self.role}:{call}:{name}"
            if key not in self.escape_keys:
                self.escape_keys.add(key)
                self.ctx.violation(key, f"round {self.round}: {type(ex).__name__}: {ex} left servicing of the {self.role} "
                                        f"(hio frames, outermost first: {[f'{f[0]}:{f[2]}' for f in frames[-5:]]}); case {self.describe()}")
            self.ctx.count("escapes_observed")
            return False

    def describe(self):
        c = self.case
        if c["kind"] == "inject":
            return f"inject {action_name(c['fault'])} at {c['call']} call #{c['index']} of the victim ({c['order'] or 'no sibling'})"
        return (f"real {c['fault']} at round/step {c['point']} mode={c['mode']} ({c['order'] or 'no sibling'})"
                + (f" reconnect {c['delay']} rounds later" if "delay" in c else ""))


def marked_server(server, rem, vaddr, handshake):
    """How the server side marked the victim: 'cutoff' | 'aborted' | 'removed' | None."""
    if rem is None:
        return None
    if handshake and getattr(rem, "aborted", False):
        return "aborted"
    if rem.cutoff:
        return "cutoff"
    gone = server.ixes.get(vaddr) is not rem and getattr(server, "cxes", {}).get(vaddr) is not rem
    if gone and rem.cs is None:
        return "removed"   # closed and dropped (error handler) or closed and replaced by a newer connection from that address
    return None


def marked_client(client, handshake):
    """The owner of a client has only the flags to go by (http's Client.service keys its cleanup on connector.cutoff):
    a failed handshake that leaves cutoff False looks like a client that never got anywhere."""
    if client.cutoff:
        return "cutoff"
    if handshake and getattr(client, "aborted", False):
        return "aborted"
    return None


def find_remoter(vaddr):
    for rem in _state["remoters"]:
        if rem.ca == vaddr:
            return rem
    return None


def close_notify(peer):
    try:
        peer.sock.unwrap()
    except (OSError, ValueError):
        pass
    peer.close()


def apply_real(peer, fault):
    if fault in ("close", "hs-close", "close-before-accept"):
        peer.close()
    elif fault in ("rst", "hs-rst", "rst-before-accept", "rst-reconnect"):
        peer.close(rst=True)
    elif fault == "half":
        peer.half_close()
    elif fault == "closenotify":
        close_notify(peer)


# --------------------------------------------------------------------------
# one case
# --------------------------------------------------------------------------
def run_case(case, ctx):
    cl = tk.Closer()
    _state["remoters"] = []
    server = None
    try:
        if is_server(case["role"]):
            server = run_server_case(case, ctx, cl)
        else:
            run_client_case(case, ctx, cl)
    finally:
        for holder in cl.items:
            for cx in list(getattr(holder, "cxes", {}).values()):  # Server.close() does not close handshakes in progress
                try:
                    cx.close()
                except Exception:
                    pass
        cl.close_all()
        for rem in _state["remoters"]:   # a replaced / dropped remoter is not the subject here; do not leak its fd
            try:
                if rem.cs is not None:
                    rem.close()
            except Exception:
                pass
        _state["remoters"] = []
        sh.reset()


def victim_script(case):
    if case["kind"] != "inject":
        return sh.Script(label="victim", nodelay=True)
    sc = sh.Script(label="victim", nodelay=True)
    if case.get("sticky", True):
        sc.stick(case["call"], case["index"], case["fault"])   # a failed connection keeps failing on that call
    else:
        sc.at(case["call"], case["index"], case["fault"])
    return sc


def fault_fired(sc):
    return any(a[2][0] in ("errno", "ssleof", "sslerr") for a in sc.fired)


def noticed(sc, run):
    st = sc.stats
    return bool(st.get("real_errors") or st.get("eof_reads") or run.escapes)


def run_client_case(case, ctx, cl):
    role = case["role"]
    tls = is_tls(role)
    inject = case["kind"] == "inject"
    rng = random.Random(case["mseed"])
    run = Run(case, ctx)
    ls = cl.add(tk.harness_listener())
    client = cl.add(tk.open_client(tcp, ls.getsockname()[1], tls=tls, tymth=tyming.Tymist().tymen()))
    sc = sh.register(client.cs, victim_script(case))
    peer = None
    handshake_case = (inject and case["call"] == "handshake") or (not inject and case["fault"].startswith("hs-"))
    split = case.get("mode") == "split"
    applied_round = None
    struck_round = None
    mark = None
    was_accepted = False
    nmsg = 0
    limit = (case["index"] if inject else case["point"]) + 200
    for r in range(limit):
        run.round = r
        # ---- the raw echo peer ------------------------------------------------
        if peer is None:
            try:
                s = tk.accept_from(ls, client.cs)
                if s is not None:
                    peer = cl.add(tk.RawPeer(s, tk.peer_server_ctx() if tls else None, server_side=True))
            except BlockingIOError:
                pass
        if peer is not None and not peer.closed:
            if not inject and applied_round is None:
                fault = case["fault"]
                if fault.startswith("hs-"):
                    if peer.hs_steps >= case["point"]:
                        apply_real(peer, fault)
                        applied_round = r
                elif client.connected and peer.ready and nmsg >= case["point"]:
                    peer.drain()
                    apply_real(peer, fault)
                    applied_round = r
            if not peer.closed:
                hold = inject and case["call"] == "handshake" and sc.calls["handshake"] <= case["index"]
                if not hold:
                    peer.step_handshake()
        # ---- the hio client ---------------------------------------------------
        def talk():
            nonlocal nmsg
            if client.connected and not client.cutoff:
                client.tx(b"C%03d:%s\n" % (nmsg, bytes(rng.choices(b"abcdefghij", k=rng.choice([1, 8, 100])))))
                nmsg += 1
        before = len(sc.fired)
        if split:
            ok = run.guarded(client.serviceConnect, "connect")
            talk()
            ok = run.guarded(client.serviceSends, "send") and ok
            talk()
            ok = run.guarded(client.serviceSends, "send") and ok
            ok = run.guarded(client.serviceReceives, "recv") and ok
        else:
            talk()
            ok = run.guarded(client.service, "service")
        was_accepted = was_accepted or bool(client.accepted)
        if struck_round is not None or applied_round is not None:
            ctx.count("rounds_serviced_after_fault")
        # ---- echo ----------------------------------------------------------------
        if peer is not None and not peer.closed and peer.ready:
            peer.drain()
            if peer.inb:
                peer.write(bytes(peer.inb))
                del peer.inb[:]
            peer.flush()
        # ---- the fault struck in this round? ---------------------------------------
        if inject and struck_round is None and len(sc.fired) > before and fault_fired(sc):
            struck_round = r
            ctx.count("faults_fired")
            ctx.count(f"fired_{role}_{case['call']}")
            if ok:
                mark = marked_client(client, handshake_case)
                judge_mark(run, mark, case["call"], action_name(case["fault"]))
        if not inject and applied_round is not None and mark is None and not run.escapes:
            m = marked_client(client, handshake_case)   # judged after every service call: the next connect attempt resets it
            if m:
                mark = m
                ctx.count("victim_marked_" + m)
                if handshake_case:
                    ctx.count("client_handshake_faults_marked_cutoff")
        start = struck_round if inject else applied_round
        if start is not None and r >= start + (N_AFTER if inject or mark or run.escapes else N_MARK):
            break
        if not client.connected and struck_round is None and applied_round is None:
            tk.wait_any([ls] if peer is None else [peer.sock, client.cs], 2)   # connection still being set up
        elif not inject:
            tk.wait_any([], 1)
    finish(run, ctx, case, sc, struck_round, applied_round, mark, was_accepted, None)


def judge_mark(run, mark, call, name):
    ctx = run.ctx
    if mark:
        ctx.count("victim_marked_" + mark)
        if call == "handshake" and run.role == "ClientTls":
            ctx.count("client_handshake_faults_marked_cutoff")
    else:
        ctx.violation(f"not-cutoff:{run.role}:{call}:{name}",
                      f"round {run.round}: the fault was taken without an exception but the victim connection is neither cut off "
                      f"nor aborted/removed/closed; case {run.describe()}")


def run_server_case(case, ctx, cl):
    role = case["role"]
    tls = is_tls(role)
    inject = case["kind"] == "inject"
    rng = random.Random(case["mseed"])
    run = Run(case, ctx)
    server = cl.add(tk.open_server(tcp, _state["ports"], tls=tls, tymth=tyming.Tymist().tymen()))
    sc = victim_script(case)
    sc2 = sh.Script(label="reconnected", nodelay=True)
    vaddr_box = []
    accepted_from_victim = []

    def script_for(addr):
        if vaddr_box and addr == vaddr_box[0]:
            accepted_from_victim.append(addr)
            return sc if len(accepted_from_victim) == 1 else sc2   # the same (host, port) may come back after a reset
        return None
    sh.expect_accept(server.ss, script_for)
    port = server.ha[1]
    fault = case.get("fault")
    before_accept = not inject and fault.endswith("before-accept")
    reconnect = not inject and fault.endswith("-reconnect")
    sport = tk.quiet_port(_state["ports"]) if reconnect else None   # fixed source port, so the address can be reused

    def connect_victim():
        v = cl.add(tk.connect_peer(port, tls=tls, sport=sport))
        vaddr_box.append(v.addr)
        if before_accept:
            apply_real(v, fault)
        return v
    if case["order"] == "victim-first":
        vpeer = connect_victim()
        speer = cl.add(tk.connect_peer(port, tls=tls))
    else:
        speer = cl.add(tk.connect_peer(port, tls=tls))
        vpeer = connect_victim()
    vaddr = vaddr_box[0]
    saddr = speer.addr
    victim = Talker(vpeer, b"V", rng)
    sibling = Talker(speer, b"S", rng)
    handshake_case = (inject and case["call"] == "handshake") or (not inject and fault.startswith("hs-"))
    split = case.get("mode") == "split"
    applied_round = -1 if before_accept else None
    struck_round = None
    mark = None
    npush = 0
    limit = (case["index"] if inject else max(case["point"], 0)) + 200

    extra = []        # talkers that joined later (the reconnected victim)
    v2peer = None
    v2_round = None

    def push():
        nonlocal npush
        ix = server.ixes.get(vaddr)
        if ix is not find_remoter(vaddr):
            return    # only the original victim connection gets server-initiated data, not its successor
        if ix is not None and not ix.cutoff and ix.cs is not None:
            ix.tx(b"P%03d\n" % npush)
            npush += 1

    def echo():
        for ix in list(server.ixes.values()):
            if ix.rxbs:
                ix.tx(bytes(ix.rxbs))
                ix.clearRxbs()

    def one_round(r, talk=True):
        run.round = r
        before = len(sc.fired)
        if talk:
            sibling.say()
            victim.say()
            for t in extra:
                t.say()
        sibling.io()
        victim.io()
        for t in extra:
            t.io()
        if split:
            ok = run.guarded(server.serviceConnects, "connect")
            push()
            ok = run.guarded(server.serviceSendsAllIx, "send") and ok
            push()
            ok = run.guarded(server.serviceSendsAllIx, "send") and ok
            ok = run.guarded(server.serviceReceivesAllIx, "recv") and ok
        else:
            if not inject:
                push()
            ok = run.guarded(server.service, "service")
        echo()
        sibling.io()
        victim.io()
        for t in extra:
            t.io()
        return ok, len(sc.fired) > before

    for r in range(limit):
        # ---- raw peers: handshakes, the real fault --------------------------------
        speer.step_handshake()
        if not vpeer.closed:
            if not inject and applied_round is None:
                if fault.startswith("hs-"):
                    if vpeer.hs_steps >= case["point"]:
                        apply_real(vpeer, fault)
                        applied_round = r
                elif vpeer.ready and vaddr in server.ixes and victim.n >= case["point"]:
                    vpeer.drain()
                    apply_real(vpeer, fault)
                    applied_round = r
            if not vpeer.closed:
                hold = inject and case["call"] == "handshake" and sc.calls["handshake"] <= case["index"]
                if not hold:
                    vpeer.step_handshake()
        if reconnect and applied_round is not None and v2peer is None and r >= applied_round + case["delay"]:
            v2peer = cl.add(tk.connect_peer(port, tls=tls, sport=sport))   # same (host, port) as the reset connection
            v2_round = r
            extra.append(Talker(v2peer, b"W", rng))
            ctx.count("same_port_reconnects")
            if vaddr in server.ixes:
                ctx.count("same_port_reconnects_while_stale_entry_listed")
        if v2peer is not None:
            v2peer.step_handshake()
        ok, fired_now = one_round(r)
        if struck_round is not None or applied_round is not None:
            ctx.count("rounds_serviced_after_fault")
        rem = find_remoter(vaddr)
        if inject and struck_round is None and fired_now and fault_fired(sc):
            struck_round = r
            ctx.count("faults_fired")
            ctx.count(f"fired_{role}_{case['call']}")
            if ok:
                mark = marked_server(server, rem, vaddr, handshake_case)
                judge_mark(run, mark, case["call"], action_name(case["fault"]))
        if not inject and applied_round is not None and mark is None and not run.escapes and rem is not None:
            mark = marked_server(server, rem, vaddr, handshake_case)
            if mark:
                ctx.count("victim_marked_" + mark)
        start = struck_round if inject else applied_round
        if reconnect and (v2_round is None or r < v2_round + N_AFTER):
            start = None   # keep going until the successor connection has been serviced for a while
        if start is not None and r >= max(start, 0) + (N_AFTER if inject or mark or run.escapes or rem is None else N_MARK):
            break
        if vaddr not in server.ixes and struck_round is None and applied_round is None:
            tk.wait_any([vpeer.sock, speer.sock], 2)   # connection still being set up
        elif not inject:
            tk.wait_any([], 1)

    # ---- the sibling must be able to finish its exchange ---------------------------
    last = None
    idle = 0
    r0 = run.round + 1
    def complete(t):
        return t.peer.ready and t.n > 0 and bytes(t.peer.inb) == bytes(t.sent) and not t.peer.out

    for r in range(r0, r0 + SIB_ROUNDS):
        if complete(sibling) and all(complete(t) or t.n == 0 for t in extra) and all(t.peer.ready for t in extra):
            break
        speer.step_handshake()
        if v2peer is not None:
            v2peer.step_handshake()
        one_round(r, talk=any(t.n == 0 for t in extra))
        sig = (len(speer.inb), len(speer.out), speer.ready, [(len(t.peer.inb), t.peer.ready) for t in extra])
        if sig == last:
            idle += 1
            tk.wait_any([speer.sock] + [t.peer.sock for t in extra], 10)
        else:
            idle = 0
        last = sig
    sib_ok = complete(sibling) or (speer.ready and sibling.n > 0 and bytes(speer.inb) == bytes(sibling.sent))
    if reconnect:
        w = extra[0] if extra else None
        if w is not None and complete(w):
            ctx.count("same_port_reconnects_completed")
            ctx.count("reconnected_messages_echoed", w.n)
        else:
            calls = sorted({e[1] for e in run.escapes}) or ["none"]
            ctx.violation(f"reconnect-starved:{role}:{'+'.join(calls)}",
                          f"the peer came back from the same (host, port) {vaddr} after its reset, "
                          f"{'sent %d B and got %d B echoed' % (len(w.sent), len(w.peer.inb)) if w else 'but was never connected'} "
                          f"(handshake done={w.peer.ready if w else None}, peer error {w.peer.error if w else None!r}); "
                          f"escapes so far: {run.escapes[:4]}; case {run.describe()}")
    finish(run, ctx, case, sc, struck_round, applied_round, mark, find_remoter(vaddr) is not None,
           (sib_ok, sibling, speer, saddr, server))
    return server


def finish(run, ctx, case, sc, struck_round, applied_round, mark, victim_existed, sib):
    role = case["role"]
    inject = case["kind"] == "inject"
    if inject:
        if struck_round is None:
            ctx.count("fault_not_reached")
    else:
        ctx.count("real_faults_applied" if applied_round is not None else "real_fault_not_applied")
        if applied_round is not None and noticed(sc, run):
            ctx.count("real_faults_noticed")
        for entry in sc.log:
            if isinstance(entry[4], str) and entry[4] not in ("done", "BlockingIOError", "SSLWantReadError", "SSLWantWriteError"):
                ctx.seen("real_socket_errors", [role, entry[0], entry[4]])
                ctx.count("real_error_" + entry[4])
        if sc.stats.get("eof_reads"):
            ctx.count("real_eof_reads", sc.stats["eof_reads"])
        if applied_round is not None and victim_existed and not run.escapes and mark is None and noticed(sc, run):
            ctx.violation(f"not-cutoff:{role}:real-{case['fault']}",
                          f"{N_MARK} service rounds after the peer's {case['fault']} the victim is still neither cut off nor "
                          f"aborted/removed/closed although its socket reported the failure; case {run.describe()}",
                          trace=[list(x) for x in sc.log[-30:]])
    if sib is not None:
        sib_ok, sibling, speer, saddr, server = sib
        if sib_ok:
            ctx.count("sibling_exchanges_completed")
            ctx.count("sibling_messages_echoed", sibling.n)
        else:
            calls = sorted({e[1] for e in run.escapes}) or ["none"]
            six = server.ixes.get(saddr)
            ctx.violation(f"sibling-starved:{role}:{'+'.join(calls)}",
                          f"the sibling connection on the same server sent {len(sibling.sent)} B in {sibling.n} tagged messages and "
                          f"got {len(speer.inb)} B echoed after {SIB_ROUNDS} further service rounds (peer error {speer.error!r}, "
                          f"sibling remoter txbs={len(six.txbs) if six else None} B); escapes so far: {run.escapes[:4]}; "
                          f"case {run.describe()}")
    fired = struck_round is not None if inject else (applied_round is not None and noticed(sc, run))
    if fired:
        if inject:
            ctx.nontrivial(["inject", role, case["call"], case["fault"], case["index"], case["order"], case.get("sticky", True)])
        else:
            ctx.nontrivial(["real", role, case["fault"], case["point"], case["mode"], case["order"], case.get("delay")])
    if run.escapes:
        ctx.count("cases_with_escape")
    ctx.sample({"case": case, "struck_round": struck_round, "applied_round": applied_round, "victim_marked": mark,
                "escapes": run.escapes[:3], "shim_calls": sc.calls, "shim_log_tail": [list(x) for x in sc.log[-6:]],
                "sibling_ok": sib[0] if sib else None})
