"""C27 - Namer stays a one-to-one bijection; rejected / no-change operations change nothing.

Monitor shape: invariant at a hook.  Every public mutating call of the real
`hio.help.naming.Namer` is wrapped (at class level, so calls from inside hio
itself, e.g. __init__ -> addNameAddr, are seen too); the wrapper snapshots both
maps before the call and checks in a `finally` - i.e. also when the call raises:
  I1  nameByAddr == inverse(addrByName), equal sizes (bijection)
  I2  call returned False or raised  =>  both maps equal the pre-call snapshot
  I3  (reference model, two dicts) return value / raise and the resulting maps equal the model's
Workload: operation histories over a 3x3 (+empty, +None) domain, exhaustive to a
bounded length, random beyond.
"""
import itertools
import random

from hio.help import naming
from hio import hioing

ID = "C27"
LEVEL = "exploration"
RULE = ("histories of Namer ops (add/rem/changeAddr/changeName/clear) over names {a,ab,''} x addrs {x,xy,''} (substring-related on purpose) "
        "(+None for rem): every history up to length 3 (quick) / 4 (thorough) enumerated, plus random histories "
        "of length <= 60 over a 4x4 domain of substring-related strings; after every op the dicts returned by the addrByName/nameByAddr properties are edited by the caller and the registry must be unaffected. Non-trivial = the history contains at least one rejected-or-no-change "
        "op AND at least one op that changed the maps; distinct = by the sequence of (op kind, outcome) plus final map.")
ASSUMPTIONS = ["names/addresses are hashable strings; Namer is used single-threaded",
               "the reference model encodes the return values documented in the method docstrings"]
NSHARDS = {"quick": 8, "thorough": 16}
REQUIRE = {"unhashable_argument_ops": 800, "returned_map_edits_probed": 5000, "constructor_cases": 500, "constructor_conflicts_rejected": 200, "hook_evaluations": 1000, "rejected_ops": 100, "changing_ops": 100, "raised_ops": 50}
EXHAUSTIVE = {"quick": "all op histories of length <= 3 over the 44-op alphabet",
              "thorough": "all op histories of length <= 4 over the 44-op alphabet"}

# values are substring-related on purpose: a membership test on strings (`addr in other_addr`) must not pass for equality
N3 = ["a", "ab", ""]
A3 = ["x", "xy", ""]


def alphabet(names, addrs):
    ops = []
    for n in names:
        for a in addrs:
            ops.append(["add", n, a])
            ops.append(["chaddr", n, a])
            ops.append(["chname", n, a])
    for n in names + [None]:
        for a in addrs + [None]:
            ops.append(["rem", n, a])
    ops.append(["clear", None, None])
    return ops


ALPHA3 = alphabet(N3, A3)


def cases(tier, seed, shard, nshards):
    maxlen = 3 if tier == "quick" else 4
    i = 0
    for ln in range(1, maxlen + 1):
        for hist in itertools.product(range(len(ALPHA3)), repeat=ln):
            if i % nshards == shard:
                yield {"kind": "enum", "ops": [ALPHA3[k] for k in hist]}
            i += 1
    # constructor entries: every list of <= 3 (quick) / 4 (thorough) pairs over {a,ab,''} x {x,xy,''}, as a list and as a
    # one-shot iterator; a conflicting or incomplete entry must make the constructor raise NamerError (it adds the
    # entries through addNameAddr), otherwise the maps must equal the sequentially built model
    pairs = [[n, a] for n in N3 for a in A3]
    for ln in range(0, (3 if tier == "quick" else 4) + 1):
        for combo in itertools.product(range(len(pairs)), repeat=ln):
            if i % nshards == shard:
                yield {"kind": "ctor", "init": [pairs[k] for k in combo], "as_iter": bool(i % 2), "ops": []}
            i += 1
    rng = random.Random(f"{seed}:C27:{shard}")
    nrand = (2000 if tier == "quick" else 100000) // nshards
    N4 = ["a", "ab", "b", "x", "", None]        # names and addresses overlap on purpose ("x", "a")
    A4 = ["x", "xy", "y", "a", "", None]
    for _ in range(nrand):
        ops = []
        for _ in range(rng.randint(5, 60)):
            k = rng.choice(["add", "add", "rem", "chaddr", "chname", "clear"] if rng.random() < 0.1 else
                           ["add", "add", "rem", "chaddr", "chname"])
            ops.append([k, rng.choice(N4), rng.choice(A4)])
            if rng.random() < 0.04:
                # an unhashable address/name (e.g. a [host, port] list decoded from JSON): however it is refused, the
                # maps must stay as they were
                ops.append([k if k != "clear" else "add", rng.choice(N4[:4]), ["h", 80]] if rng.random() < 0.7
                           else [k if k != "clear" else "add", ["n"], rng.choice(A4[:4])])
        init = None
        if rng.random() < 0.3:
            init = [[rng.choice(N4[:4]), rng.choice(A4[:4])] for _ in range(rng.randint(0, 3))]
        yield {"kind": "rand", "init": init, "ops": ops}


# ---- reference model -----------------------------------------------------
class Model:
    def __init__(self):
        self.ab = {}
        self.na = {}

    def apply(self, op, n, a):
        """returns ('ret', value) or ('raise',)"""
        ab, na = self.ab, self.na
        if op == "clear":
            ab.clear(); na.clear()
            return ("ret", None)
        if op == "add":
            if not n or not a:
                return ("raise",)
            if n in ab:
                return ("ret", False) if ab[n] == a else ("raise",)
            if a in na:
                return ("raise",)
            ab[n] = a; na[a] = n
            return ("ret", True)
        if op == "rem":
            if n:
                if n not in ab:
                    return ("ret", False)
                if a and a != ab[n]:
                    return ("ret", False)
                a = ab[n]
                del ab[n]; del na[a]
                return ("ret", True)
            if a:
                if a not in na:
                    return ("ret", False)
                n = na[a]
                del ab[n]; del na[a]
                return ("ret", True)
            return ("ret", False)
        if op == "chaddr":
            if not n or not a:
                return ("raise",)
            if n not in ab or ab[n] == a:
                return ("ret", False)
            if a in na:
                return ("raise",)
            del na[ab[n]]
            ab[n] = a; na[a] = n
            return ("ret", True)
        if op == "chname":
            if not n or not a:
                return ("raise",)
            if a not in na or na[a] == n:
                return ("ret", False)
            if n in ab:
                return ("raise",)
            del ab[na[a]]
            na[a] = n; ab[n] = a
            return ("ret", True)
        raise AssertionError(op)


# ---- hook wrappers on the real class ---------------------------------------
HOOKED = ["addNameAddr", "remNameAddr", "changeAddrAtName", "changeNameAtAddr", "clearAllNameAddr"]
_state = {"ctx": None, "installed": False}


def _wrap(name, orig):
    def wrapper(self, *pa, **kwa):
        ctx = _state["ctx"]
        try:
            pre = (dict(self._addrByName), dict(self._nameByAddr))
        except AttributeError:
            return orig(self, *pa, **kwa)
        outcome = "raise"
        ret = None
        try:
            ret = orig(self, *pa, **kwa)
            outcome = "ret"
            return ret
        finally:
            if ctx is not None:
                ctx.count("hook_evaluations")
                ab, na = self._addrByName, self._nameByAddr
                inv = {v: k for k, v in ab.items()}
                if inv != na or len(ab) != len(na):
                    ctx.violation("bijection-broken:" + name,
                                  f"after {name}{pa}{kwa}: addrByName={ab} nameByAddr={na}")
                if (outcome == "raise" or ret is False) and name != "clearAllNameAddr":
                    if (ab, na) != pre:
                        ctx.violation("rejected-op-mutated:" + name,
                                      f"{name}{pa}{kwa} {'raised' if outcome == 'raise' else 'returned False'} "
                                      f"but maps changed from {pre} to {(dict(ab), dict(na))}")
    wrapper.__wrapped__ = orig
    return wrapper


def setup(ctx):
    _state["ctx"] = ctx
    if not _state["installed"]:
        for name in HOOKED:
            setattr(naming.Namer, name, _wrap(name, getattr(naming.Namer, name)))
        _state["installed"] = True


def run_ctor_case(case, ctx):
    init = [tuple(x) for x in case["init"]]
    model = Model()
    expect_raise = False
    for n, a in init:
        if model.apply("add", n, a)[0] == "raise":
            expect_raise = True
            break
    entries = iter(init) if case.get("as_iter") else list(init)
    ctx.count("constructor_cases")
    try:
        namer = naming.Namer(entries=entries) if init else naming.Namer(entries=entries if case.get("as_iter") else None)
    except hioing.NamerError:
        if not expect_raise:
            ctx.violation("constructor-rejected-consistent-entries", f"Namer(entries={init}) raised NamerError")
        else:
            ctx.count("constructor_conflicts_rejected")
        return
    except Exception as ex:
        ctx.violation("constructor-undocumented-exception", f"Namer(entries={init}) raised {ex!r}")
        return
    ab, na = namer.addrByName, namer.nameByAddr
    if {v: k for k, v in ab.items()} != na or len(ab) != len(na):
        ctx.violation("constructor-built-non-bijection", f"Namer(entries={init}): addrByName={ab} nameByAddr={na}")
        return
    if expect_raise:
        ctx.violation("constructor-accepted-conflicting-entries", f"Namer(entries={init}) did not raise; maps {ab}/{na}")
        return
    if ab != model.ab or na != model.na:
        ctx.violation("constructor-maps-differ-from-model", f"Namer(entries={init}): {ab}/{na}, model {model.ab}/{model.na}")
        return
    if len(init) >= 2:
        ctx.nontrivial(["ctor", sorted(ab.items()), len(init)])


def run_case(case, ctx):
    if case["kind"] == "ctor":
        return run_ctor_case(case, ctx)
    model = Model()
    init = case.get("init")
    entries = None
    if init:
        # constructor path: entries are added through addNameAddr; a conflicting one raises
        m2 = Model()
        ok = True
        for n, a in init:
            if m2.apply("add", n, a)[0] == "raise":
                ok = False
                break
        if ok:
            entries = [tuple(x) for x in init]
            model = m2
    namer = naming.Namer(entries=entries) if entries else naming.Namer()
    outcomes = []
    changed = rejected = 0
    for op, n, a in case["ops"]:
        if isinstance(n, list) or isinstance(a, list):
            ctx.count("unhashable_argument_ops")
            try:
                r = {"add": lambda: namer.addNameAddr(n, a), "rem": lambda: namer.remNameAddr(name=n, addr=a),
                     "chaddr": lambda: namer.changeAddrAtName(name=n, addr=a),
                     "chname": lambda: namer.changeNameAtAddr(addr=a, name=n)}[op]()
            except Exception:
                r = "raised"
            if r is True or namer.addrByName != model.ab or namer.nameByAddr != model.na:
                ctx.violation("unhashable-argument-changed-the-maps:" + op,
                              f"{op}({n!r},{a!r}) -> {r!r}; maps now {namer.addrByName}/{namer.nameByAddr}, "
                              f"before {model.ab}/{model.na}")
                return
            continue
        exp = model.apply(op, n, a)
        try:
            if op == "add":
                got = ("ret", namer.addNameAddr(n, a))
            elif op == "rem":
                got = ("ret", namer.remNameAddr(name=n, addr=a))
            elif op == "chaddr":
                got = ("ret", namer.changeAddrAtName(name=n, addr=a))
            elif op == "chname":
                got = ("ret", namer.changeNameAtAddr(addr=a, name=n))
            else:
                got = ("ret", namer.clearAllNameAddr())
        except hioing.NamerError:
            got = ("raise",)
        except Exception as ex:  # any other exception type is not a documented rejection
            got = ("raise-other", type(ex).__name__)
            ctx.violation("undocumented-exception:" + op, f"{op}({n!r},{a!r}) raised {ex!r}")
        if got[0] == "raise":
            ctx.count("raised_ops"); rejected += 1
        elif got == ("ret", False):
            ctx.count("rejected_ops"); rejected += 1
        elif got == ("ret", True) or op == "clear":
            ctx.count("changing_ops"); changed += 1
        outcomes.append((op, got[0] if got[0] != "ret" else str(got[1])))
        if got != exp:
            ctx.violation("model-mismatch:" + op,
                          f"{op}({n!r},{a!r}) gave {got}, reference model gives {exp}; "
                          f"maps={namer.addrByName}")
            return
        if namer.addrByName != model.ab or namer.nameByAddr != model.na:
            ctx.violation("model-state-mismatch:" + op,
                          f"after {op}({n!r},{a!r}): real {namer.addrByName}/{namer.nameByAddr} "
                          f"model {model.ab}/{model.na}")
            return
        # a caller that edits the dicts the properties hand out must not reach the registry (they are documented copies)
        d1, d2 = namer.addrByName, namer.nameByAddr
        d1["~caller"] = "~edit"; d1.pop(next(iter(model.ab), None), None)
        d2.clear()
        ctx.count("returned_map_edits_probed")
        if namer.addrByName != model.ab or namer.nameByAddr != model.na or namer.countNameAddr != len(model.ab):
            ctx.violation("caller-edit-of-returned-map-reached-registry:" + op,
                          f"after {op}({n!r},{a!r}) the caller edited the dicts returned by addrByName/nameByAddr; "
                          f"registry now {namer.addrByName}/{namer.nameByAddr}, model {model.ab}/{model.na}")
            return
        # public read API agrees with the maps
        for nn, aa in model.ab.items():
            if namer.getAddr(nn) != aa or namer.getName(aa) != nn:
                ctx.violation("lookup-mismatch", f"getAddr/getName disagree with maps for {nn!r},{aa!r}")
        if namer.countNameAddr != len(model.ab):
            ctx.violation("count-mismatch", f"countNameAddr={namer.countNameAddr} model={len(model.ab)}")
    ctx.seen("final_maps", sorted(model.ab.items()))
    if changed and rejected:
        ctx.nontrivial([outcomes, sorted(model.ab.items())])
    if case["kind"] == "rand" or len(case["ops"]) == 3:
        ctx.sample({"case": case, "outcomes": outcomes, "final": model.ab})

TECHNIQUE = "invariant-at-hook (class-level wrappers with post-check in finally) + lock-step two-dict reference model over enumerated and random op histories"
LEVEL_TEXT = ("Every mutating Namer call in every history is judged by the bijection invariant, the unchanged-on-reject invariant and a "
              "reference model; the history space is enumerated completely up to a bounded length over a small conflict-rich domain and "
              "sampled randomly beyond. Held on what was observed, not a proof for unbounded histories.")
LEVEL_NOTE = "trusted: the 60-line reference model, Python dict semantics; single-threaded use"
