"""Driver: shard fan-out, watchdog, verdict folding, evidence writer, replay, self-tests.

Verdicts are three-valued:
  exit 0  held on what was observed (KNOWN-FINDING lines may be printed)
  exit 1  VIOLATION property=<id> replay=<path>
  exit 2  INCONCLUSIVE (watchdog fired, harness error, or a deciding monitor saw too little)
"""
import importlib
import json
import os
import random
import shutil
import subprocess
import sys
import tempfile
import time
import fnmatch

from . import env
from .ctx import Ctx, jhash, jsafe

VERIF = env.VERIF
EVID = os.environ.get("VERIF_EVIDENCE_DIR", os.path.join(VERIF, "evidence"))
REPLAYS = os.environ.get("VERIF_REPLAY_DIR", os.path.join(VERIF, "replays"))
NCPU = int(os.environ.get("VERIF_JOBS", "16"))


def load(prop):
    return importlib.import_module(f"vf.props.{prop.lower()}")


def known_findings(prop):
    paths = [os.path.join(VERIF, "known_findings.json")]
    extra = os.environ.get("VERIF_EXTRA_FINDINGS")  # development aid only: proposed entries not yet merged
    if extra:
        paths.append(extra)
    op, fx = [], []
    for path in paths:
        try:
            data = json.load(open(path))
        except FileNotFoundError:
            continue
        op += [f for f in data.get("findings", []) if f["property"] == prop]
        fx += [f for f in data.get("fixed", []) if f["property"] == prop]
    return op, fx


def tier_get(val, tier, default=None):
    if isinstance(val, dict):
        return val.get(tier, default)
    return val if val is not None else default


# --------------------------------------------------------------------------
# one shard (child process)
# --------------------------------------------------------------------------
def shard_main(prop, tier, seed, shard, nshards, outfile):
    env.assert_tree()
    import faulthandler
    faulthandler.enable()
    mod = load(prop)
    ctx = Ctx(prop, tier, seed, shard, nshards)
    t0 = time.time()
    budget = tier_get(getattr(mod, "BUDGET_S", None), tier, None)
    if budget:
        # soft stop; case lists are finite and sized to finish well inside it on an idle machine, so a slower or
        # loaded machine gets head-room instead of an INCONCLUSIVE from unmet minimums
        budget *= float(os.environ.get("VERIF_BUDGET_SCALE", "4"))
    setup = getattr(mod, "setup", None)
    if setup:
        setup(ctx)
    try:
        for case in mod.cases(tier, seed, shard, nshards):
            ctx.case = case
            ctx.evaluations += 1
            try:
                mod.run_case(case, ctx)
            except Exception:
                ctx.harness_error("run_case")
                if len(ctx.harness_errors) > 20:
                    break
            if budget and time.time() - t0 > budget:
                ctx.count("stopped_by_time_budget")
                break
    except Exception:
        ctx.case = None
        ctx.harness_error("cases")
    teardown = getattr(mod, "teardown", None)
    if teardown:
        try:
            teardown(ctx)
        except Exception:
            ctx.harness_error("teardown")
    res = ctx.result()
    res["wall_s"] = time.time() - t0
    with open(outfile, "w") as f:
        json.dump(res, f)
    return 0


# --------------------------------------------------------------------------
# the check
# --------------------------------------------------------------------------
def run_check(prop, tier):
    hio_file = env.assert_tree()
    mod = load(prop)
    seed = int(os.environ.get("VERIF_SEED", "0"))
    nshards = tier_get(getattr(mod, "NSHARDS", None), tier, 16 if tier == "thorough" else 8)
    timeout = tier_get(getattr(mod, "TIMEOUT_S", None), tier, 3600 if tier == "thorough" else 300)
    # wall-clock watchdog only (its firing is INCONCLUSIVE, never a verdict): keep it generous so a loaded machine
    # cannot turn a healthy run into a non-zero exit
    timeout = max(timeout, 3600 if tier == "thorough" else 900) * float(os.environ.get("VERIF_TIMEOUT_SCALE", "1"))
    t0 = time.time()
    tmp = tempfile.mkdtemp(prefix=f"vf-{prop}-")
    procs = []
    pending = list(range(nshards))
    running = {}
    results = {}
    watchdog = []
    try:
        while pending or running:
            while pending and len(running) < NCPU:
                sh = pending.pop(0)
                out = os.path.join(tmp, f"shard{sh}.json")
                log = open(os.path.join(tmp, f"shard{sh}.log"), "wb")
                p = subprocess.Popen(
                    [sys.executable, "-X", "faulthandler", "-m", "vf.drive", "--shard", prop, tier,
                     str(seed), str(sh), str(nshards), out],
                    stdout=log, stderr=subprocess.STDOUT, cwd=VERIF)
                running[sh] = (p, out, log, time.time())
            time.sleep(0.02)
            for sh, (p, out, log, ts) in list(running.items()):
                rc = p.poll()
                if rc is None:
                    if time.time() - ts > timeout:
                        p.kill()
                        p.wait()
                        watchdog.append(sh)
                        log.close()
                        del running[sh]
                    continue
                log.close()
                del running[sh]
                if rc == 0 and os.path.exists(out):
                    results[sh] = json.load(open(out))
                else:
                    tail = open(os.path.join(tmp, f"shard{sh}.log"), "rb").read()[-3000:].decode("utf-8", "replace")
                    results[sh] = {"crashed": rc, "log": tail}
        return fold(prop, tier, seed, mod, results, watchdog, time.time() - t0, hio_file)
    finally:
        for sh, (p, out, log, ts) in running.items():
            p.kill()
        shutil.rmtree(tmp, ignore_errors=True)


def fold(prop, tier, seed, mod, results, watchdog, wall, hio_file):
    evaluations = 0
    sigs = set()
    samples = []
    counters = {}
    peaks = set(getattr(mod, "PEAK_COUNTERS", ()))
    distinct = {}
    violations = []
    vcount = {}
    inconclusive = []
    for sh in sorted(results):
        r = results[sh]
        if "crashed" in r:
            inconclusive.append(f"shard {sh} crashed rc={r['crashed']}: {r['log'][-600:]}")
            continue
        evaluations += r["evaluations"]
        sigs.update(r["sigs"])
        if len(samples) < 5:
            samples.extend(r["samples"][: 5 - len(samples)])
        for k, v in r["counters"].items():
            if k in peaks:
                counters[k] = max(counters.get(k, 0), v)
            else:
                counters[k] = counters.get(k, 0) + v
        for k, v in r["distinct"].items():
            distinct.setdefault(k, set()).update(v)
        violations.extend(r["violations"])
        for k, v in r["vcount"].items():
            vcount[k] = vcount.get(k, 0) + v
        if r["n_harness_errors"]:
            he = r["harness_errors"][0]
            inconclusive.append(f"shard {sh}: {r['n_harness_errors']} harness error(s), first in {he['where']}: "
                                f"{he['tb'][-1500:]}")
    for sh in watchdog:
        inconclusive.append(f"shard {sh} stopped by wall-clock watchdog")

    # monitors must have been reached
    require = tier_get(getattr(mod, "REQUIRE", {}), tier, {}) if _is_tiered(getattr(mod, "REQUIRE", {})) \
        else getattr(mod, "REQUIRE", {})
    for name, minimum in (require or {}).items():
        have = counters.get(name, len(distinct.get(name, ())) if name in distinct else 0)
        if have < minimum:
            inconclusive.append(f"monitor counter {name}={have} < required {minimum}")
    if evaluations < 1:
        inconclusive.append("no case was evaluated")
    if len(sigs) < 2:
        inconclusive.append(f"distinct non-trivial cases = {len(sigs)} < 2")

    open_kf, fixed_kf = known_findings(prop)
    real = {}
    known = {}
    for v in violations:
        kf = next((f for f in open_kf if fnmatch.fnmatchcase(v["key"], f["key"])), None)
        if kf is not None:
            known.setdefault(kf["key"], (kf, v))
        else:
            real.setdefault(v["key"], v)

    lines = []
    rc = 0
    for key, (kf, v) in sorted(known.items()):
        n = sum(c for k, c in vcount.items() if fnmatch.fnmatchcase(k, key))
        lines.append(f"KNOWN-FINDING: property={prop} {key}: {kf['what']} (reproduced {n}x this run)")
    for kf in open_kf:
        if kf["key"] not in known:
            lines.append(f"NOTE property={prop} listed known finding '{kf['key']}' was not reproduced by this run")
    replay_paths = []
    if real:
        rc = 1
        os.makedirs(os.path.join(REPLAYS, prop), exist_ok=True)
        for key, v in sorted(real.items()):
            path = os.path.join(REPLAYS, prop, f"{jhash([key, v['case']])}.json")
            with open(path, "w") as f:
                json.dump({"property": prop, "key": key, "msg": v["msg"], "case": v["case"],
                           "trace": v.get("trace"), "seed": seed, "tier": tier,
                           "count_this_run": vcount.get(key, 1)}, f, indent=1)
            replay_paths.append(path)
            lines.append(f"VIOLATION property={prop} replay={path}")
            lines.append(f"  key={key} count={vcount.get(key, 1)} msg={v['msg'][:600]}")
    if inconclusive:
        if rc == 0:
            rc = 2
        for why in inconclusive:
            lines.append(f"INCONCLUSIVE property={prop} reason={why}")

    level = getattr(mod, "LEVEL", "exploration")
    coverage = {
        "evaluations": evaluations,
        "distinct_nontrivial": len(sigs),
        "rule": getattr(mod, "RULE", ""),
        "samples": samples if samples else [],
        "observed": counters,
        "distinct_observed": {k: len(v) for k, v in distinct.items()},
        "monitor_minimums": require or {},
        "shards": len(results),
        "hio_under_test": hio_file,
        "known_findings_reproduced": sorted(known),
        "verdict": {0: "held-on-observed", 1: "violated", 2: "inconclusive"}[rc],
    }
    exh = tier_get(getattr(mod, "EXHAUSTIVE", None), tier, None)
    if exh:
        coverage["exhaustive"] = True
        coverage["exhaustive_subspace"] = exh
    if inconclusive:
        coverage["inconclusive_reasons"] = inconclusive[:10]
    ev = {
        "property_id": prop, "tier": tier, "seed": seed, "level": level,
        "coverage": coverage,
        "assumptions": list(getattr(mod, "ASSUMPTIONS", [])),
        "wall_s": round(wall, 3),
        "violations": len(real),
    }
    os.makedirs(EVID, exist_ok=True)
    with open(os.path.join(EVID, f"{prop}.json"), "w") as f:
        json.dump(ev, f, indent=1, sort_keys=True)
    print(f"[{prop} {tier} seed={seed}] cases={evaluations} distinct_nontrivial={len(sigs)} wall={wall:.1f}s "
          f"verdict={coverage['verdict']}")
    keys = sorted(counters)
    print("  observed: " + ", ".join(f"{k}={counters[k]}" for k in keys))
    if distinct:
        print("  distinct: " + ", ".join(f"{k}={len(v)}" for k, v in sorted(distinct.items())))
    for ln in lines:
        print(ln)
    return rc


def _is_tiered(d):
    return isinstance(d, dict) and set(d) <= {"quick", "thorough"} and len(d) > 0


# --------------------------------------------------------------------------
# replay
# --------------------------------------------------------------------------
def replay(prop, path):
    env.assert_tree()
    mod = load(prop)
    rec = json.load(open(path))
    ctx = Ctx(prop, "replay", rec.get("seed", 0))
    ctx.case = rec["case"]
    ctx.evaluations = 1
    setup = getattr(mod, "setup", None)
    if setup:
        setup(ctx)
    try:
        mod.run_case(rec["case"], ctx)
    except Exception:
        ctx.harness_error("run_case")
    if ctx.harness_errors:
        print(f"INCONCLUSIVE property={prop} reason=harness error during replay\n{ctx.harness_errors[0]['tb']}")
        return 2
    if ctx.violations:
        for v in ctx.violations:
            print(f"VIOLATION property={prop} replay={path}")
            print(f"  key={v['key']} msg={v['msg']}")
        return 1
    print(f"[{prop} replay] case held")
    return 0


# --------------------------------------------------------------------------
# self-test: a kept mutant must make the quick tier fire with an unlisted key
# --------------------------------------------------------------------------
def apply_and_check(prop, patch, tier="quick"):
    tmp = tempfile.mkdtemp(prefix="vf-mutant-")
    try:
        shutil.copytree(os.path.join(env.REPO, "src"), os.path.join(tmp, "src"),
                        ignore=shutil.ignore_patterns("__pycache__", "*.pyc"))
        certs = os.path.join(env.REPO, "tests", "core", "tcp", "certs")
        if os.path.isdir(certs):
            shutil.copytree(certs, os.path.join(tmp, "tests", "core", "tcp", "certs"))
        p = subprocess.run(["patch", "-p1", "-s", "-d", tmp, "-i", os.path.abspath(patch)],
                           capture_output=True, text=True)
        if p.returncode != 0:
            return None, f"patch failed: {p.stdout}{p.stderr}"
        e = dict(os.environ)
        e["VERIF_SRC"] = os.path.join(tmp, "src")
        e["VERIF_EVIDENCE_DIR"] = os.path.join(tmp, "evidence")
        e["VERIF_REPLAY_DIR"] = os.path.join(tmp, "replays")
        e["PYTHONPATH"] = e["VERIF_SRC"] + os.pathsep + VERIF
        r = subprocess.run([sys.executable, "-m", "vf.drive", prop, tier], cwd=VERIF, env=e,
                           capture_output=True, text=True)
        return r.returncode, r.stdout + r.stderr
    finally:
        shutil.rmtree(tmp, ignore_errors=True)


def selftest(which, kind="mutants"):
    import glob
    jobs = []
    if kind == "mutants":
        pats = sorted(glob.glob(os.path.join(VERIF, "selftest", "mutants", "*.patch")))
        for p in pats:
            prop = os.path.basename(p).split("_")[0]
            if which in ("all", prop):
                jobs.append((prop, p, os.path.basename(p)))
    else:
        for d in sorted(glob.glob(os.path.join(VERIF, "seeded", "*"))):
            meta = os.path.join(d, "meta.json")
            if not os.path.exists(meta):
                continue
            m = json.load(open(meta))
            prop = m["property"]
            if which in ("all", prop, os.path.basename(d)):
                jobs.append((prop, os.path.join(d, "patch.diff"), os.path.basename(d)))
    bad = 0
    tier = os.environ.get("VERIF_SELFTEST_TIER", "quick")
    for prop, patch, name in jobs:
        rc, out = apply_and_check(prop, patch, tier)
        fired = rc == 1 and "VIOLATION property=" in (out or "")
        keys = [ln.strip() for ln in (out or "").splitlines() if ln.strip().startswith("key=")]
        print(f"{'CAUGHT' if fired else 'MISSED'} {kind[:-1]} {name} by {prop} {tier} (rc={rc}) {keys[:2]}")
        if not fired:
            bad += 1
            print("    " + "\n    ".join((out or "").splitlines()[-8:]))
    print(f"{kind}: {len(jobs) - bad}/{len(jobs)} caught")
    return 0 if bad == 0 else 3


def main(argv):
    if not argv:
        print(__doc__)
        return 2
    if argv[0] == "--shard":
        prop, tier, seed, sh, n, out = argv[1:7]
        return shard_main(prop, tier, int(seed), int(sh), int(n), out)
    if argv[0] == "--with-patch":
        # ./check --with-patch <patch> <ID> [tier]: run a check against a scratch copy of the tree with the patch applied
        rc, out = apply_and_check(argv[2].upper(), argv[1], argv[3] if len(argv) > 3 else "quick")
        print(out)
        return rc if rc is not None else 2
    if argv[0] == "--selftest":
        return selftest(argv[1] if len(argv) > 1 else "all", "mutants")
    if argv[0] == "--seeded":
        return selftest(argv[1] if len(argv) > 1 else "all", "seededs")
    prop = argv[0].upper()
    if len(argv) >= 3 and argv[1] == "--replay":
        return replay(prop, argv[2])
    tier = argv[1] if len(argv) > 1 else os.environ.get("VERIF_TIER", "quick")
    if tier not in ("quick", "thorough"):
        print(f"unknown tier {tier}")
        return 2
    return run_check(prop, tier)


if __name__ == "__main__":
    sys.exit(main(sys.argv[1:]))
