"""Source-root resolution and the "am I monitoring the tree?" assertion.

The pinned test-suite imports hio 0.6.10 from site-packages; the checks must
monitor the working tree instead.  Every process that judges anything calls
assert_tree() first and refuses to run when `hio` resolved anywhere else.
"""
import os
import sys

VERIF = os.path.dirname(os.path.dirname(os.path.abspath(__file__)))
SRC = os.path.realpath(os.environ.get("VERIF_SRC", "/repo/src"))
REPO = os.path.dirname(SRC)


def assert_tree():
    if sys.path[0:1] != [SRC] and SRC not in sys.path:
        sys.path.insert(0, SRC)
    import hio  # noqa
    f = os.path.realpath(hio.__file__)
    if not f.startswith(SRC + os.sep):
        raise SystemExit(f"INCONCLUSIVE reason=hio imported from {f}, not from {SRC}")
    return f


def certs_dir():
    d = os.path.join(REPO, "tests", "core", "tcp", "certs")
    if not os.path.isdir(d):
        d = "/repo/tests/core/tcp/certs"
    return d
