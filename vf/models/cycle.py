"""Reference model of the documented virtual-time cycle semantics (C03/C04/C05/C30).

Independent of hio: a ~100 line interpreter of program specs (see vf/sched.py)
in exact rational arithmetic.  Static doer sets only (no extend/remove, no
faults): completion by return and by limit.

Documented model (Doist docstrings + property C03):
  * tyme_k = start + k * tock; each cycle ticks once.
  * doers run in enter order; a doer is due in cycle k iff due <= tyme_k; first due = tyme at enter.
  * after running: yielded t > 0  -> due += t (cumulative);  t in (0, None) -> runs again in the next cycle.
  * a DoDoer is a doer of its parent that, when run, runs one cycle of its own children at the
    parent's tyme and finishes in the cycle in which its last child finished (unless always).
`asap` selects how "runs again in the next cycle" is represented as a due tyme inside a DoDoer:
  "next"  : the tyme of the next cycle of the enclosing scheduler chain (flat-equivalent, the documented reading)
  "own"   : tyme + the DoDoer's own tock (what DoDoer.recur literally computes; used only to CLASSIFY a mismatch)
"""
from fractions import Fraction as Fr

EPS = Fr(1, 10**9)


class Ambiguous(Exception):
    """A deciding comparison is closer to a tie than float accumulation can resolve (non-dyadic domain)."""


def fr(x):
    return Fr(x) if x is not None else None


class Node:
    def __init__(self, spec, dyadic):
        self.spec = spec
        self.id = spec["id"]
        self.kind = spec["kind"]
        self.tock = abs(fr(spec.get("tock", 0.0)))
        self.step = 0
        self.due = None
        self.duef = None
        self.children = [Node(c, dyadic) for c in spec.get("doers", [])] if self.kind == "dodoer" else []
        self.deeds = []
        self.done_value = "unset"
        self.finished = False
        self.finished_cycle = None
        self.entered = False


def yield_for(spec, k):
    ys = spec.get("ys") or []
    if not ys:
        return spec.get("tock", 0.0)
    return ys[k - 1] if k - 1 < len(ys) else ys[-1]


class Model:
    def __init__(self, prog, asap="next", dyadic=True):
        self.prog = prog
        self.asap = asap
        self.dyadic = dyadic
        self.tock = fr(prog["tock"])
        self.start = fr(prog.get("tyme", 0.0))
        self.limit = abs(fr(prog["limit"])) if prog.get("limit") is not None else None
        self.top = [Node(s, dyadic) for s in prog["doers"]]
        self.deeds = []
        self.enter_order = []
        self.recurs = []      # (cycle, id, tyme)
        self.cycle_recurs = []  # per cycle list of ids
        self.ncycles = 0
        self.done = None

    # -- helpers -------------------------------------------------------------
    def le(self, a, b, af, bf):
        """a <= b decided in exact rationals; in the non-dyadic domain the same comparison is also made
        on float shadows (af, bf) computed with the same operation order hio uses: if the two disagree, or
        the rationals are within EPS of a tie without being one, the case cannot be judged -> Ambiguous."""
        r = a <= b
        if self.dyadic:
            return r
        if r != (af <= bf):
            raise Ambiguous()
        if a != b and abs(a - b) < EPS * max(1, abs(b)):
            raise Ambiguous()
        return r

    def enter(self, node, tyme, deeds):
        node.entered = True
        self.enter_order.append(node.id)
        spec = node.spec
        if node.kind == "dodoer":
            for c in node.children:
                self.enter(c, tyme, node.deeds)
            node.due = tyme
            node.duef = float(tyme)
            deeds.append(node)
            return
        if spec.get("enter") == "finish":
            node.finished = True
            node.finished_cycle = -1
            node.done_value = spec.get("fin", True)
            return
        node.due = tyme
        node.duef = float(tyme)
        deeds.append(node)

    def next_asap(self, chain, tyme):
        """due tyme meaning 'next cycle' for a doer whose scheduler chain (innermost first) is `chain`."""
        if self.asap == "own":
            s = chain[0]
            return tyme + (self.tock if s is None else s.tock)
        for s in chain:
            if s is None:
                return tyme + self.tock
            if s.tock > 0:
                return tyme + s.tock
        return tyme + self.tock

    def run_sched(self, sched, deeds, tyme, k, chain):
        for node in list(deeds):
            if node not in deeds:
                continue
            due_now = self.le(node.due, tyme, node.duef, self.tymef)
            if not due_now:
                continue
            if node.kind == "dodoer":
                node.step += 1
                self.recurs.append((k, node.id, tyme))
                self.run_sched(node, node.deeds, tyme, k, [node] + chain)
                if not node.deeds and not node.spec.get("always", False):
                    node.finished = True
                    node.finished_cycle = k
                    node.done_value = True
                    deeds.remove(node)
                    continue
                y = node.tock
            else:
                node.step += 1
                self.recurs.append((k, node.id, tyme))
                end = node.spec.get("end")
                if end and end[0] == node.step:
                    assert end[1] == "return", "model handles completion by return only"
                    node.finished = True
                    node.finished_cycle = k
                    node.done_value = end[2]
                    deeds.remove(node)
                    continue
                y = yield_for(node.spec, node.step)
                y = fr(y) if y is not None else None
            if not y:
                node.due = self.next_asap(chain, tyme)
                node.duef = float(self.tymef + float(node.due - tyme))
            else:
                node.due = node.due + y
                node.duef = node.duef + float(y)

    def run(self, max_cycles=5000):
        tyme = self.start
        self.tymef = float(self.start)
        for n in self.top:
            self.enter(n, tyme, self.deeds)
        stop = self.start + self.limit if self.limit else None
        k = 0
        while True:
            if k >= max_cycles:
                self.done = "runaway"
                break
            self.run_sched(None, self.deeds, tyme, k, [None])
            tyme = tyme + self.tock
            self.tymef = self.tymef + float(self.tock)
            k += 1
            if not self.deeds:
                self.done = True
                break
            if stop is not None:
                if self.le(stop, tyme, float(self.start) + float(self.limit), self.tymef):
                    self.done = False
                    break
        self.ncycles = k
        self.end_tyme = tyme
        return self

    # -- views -----------------------------------------------------------------
    def nodes(self):
        out = []

        def rec(ns):
            for n in ns:
                out.append(n)
                rec(n.children)
        rec(self.top)
        return out

    def alive_order(self):
        """ids alive at the end, in enter order (flattened)."""
        alive = {n.id for n in self.nodes() if n.entered and not n.finished}
        return [i for i in self.enter_order if i in alive]
