"""Independent reference interpreter for server-sent event streams (WHATWG HTML, "9.2.6 Interpreting an event stream").

Two entry points, written separately so each checks the other (the harness asserts they agree):
  interpret_lines(lines)   lines = list of `str` WITHOUT terminators: the LOGICAL stream
  interpret_bytes(data)    the wire form: UTF-8, lines ended by CRLF, LF or CR; one leading BOM ignored;
                           an unterminated final line is discarded (the stream has not delivered it)
Both return {"events": [{"id","name","data"}, ...], "leid": str, "retry": int|None}.

Rules implemented (the spec's, nothing else):
  * blank line dispatches: last-event-id is committed; if the data buffer is empty nothing is dispatched; otherwise one
    trailing LF is removed from the data buffer and an event (id = committed last event id, name = event type buffer
    ('' when unset; a browser would call it "message"), data) is dispatched; data and event type buffers are reset,
    the last event id buffer is NOT.
  * line starting with ':' is a comment; "field:value" / "field: value" (ONE leading space removed) / "field" (no colon
    => empty value); field "data" appends value + LF; "event" sets the type; "id" sets the id buffer unless the value
    contains NUL; "retry" sets the reconnection time only when the value is ASCII digits only; other fields ignored.
`encode(tlines)` writes [[text, "crlf"|"lf"|"cr"], ...] to bytes; `ambiguous(tlines)` is True when a CR-terminated
line is followed by an empty LF-terminated one (those bytes ARE a CRLF: the wire form cannot express that sequence).
"""

TERMS = {"crlf": b"\r\n", "lf": b"\n", "cr": b"\r"}


class Interp:
    def __init__(self):
        self.data = ""          # data buffer
        self.etype = ""         # event type buffer
        self.idbuf = ""         # last event ID buffer
        self.leid = ""          # last event ID string of the event source (committed at dispatch)
        self.retry = None
        self.events = []

    def line(self, ln):
        if ln == "":
            self.dispatch()
        elif ln.startswith(":"):
            pass
        else:
            i = ln.find(":")
            if i >= 0:
                field, value = ln[:i], ln[i + 1:]
                if value.startswith(" "):
                    value = value[1:]
            else:
                field, value = ln, ""
            self.field(field, value)

    def field(self, name, value):
        if name == "event":
            self.etype = value
        elif name == "data":
            self.data += value + "\n"
        elif name == "id":
            if "\x00" not in value:
                self.idbuf = value
        elif name == "retry":
            if value != "" and all(c in "0123456789" for c in value):
                self.retry = int(value)

    def dispatch(self):
        self.leid = self.idbuf
        if self.data == "":
            self.etype = ""
            return
        data = self.data[:-1] if self.data.endswith("\n") else self.data
        self.events.append({"id": self.leid, "name": self.etype, "data": data})
        self.data = ""
        self.etype = ""

    def result(self):
        return {"events": list(self.events), "leid": self.leid, "retry": self.retry}


def interpret_lines(lines):
    it = Interp()
    for ln in lines:
        it.line(ln)
    return it.result()


def split_lines(text):
    """WHATWG line splitting of decoded text -> (complete lines, unterminated rest)."""
    lines = []
    cur = []
    i, n = 0, len(text)
    while i < n:
        c = text[i]
        if c == "\r":
            lines.append("".join(cur))
            cur = []
            if i + 1 < n and text[i + 1] == "\n":
                i += 1
        elif c == "\n":
            lines.append("".join(cur))
            cur = []
        else:
            cur.append(c)
        i += 1
    return lines, "".join(cur)


def interpret_bytes(data):
    text = bytes(data).decode("utf-8")
    if text.startswith("﻿"):
        text = text[1:]
    lines, _rest = split_lines(text)
    return interpret_lines(lines)


def encode(tlines):
    return b"".join(t.encode("utf-8") + TERMS[term] for t, term in tlines)


def ambiguous(tlines):
    for i in range(len(tlines) - 1):
        if tlines[i][1] == "cr" and tlines[i + 1][0] == "" and tlines[i + 1][1] == "lf":
            return True
    return False
