"""Reference models for the durable-store properties (C23, C24) and harness-side LMDB helpers.

Nothing here imports hio.  The models are plain Python containers:

  QueueModel      FIFO queue                        (Durq)            collections.deque
  OSetQueueModel  insertion-ordered set, FIFO pull  (Dusq)            dict used as an ordered set
  DictModel       key -> value                      (Suber)           dict
  ListModel       key -> list of values             (IoSuber)         dict of lists
  OSetModel       key -> insertion-ordered set      (IoSetSuber)      dict of dicts-as-ordered-sets

`apply(op, ...)` returns an *expectation*:
  ("ret", v)        the real call must return exactly v
  ("bool", b)       the real call must return a value whose truth equals b (documented boolean)
  ("raise", name)   the real call must raise the named exception type
  ("any",)          the statement / documentation does not fix the result: observation only
"""
import json
import os
import shutil
import tempfile
from collections import deque

ANY = ("any",)


# --------------------------------------------------------------------------
# C23 models.  Values are small ints (indices into the harness' value domain).
# --------------------------------------------------------------------------
class QueueModel:
    """FIFO queue with duplicates (what the statement calls 'a FIFO queue')."""

    def __init__(self, items=()):
        self.d = deque(items)

    def copy(self):
        return QueueModel(self.d)

    def items(self):
        return list(self.d)

    def apply(self, op, arg=None):
        d = self.d
        if op == "push":
            d.append(arg)
            return ANY
        if op == "pushnone":            # documented: None is ignored
            return ("bool", False)
        if op == "pull":                # emptive: None when empty
            return ("ret", d.popleft() if d else None)
        if op == "pullx":               # emptive=False: deque behaviour
            if not d:
                return ("raise", "IndexError")
            return ("ret", d.popleft())
        if op == "extend":
            d.extend(arg)
            return ANY
        if op == "clear":
            d.clear()
            return ANY
        if op == "count":
            return ("ret", sum(1 for x in d if x == arg))
        if op in ("pin", "syncf"):      # rewrite the durable copy from memory / re-read memory from it: content unchanged
            return ANY
        raise AssertionError(op)


class OSetQueueModel:
    """Insertion-ordered set with FIFO pull."""

    def __init__(self, items=()):
        self.s = dict.fromkeys(items)

    def copy(self):
        return OSetQueueModel(self.s)

    def items(self):
        return list(self.s)

    def apply(self, op, arg=None):
        s = self.s
        if op == "push":
            s.setdefault(arg)
            return ANY
        if op == "pushnone":
            return ("bool", False)
        if op == "pull":
            if not s:
                return ("ret", None)
            k = next(iter(s))
            del s[k]
            return ("ret", k)
        if op == "pullx":
            if not s:
                return ("raise", "IndexError")
            k = next(iter(s))
            del s[k]
            return ("ret", k)
        if op == "update":
            for v in arg:
                s.setdefault(v)
            return ANY
        if op == "remove":
            if arg in s:
                del s[arg]
                return ("present",)     # must not raise; truthy/None result both fine
            return ("absent",)          # False or KeyError are both documented somewhere: state unchanged is what counts
        if op == "clear":
            s.clear()
            return ANY
        if op in ("pin", "syncf"):
            return ANY
        raise AssertionError(op)


# --------------------------------------------------------------------------
# C24 models.  Keys are canonical key bytes, values are str.
# --------------------------------------------------------------------------
class DictModel:
    kind = "suber"

    def __init__(self):
        self.m = {}

    def get(self, k):
        return self.m.get(k)

    def cnt_all(self):
        return len(self.m)

    def items_of(self, k):
        return [self.m[k]] if k in self.m else []

    def keys(self):
        return [k for k in self.m]

    def apply(self, op, k, arg=None):
        m = self.m
        if op == "put":                     # does not overwrite
            if k in m:
                return ("bool", False)
            m[k] = arg
            return ("bool", True)
        if op == "pin":                     # overwrites
            m[k] = arg
            return ("bool", True)
        if op == "get":
            return ("ret", m.get(k))
        if op == "rem":
            return ("bool", m.pop(k, None) is not None)
        raise AssertionError(op)


class ListModel:
    kind = "io"

    def __init__(self):
        self.m = {}

    def get(self, k):
        return list(self.m.get(k, ()))

    def cnt_all(self):
        return sum(len(v) for v in self.m.values())

    def items_of(self, k):
        return self.get(k)

    def keys(self):
        return [k for k, v in self.m.items() if v]

    def _norm(self, k):
        if k in self.m and not self.m[k]:
            del self.m[k]

    def apply(self, op, k, arg=None):
        m = self.m
        cur = m.get(k, [])
        if op == "add":
            m.setdefault(k, []).append(arg)
            return ("bool", True)
        if op == "put":
            m.setdefault(k, []).extend(arg)
            self._norm(k)
            return ("bool", True) if arg else ANY
        if op == "pin":
            m[k] = list(arg)
            self._norm(k)
            return ("bool", True) if arg else ANY
        if op in ("get", "getIter"):
            return ("ret", list(cur))
        if op == "getFirst":
            return ("ret", cur[0] if cur else None)
        if op == "getLast":
            return ("ret", cur[-1] if cur else None)
        if op == "pop":
            if not cur:
                return ("ret", None)
            v = cur.pop(0)
            self._norm(k)
            return ("ret", v)
        if op == "rem":
            had = bool(cur)
            m.pop(k, None)
            return ("bool", had)
        if op == "cnt":
            return ("ret", len(cur))
        raise AssertionError(op)


class OSetModel(ListModel):
    kind = "ioset"

    def apply(self, op, k, arg=None):
        m = self.m
        cur = m.get(k, [])
        if op == "add":
            if arg in cur:
                return ("bool", False)
            m.setdefault(k, []).append(arg)
            return ("bool", True)
        if op == "put":
            new = [v for v in dict.fromkeys(arg) if v not in cur]
            m.setdefault(k, []).extend(new)
            self._norm(k)
            return ("bool", True) if new else ANY
        if op == "pin":
            m[k] = list(dict.fromkeys(arg))
            self._norm(k)
            return ("bool", True) if arg else ANY
        if op == "remval":
            if arg in cur:
                cur.remove(arg)
                self._norm(k)
                return ("bool", True)
            return ("bool", False)
        return ListModel.apply(self, op, k, arg)


def judge(exp, outcome):
    """outcome = ("ret", value) | ("raise", ExcTypeName).  Returns None when it agrees, else a short reason."""
    kind = exp[0]
    if kind == "any":
        return None if outcome[0] == "ret" else f"raised {outcome[1]}"
    if kind == "ret":
        if outcome[0] != "ret":
            return f"raised {outcome[1]}, model returns {exp[1]!r}"
        same = outcome[1] == exp[1] and (outcome[1] is None) == (exp[1] is None)
        return None if same else f"returned {outcome[1]!r}, model returns {exp[1]!r}"
    if kind == "bool":
        if outcome[0] != "ret":
            return f"raised {outcome[1]}, model returns {exp[1]!r}"
        return None if bool(outcome[1]) == exp[1] and outcome[1] is not None else \
            f"returned {outcome[1]!r}, model returns {exp[1]!r}"
    if kind == "raise":
        if outcome[0] == "raise" and outcome[1] == exp[1]:
            return None
        return f"{outcome}, model raises {exp[1]}"
    if kind == "present":
        return None if outcome[0] == "ret" and outcome[1] is not False else f"{outcome} for a contained value"
    if kind == "absent":
        if outcome[0] == "ret" and not outcome[1]:
            return None
        if outcome[0] == "raise" and outcome[1] == "KeyError":
            return None
        return f"{outcome} for a value that is not contained"
    raise AssertionError(exp)


# --------------------------------------------------------------------------
# harness-side LMDB helpers (raw cursor reads, independent of hio's scan code)
# --------------------------------------------------------------------------
def raw_items(env, sdb):
    """All (key bytes, value bytes) of a named sub-db in LMDB order, read with a plain cursor."""
    with env.begin(db=sdb, write=False) as txn:
        return [(bytes(k), bytes(v)) for k, v in txn.cursor()]


def raw_drop(env, sdb):
    """Empty a named sub-db (keeps the handle)."""
    with env.begin(write=True) as txn:
        txn.drop(sdb, delete=False)


def split_iokey(iokey, sep=b"."):
    """(key, ion) of an insertion-ordered key `key<sep><32 hex>`; (iokey, None) when it has no such tail."""
    head, s, tail = iokey.rpartition(sep)
    if s and len(tail) == 32:
        try:
            return head, int(tail, 16)
        except ValueError:
            pass
    return iokey, None


def raw_io_lists(env, sdb, sep=b"."):
    """{key: [value bytes in ordinal order]} of an insertion-ordered sub-db, from a plain cursor."""
    out = {}
    for iokey, val in raw_items(env, sdb):
        key, ion = split_iokey(iokey, sep)
        out.setdefault(key, []).append((ion if ion is not None else -1, val))
    return {k: [v for _, v in sorted(lst, key=lambda t: t[0])] for k, lst in out.items()}


def foreign_inside_ion_range(env, sdb, key, sep=b"."):
    """Raw iokeys of OTHER keys that LMDB orders inside key's own ordinal range
    [key.000..0, key.fff..f] - the condition under which a cursor scan of `key` meets a foreign entry."""
    lo = key + sep + b"0" * 32
    hi = key + sep + b"f" * 32
    found = []
    with env.begin(db=sdb, write=False) as txn:
        cur = txn.cursor()
        if cur.set_range(lo):
            for k in cur.iternext(values=False):
                k = bytes(k)
                if k > hi:
                    break
                if split_iokey(k, sep)[0] != key:
                    found.append(k)
    return found


def iokey_in_range(other, key, sep=b"."):
    """can a hidden key of `other` sort inside the ordinal range [key.000..0, key.fff..f] of `key`?  (the recorded
    key-encoding weakness of C24: such sibling keys are kept out of C23's workloads)"""
    lo = key + sep + b"0" * 32
    hi = key + sep + b"f" * 32
    return other != key and any(lo <= other + sep + t * 32 <= hi for t in (b"0", b"f"))


def parse_dom(raw):
    """b'ClassName\\n{json}' -> (ClassName, value of the single `value` field)."""
    name, _, ser = raw.partition(b"\n")
    return name.decode(), json.loads(ser.decode()).get("value")


# --------------------------------------------------------------------------
# scratch directories: tmpfs when there is one (LMDB commits fsync), always removed
# --------------------------------------------------------------------------
def _pid_alive(pid):
    return os.path.exists(f"/proc/{pid}")


def scratch_root(tag):
    """mkdtemp named <tag>-<pid>-xxxx under /dev/shm (or the default temp dir).  Leftovers of dead
    processes with the same tag (a shard killed by the watchdog) are removed first."""
    parent = "/dev/shm" if os.path.isdir("/dev/shm") and os.access("/dev/shm", os.W_OK | os.X_OK) \
        else tempfile.gettempdir()
    try:
        for n in os.listdir(parent):
            if n.startswith(tag + "-"):
                parts = n.split("-")
                try:
                    pid = int(parts[-2])
                except (ValueError, IndexError):
                    continue
                if not _pid_alive(pid):
                    shutil.rmtree(os.path.join(parent, n), ignore_errors=True)
    except OSError:
        pass
    return tempfile.mkdtemp(prefix=f"{tag}-{os.getpid()}-", dir=parent)
